//! C02 - a commit publishes exactly the sequential effect of the operations before it (E-SEQ part).
use std::panic::{catch_unwind, AssertUnwindSafe};

use serde_json::{json, Value};
use tantivy::directory::RamDirectory;

use crate::common::*;
use crate::hist::*;

/// which property's oracle the history engine applies: 0 = C02 (content / opstamps), 1 = C10 (directory
/// exact after commit + collection, on SimDirectory), 2 = C05 (a long-lived reader reloaded after every
/// operation, held searchers re-read at the end)
pub static MODE: std::sync::atomic::AtomicU8 = std::sync::atomic::AtomicU8::new(0);

pub fn set_mode(m: u8) {
    MODE.store(m, std::sync::atomic::Ordering::SeqCst);
}

fn mode_of(prop: &str) -> u8 {
    match prop {
        "C10" => 1,
        "C05" => 2,
        _ => 0,
    }
}

/// run one history (after a prefix) and compare after every observing operation
pub fn run_history(prefix: &[Op], hist: &[Op], cfg: &Config, st: &mut Stats) -> Option<(String, String)> {
    match MODE.load(std::sync::atomic::Ordering::SeqCst) {
        1 => return run_history_c10(prefix, hist, cfg, st),
        2 => return run_history_c05(prefix, hist, cfg, st),
        _ => {}
    }
    let mut h = match Harness::create(Box::new(RamDirectory::create()), cfg) {
        Ok(h) => h,
        Err(e) => return Some(("machinery".into(), format!("{e:?}"))),
    };
    let mut model = RefIndex::new();
    let mut dev = RefIndex::new();
    dev.dev_delete_all_keeps_pipeline = true;
    let mut stale_seen = false;
    let all: Vec<Op> = prefix.iter().chain(hist.iter()).copied().collect();
    let mut saw_delete_all = false;
    if cfg.eager_merges && prefix.is_empty() {
        h.enable_eager_merges();
    }
    for (i, op) in all.iter().enumerate() {
        // eager phases: the prefix runs without a merge policy, then merge-everything is switched on (so that
        // several committed segments exist when the policy gets its first chance)
        if cfg.eager_merges && i == prefix.len() && !prefix.is_empty() {
            h.enable_eager_merges();
        }
        st.count("transitions");
        if *op == Op::DeleteAll {
            saw_delete_all = true;
        }
        let r = h.exec(*op, &model);
        model.apply(*op);
        match r {
            Ok(()) => {}
            Err((rule, what)) if rule == "writer_commit_opstamp_stale" => {
                // recorded once per history; the content comparison below still runs
                if !stale_seen {
                    stale_seen = true;
                    st.count("stale_commit_opstamp_observed");
                }
                let _ = what;
            }
            Err((rule, what)) => {
                let rule = if saw_delete_all && (rule == "opstamps_not_increasing" || rule == "commit_opstamp_not_larger") { format!("{rule}_after_delete_all") } else { rule };
                return Some((rule, format!("step {i} {op:?}: {what}")));
            }
        }
        if op.observes() {
            st.count("observations");
            let got = match h.observe() {
                Ok(g) => g,
                Err((rule, what)) => return Some((rule, format!("after step {i} {op:?}: {what}"))),
            };
            if got != model.committed {
                let rule = if saw_delete_all { "committed_content_differs_after_delete_all" } else { "committed_content_differs" };
                return Some((
                    rule.into(),
                    format!("after step {i} {op:?}: a fresh searcher holds {} but replaying the operations in call order gives {}", show_docs(&got), show_docs(&model.committed)),
                ));
            }
        }
    }
    if stale_seen {
        return Some(("writer_commit_opstamp_stale".into(), "IndexWriter::commit_opstamp() did not report the opstamp returned by the last commit".into()));
    }
    let _ = dev;
    None
}

/// C10 over histories: after every commit (and after a closing commit) merges are awaited, a collection is
/// run and the directory must hold exactly the committed files; nothing may leak after rollbacks, aborted
/// commits, delete-all, merges or writer restarts. API failures are reported, content is C02's business.
fn run_history_c10(prefix: &[Op], hist: &[Op], cfg: &Config, st: &mut Stats) -> Option<(String, String)> {
    let sim = crate::simdir::SimDirectory::new();
    sim.set_log_enabled(false);
    let mut h = match Harness::create(Box::new(sim.clone()), cfg) {
        Ok(h) => h,
        Err(e) => return Some(("machinery".into(), format!("{e:?}"))),
    };
    let mut model = RefIndex::new();
    let mut all: Vec<Op> = prefix.iter().chain(hist.iter()).copied().collect();
    all.push(Op::Commit);
    if cfg.eager_merges && prefix.is_empty() {
        h.enable_eager_merges();
    }
    for (i, op) in all.iter().enumerate() {
        if cfg.eager_merges && i == prefix.len() && !prefix.is_empty() {
            h.enable_eager_merges();
        }
        st.count("transitions");
        let r = h.exec(*op, &model);
        model.apply(*op);
        if let Err((rule, what)) = r {
            if rule == "api_call_failed" {
                let rule = if what.contains("FileDoesNotExist") || what.contains("does not exist") { "call_fails_needed_file_missing" } else { "call_fails" };
                return Some((rule.into(), format!("step {i} {op:?}: {what}")));
            }
        }
        if matches!(op, Op::Commit | Op::CommitPayload) {
            st.count("observations");
            wait_merges_quiescent();
            let Some(w) = h.writer.as_ref() else { continue };
            if let Err(e) = w.garbage_collect_files().wait() {
                return Some(("call_fails".into(), format!("step {i}: garbage_collect_files: {e:?}")));
            }
            if let Err((rule, what)) = crate::wl::directory_exact(&sim, "_at_quiescence", "after a commit returned, merges finished and a collection ran,") {
                return Some((rule, format!("after step {i} {op:?}: {what}")));
            }
            // the committed files are all readable
            if let Err((rule, what)) = h.observe() {
                let rule = if what.contains("FileDoesNotExist") { "needed_file_missing_when_opened".to_string() } else { rule };
                return Some((rule, format!("after step {i} {op:?}: {what}")));
            }
        }
    }
    None
}

/// C05 over histories: one long-lived reader is reloaded after every operation; it must show exactly what a
/// fresh open shows after a commit and must not change otherwise (no uncommitted work, no moving back);
/// one searcher is held per published state and re-read at the end.
fn run_history_c05(prefix: &[Op], hist: &[Op], cfg: &Config, st: &mut Stats) -> Option<(String, String)> {
    let mut h = match Harness::create(Box::new(RamDirectory::create()), cfg) {
        Ok(h) => h,
        Err(e) => return Some(("machinery".into(), format!("{e:?}"))),
    };
    let reader: tantivy::IndexReader = match h.index.reader_builder().reload_policy(tantivy::ReloadPolicy::Manual).try_into() {
        Ok(r) => r,
        Err(e) => return Some(("reader_creation_fails".into(), format!("{e:?}"))),
    };
    let mut model = RefIndex::new();
    let all: Vec<Op> = prefix.iter().chain(hist.iter()).copied().collect();
    if cfg.eager_merges && prefix.is_empty() {
        h.enable_eager_merges();
    }
    let mut held: Vec<(tantivy::Searcher, Vec<MDoc>)> = vec![(reader.searcher(), vec![])];
    let mut prev: Vec<MDoc> = vec![];
    for (i, op) in all.iter().enumerate() {
        if cfg.eager_merges && i == prefix.len() && !prefix.is_empty() {
            h.enable_eager_merges();
        }
        st.count("transitions");
        let r = h.exec(*op, &model);
        model.apply(*op);
        if let Err((rule, what)) = r {
            if rule == "api_call_failed" {
                return Some(("call_fails".into(), format!("step {i} {op:?}: {what}")));
            }
        }
        if cfg.eager_merges {
            wait_merges_quiescent();
        }
        if let Err(e) = reader.reload() {
            return Some(("reload_fails".into(), format!("after step {i} {op:?}: {e:?}")));
        }
        st.count("observations");
        let s = reader.searcher();
        let now = match observe_searcher(&s, &h.fields) {
            Ok(v) => v,
            Err((_, what)) => return Some(("searcher_inconsistent".into(), format!("after step {i} {op:?}: {what}"))),
        };
        if matches!(op, Op::Commit | Op::CommitPayload) {
            let fresh = match h.observe() {
                Ok(v) => v,
                Err((rule, what)) => return Some((rule, format!("after step {i} {op:?}: {what}"))),
            };
            if now != fresh {
                return Some(("reload_not_the_last_commit".into(), format!("after step {i} {op:?}: the reloaded reader shows {} but a fresh open shows {}", show_docs(&now), show_docs(&fresh))));
            }
        } else if now != prev {
            return Some(("reload_not_a_commit".into(), format!("after step {i} {op:?} (not a commit) the reloaded reader shows {}; it showed {} after the last commit", show_docs(&now), show_docs(&prev))));
        }
        if now != prev || matches!(op, Op::MergeAll | Op::Commit | Op::CommitPayload) {
            held.push((s, now.clone()));
        }
        prev = now;
    }
    // writer gone, files collected: every held searcher still answers as it did
    if let Some(w) = h.writer.as_ref() {
        let _ = w.garbage_collect_files().wait();
    }
    h.writer = None;
    for (k, (s, was)) in held.iter().enumerate() {
        match observe_searcher(s, &h.fields) {
            Ok(v) if v == *was => {}
            Ok(v) => return Some(("held_searcher_changed".into(), format!("searcher #{k} showed {} and now shows {}", show_docs(was), show_docs(&v)))),
            Err((_, what)) => return Some(("held_searcher_fails".into(), format!("searcher #{k}: {what}"))),
        }
    }
    None
}

/// designated large input: one operation batch whose documents exceed the writer's memory budget, so that the
/// segment is cut by the budget while the batch is being indexed
pub fn check_big_batch() -> Option<(String, String)> {
    use tantivy::indexer::UserOperation;
    let cfg = Config { workers: 1, sort: None, eager_merges: false };
    let mut h = Harness::create(Box::new(RamDirectory::create()), &cfg).ok()?;
    let n = 260u64;
    let mut ops = vec![];
    for id in 1..=n {
        let mut d = tantivy::TantivyDocument::default();
        d.add_u64(h.fields.id, id);
        d.add_text(h.fields.k, "a");
        // ~3000 distinct tokens per document
        let mut body = String::with_capacity(40_000);
        for t in 0..3000u64 {
            body.push_str(&format!("w{}x{} ", id, t.wrapping_mul(2654435761) % 100_000));
        }
        d.add_text(h.fields.body, body);
        ops.push(UserOperation::Add(d));
    }
    let w = h.writer.as_mut()?;
    if let Err(e) = w.add_document(make_doc(&h.fields, 1000, "b")) {
        return Some(("api_call_failed".into(), format!("{e:?}")));
    }
    if let Err(e) = w.run(ops) {
        return Some(("api_call_failed".into(), format!("run(big batch): {e:?}")));
    }
    if let Err(e) = w.add_document(make_doc(&h.fields, 1001, "b")) {
        return Some(("api_call_failed".into(), format!("{e:?}")));
    }
    if let Err(e) = w.commit() {
        return Some(("api_call_failed".into(), format!("commit: {e:?}")));
    }
    let searcher = h.index.reader().ok()?.searcher();
    let mut ids: Vec<u64> = vec![];
    for seg in searcher.segment_readers() {
        let col = seg.fast_fields().u64("id").ok()?;
        for d in seg.doc_ids_alive() {
            ids.push(col.first(d)?);
        }
    }
    ids.sort();
    let want: Vec<u64> = (1..=n).chain([1000, 1001]).collect();
    if ids != want {
        let missing: Vec<u64> = want.iter().filter(|i| !ids.contains(i)).copied().take(5).collect();
        return Some(("big_batch_documents_lost".into(), format!("a batch of {n} large documents (+2 single adds) was committed over {} segments: {} documents are searchable, missing ids {missing:?}..", searcher.segment_readers().len(), ids.len())));
    }
    if searcher.segment_readers().len() < 2 {
        return Some(("machinery_big_batch_did_not_cut".into(), "the large batch did not exceed the memory budget (one segment)".into()));
    }
    None
}

pub fn prefixes() -> Vec<Vec<Op>> {
    vec![
        vec![],
        vec![Op::AddA, Op::AddB, Op::Commit],
        vec![Op::AddA, Op::Commit, Op::DelA, Op::AddA, Op::Commit, Op::MergeAll],
        vec![Op::AddA, Op::AddB, Op::Commit, Op::AddA, Op::Reopen],
        // a committed segment whose entry carries the worker's own delete bitset (the batch deletes its first
        // document inside the worker): later commits that delete from it go through both the entry's bitset
        // and the segment's delete file
        vec![Op::RunBatch, Op::AddB, Op::Commit],
    ]
}

fn enumerate(depth: usize, ops: &[Op]) -> Vec<Vec<Op>> {
    // all histories of exactly `depth` operations whose last operation observes; the first add is AddA
    // (a <-> b symmetry removed: AddB / DelB may only appear after an AddA)
    let mut out = vec![];
    fn rec(cur: &mut Vec<Op>, depth: usize, ops: &[Op], out: &mut Vec<Vec<Op>>) {
        if cur.len() == depth {
            if cur.last().map(|o| o.observes()).unwrap_or(false) {
                out.push(cur.clone());
            }
            return;
        }
        let seen_a = cur.iter().any(|o| matches!(o, Op::AddA | Op::RunBatch));
        for &o in ops {
            if !seen_a && matches!(o, Op::AddB) {
                continue;
            }
            cur.push(o);
            rec(cur, depth, ops, out);
            cur.pop();
        }
    }
    rec(&mut vec![], depth, ops, &mut out);
    out
}

pub fn replay(case: &Value) -> Vec<Violation> {
    quiet_panics();
    if case.get("point").is_some() && case.get("kind").map(|k| k != "big_batch").unwrap_or(false) {
        return crate::preempt_family::replay(case);
    }
    let prefix: Vec<Op> = serde_json::from_value(case["prefix"].clone()).unwrap_or_default();
    let hist: Vec<Op> = serde_json::from_value(case["history"].clone()).unwrap_or_default();
    let cfg: Config = serde_json::from_value(case["config"].clone()).unwrap_or(Config { workers: 1, sort: None, eager_merges: false });
    if case["kind"] == "big_batch" {
        return check_big_batch().map(|(r, w)| Violation::new(&r, w, case.clone())).into_iter().collect();
    }
    let flush: Option<u32> = case["flush_after"].as_u64().map(|x| x as u32);
    set_mode(mode_of(case["prop"].as_str().unwrap_or("C02")));
    set_flush_after(flush);
    let mut st = Stats::default();
    // with background merges the outcome can depend on timing: a replay gets several attempts
    let attempts = if cfg.eager_merges { 8 } else { 1 };
    let mut out = vec![];
    for _ in 0..attempts {
        let r = catch_unwind(AssertUnwindSafe(|| run_history(&prefix, &hist, &cfg, &mut st)));
        match r {
            Ok(None) => {}
            Ok(Some((r, w))) => out.push(Violation::new(&r, w, case.clone())),
            Err(e) => out.push(Violation::new("history_panic", panic_message(e), case.clone())),
        }
        if !out.is_empty() {
            break;
        }
    }
    set_flush_after(None);
    out
}

/// the phases: (flush_after, workers, depth); the flush hook is process wide, so each worker process runs one phase
fn phases(thorough: bool) -> Vec<(Option<u32>, usize, usize)> {
    let d_main = if thorough { 5 } else { 4 };
    let d_other = if thorough { 4 } else { 3 };
    // phases 4 and 5 run with the eager merge policy (background merges of committed and uncommitted segments)
    vec![(None, 1, d_main), (Some(1), 1, d_other), (None, 2, d_other), (Some(2), 2, d_other), (Some(1), 1, d_other), (Some(1), 2, d_other)]
}

fn cfg_of(phase: usize, workers: usize) -> Config {
    Config { workers, sort: None, eager_merges: phase >= 4 }
}

fn work_list(phase: usize, thorough: bool) -> (Vec<Vec<Op>>, Vec<Vec<Op>>, Vec<(usize, usize)>) {
    let (_flush, _workers, depth) = phases(thorough)[phase];
    let pre = prefixes();
    let hists = enumerate(depth, &ALPHABET);
    let mut work: Vec<(usize, usize)> = vec![];
    // history-major order: a run that stops at its time budget has covered every start state equally far
    for hi in 0..hists.len() {
        for pi in 0..pre.len() {
            // non-initial start states: a quarter of the histories each in the quick tier
            if pi > 0 && !thorough && hi % 4 != pi % 4 {
                continue;
            }
            work.push((pi, hi));
        }
    }
    (pre, hists, work)
}

/// worker process: vcheck worker C02 p<phase> start end step <tier>
pub fn worker(family: &str, start: u64, end: u64, step: u64, arg: &str) {
    quiet_panics();
    crate::iso::worker_guard(8 << 30, 60_000);
    let phase: usize = family.trim_start_matches('p').parse().unwrap_or(0);
    let (arg, prop) = arg.split_once('|').unwrap_or((arg, "C02"));
    set_mode(mode_of(prop));
    let thorough = arg == "thorough";
    let (flush, workers, _depth) = phases(thorough)[phase];
    set_flush_after(flush);
    let cfg = cfg_of(phase, workers);
    let (pre, hists, work) = work_list(phase, thorough);
    let mut st = Stats::default();
    let mut idx = start;
    while idx < end.min(work.len() as u64) {
        let (pi, hi) = work[idx as usize];
        let h = &hists[hi];
        crate::iso::set_current(idx);
        st.eval();
        let has_commit = h.iter().chain(pre[pi].iter()).any(|o| matches!(o, Op::Commit | Op::CommitPayload));
        let has_del = h.iter().any(|o| matches!(o, Op::DelA | Op::DelB | Op::DelLastId | Op::DelQueryA | Op::Rollback | Op::RunBatch | Op::PrepAbort));
        if has_commit && has_del {
            st.count("nontrivial");
        }
        let r = catch_unwind(AssertUnwindSafe(|| run_history(&pre[pi], h, &cfg, &mut st)));
        crate::iso::idle();
        let v = match r {
            Ok(None) => None,
            Ok(Some(x)) => Some(x),
            Err(e) => Some(("history_panic".to_string(), format!("{} [{}]", panic_message(e), last_panic()))),
        };
        if let Some((rule, what)) = v {
            crate::iso::emit(&json!({"t":"V","rule":rule,"what":what,"idx":idx}).to_string());
        }
        idx += step;
    }
    crate::iso::emit(&json!({"t":"S","evals":st.evaluations,"counters":st.counters}).to_string());
    crate::iso::emit("DONE");
}

/// Runs the given phases in worker processes (`prop` names the property whose worker entry is used).
pub fn run_phases(ctx: &Ctx, prop: &str, which: &[usize]) -> (Stats, bool, Vec<Value>) {
    let thorough = ctx.tier.is_thorough();
    let mut total = Stats::default();
    let mut complete = true;
    let mut phase_info = vec![];
    let all_phases = phases(thorough);
    // the phases run in the order given by the caller: under a tight time budget the first ones are the ones that run
    for &pi in which {
        let (flush, workers, depth) = all_phases[pi];
        let (pre, hists, work) = work_list(pi, thorough);
        if ctx.out_of_time() {
            complete = false;
            phase_info.push(json!({"flush_after":flush,"workers":workers,"depth":depth,"eager_merges":pi >= 4,"histories":work.len(),"completed":0}));
            continue;
        }
        let cfg = cfg_of(pi, workers);
        let o = crate::iso::run_isolated(ctx, prop, &format!("p{pi}"), work.len() as u64, &format!("{}|{}", ctx.tier.name(), prop));
        complete &= o.complete;
        phase_info.push(json!({"flush_after":flush,"workers":workers,"depth":depth,"eager_merges":pi >= 4,"histories":work.len(),"completed":o.completed}));
        total.errors.extend(o.machinery_errors);
        for (kind, idx) in o.crashes {
            let (p, h) = work[idx as usize];
            total.violation(Violation::new(
                &format!("history_{kind}"),
                format!("workers {workers} flush_after {flush:?} prefix {:?} history {:?}: the worker process did not return ({kind})", pre[p], hists[h]),
                json!({"prop":prop,"prefix":pre[p],"history":hists[h],"config":cfg,"flush_after":flush}),
            ));
        }
        for l in o.lines {
            let Ok(v) = serde_json::from_str::<Value>(&l) else { continue };
            if v["t"] == "V" {
                let (p, h) = work[v["idx"].as_u64().unwrap_or(0) as usize];
                total.violation(Violation::new(
                    v["rule"].as_str().unwrap_or("?"),
                    format!("workers {workers} flush_after {flush:?} eager_merges {} prefix {:?} history {:?}: {}", pi >= 4, pre[p], hists[h], v["what"].as_str().unwrap_or("")),
                    json!({"prop":prop,"prefix":pre[p],"history":hists[h],"config":cfg,"flush_after":flush}),
                ));
            } else if v["t"] == "S" {
                total.evaluations += v["evals"].as_u64().unwrap_or(0);
                if let Some(c) = v["counters"].as_object() {
                    for (k, x) in c {
                        total.count_n(k, x.as_u64().unwrap_or(0));
                    }
                }
            }
        }
        let mid = work[work.len() / 2];
        total.sample(json!({"prefix":pre[mid.0],"history":hists[mid.1],"config":cfg,"flush_after":flush}));
    }
    (total, complete, phase_info)
}

pub fn run(ctx: &Ctx) -> Report {
    let mut rep = Report::new("model_checking");
    // the schedule families first (they are short), then the histories: plain, eager merges, cuts, two workers
    let p = crate::preempt_family::run_family(ctx, "C02");
    let (mut total, complete, phase_info) = run_phases(ctx, "C02", &[0, 4, 1, 5, 2, 3]);
    let nontrivial = total.counters.get("nontrivial").copied().unwrap_or(0);
    // designated large batch (memory-budget cut inside an operation batch)
    total.eval();
    match catch_unwind(AssertUnwindSafe(check_big_batch)) {
        Ok(None) => total.count("big_batch_ok"),
        Ok(Some((r, w))) if r.starts_with("machinery") => total.errors.push(w),
        Ok(Some((r, w))) => total.violation(Violation::new(&r, w, json!({"kind":"big_batch"}))),
        Err(e) => total.violation(Violation::new("history_panic", format!("big batch: {}", panic_message(e)), json!({"kind":"big_batch"}))),
    }
    // schedule dimension: merge thread / updater preempted by writer operations, restarts, rollbacks; overlapping
    // merges; a commit racing with the end of a merge (E-PREEMPT, shared with C04)
    let complete = complete && p.complete;
    rep.set("preemption_scenarios", Value::Array(p.info));
    rep.set("schedules", p.st.counters.get("preemptions_fired").copied().unwrap_or(0));
    total.merge(p.st);
    rep.set("exhaustive", complete);
    rep.set("phases", Value::Array(phase_info));
    rep.set("rule", "every history of exactly D operations over the 15-operation alphabet {add a, add b, delete a, delete b, delete last id, delete_query(a AND NOT first id), run([add a, delete a, add a]), delete_all_documents, commit, prepare+payload+commit, prepare+abort, rollback, merge all, drop+reopen, wait_merging_threads+reopen} whose last operation observes (shorter histories are prefixes; a<->b symmetry removed), from the initial state and three non-initial states, under {1 worker}, {1 worker, segment cut after every document}, {2 workers}, {2 workers, cut after 2} and, with a merge policy that merges whenever two segments exist, {1 worker, cut after 1}, {2 workers, cut after 1}; plus one designated operation batch larger than the memory budget: after every observing operation a fresh searcher (ids, keys, stored and fast fields, postings) equals the reference model; opstamps increase, the commit opstamp exceeds them and equals meta.json's. Schedules: a merge of committed segments is preempted in front of every storage operation of its merge thread and of the updater finishing it by seven writer-side actions, by a writer restart and by a rollback; all 24 ordered pairs of merges sharing a source are requested together; a commit is held at every storage operation until a concurrent merge asks for publication: the published documents, opstamp and payload are those of the last commit; two producer threads on one shared writer (6 x 5 programs of add / delete / batch): producer A is held at each of its hook points between drawing an opstamp and enqueueing the operation while producer B runs its whole program, and the committed documents must equal one of the sequential orders consistent with that overlap. Non-trivial: history with a commit and a delete / rollback / batch; histories are distinct by construction");
    rep.set("states", total.counters.get("observations").copied().unwrap_or(0).max(1));
    rep.set("transitions", total.counters.get("transitions").copied().unwrap_or(0).max(1));
    rep.set("traces_validated_against_impl", total.evaluations);
    rep.assume("merges only happen as explicit awaited operations here (NoMergePolicy); policy-driven and concurrent behaviour is explored by the scheduler scenarios");
    rep.assume("histories run in worker sub-processes (one phase = one setting of the process-wide segment-cut hook)");
    rep.merge_stats(&total);
    rep.set("distinct_nontrivial", nontrivial);
    rep.violations = total.violations;
    rep.machinery_errors.extend(total.errors);
    rep
}
