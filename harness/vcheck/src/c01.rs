//! C01 - commit is atomic and durable across a crash at any instant (E-CRASH over SimDirectory logs).
use std::collections::{BTreeMap, BTreeSet};
use std::panic::{catch_unwind, AssertUnwindSafe};
use std::path::Path;

use serde::{Deserialize, Serialize};
use serde_json::{json, Value};
use tantivy::Index;

use crate::common::*;
use crate::crash::*;
use crate::simdir::{LogEntry, Op, SimDirectory};
use crate::wl::*;

#[derive(Clone, Debug, Serialize, Deserialize)]
pub struct History {
    pub name: String,
    pub cfg: WlConfig,
    pub flush_after: Option<u32>,
    pub steps: Vec<Step>,
    pub log: Vec<LogEntry>,
    /// committed state after the j-th successful commit (index 0 = empty index)
    pub commit_states: Vec<BTreeSet<u64>>,
}

pub fn histories(thorough: bool) -> Vec<(String, Vec<Step>, WlConfig, Option<u32>)> {
    use Step::*;
    let c1 = WlConfig { workers: 1, dedicated_compressor: false };
    let c2 = WlConfig { workers: 1, dedicated_compressor: true };
    let mut v = vec![
        ("H1_first_commits".to_string(), vec![Add(1), Add(2), Commit, Add(3), Commit], c1.clone(), None),
        ("H2_delete_files".to_string(), vec![Add(1), Add(2), Commit, DelId(1), Commit, DelId(2), CommitPayload], c1.clone(), None),
        ("H3_merge_gc".to_string(), vec![Add(1), Commit, Add(2), Commit, Merge, Gc, Add(3), Commit], c1.clone(), None),
        ("H4_rollback_restart".to_string(), vec![Add(1), Commit, Add(2), Rollback, Add(3), Commit, DropWriter, NewWriter, Add(4), Commit], c1.clone(), None),
    ];
    // the interrupted commit writes <segment>.<opstamp>.del; after recovery a writer that issues the same
    // operations draws the same opstamps (rollback / new writer restart the stamper at the commit opstamp)
    // policy-driven merges of committed segments while a delete is pending (the policy is switched on after
    // two commits, so that the flush of prepare_commit is the first time it sees two committed segments):
    // the merge is published (end_merge rewrites meta.json) before the transaction is aborted / committed
    v.push(("H10_policy_merge_pending_delete_abort".to_string(), vec![Add(1), Commit, Add(2), Commit, EagerOn, DelId(1), Add(3), PrepareWaitAbort, Add(4), Commit], c1.clone(), None));
    v.push(("H11_policy_merge_pending_delete_commit".to_string(), vec![Add(1), Commit, Add(2), Commit, EagerOn, DelId(1), Add(3), PrepareWaitCommit, DropWriter, NewWriter, Add(4), Commit], c1.clone(), None));
    // a writer opened on a non-empty index that has not committed yet: delete_all_documents, a collection,
    // then the transaction is abandoned
    v.push(("H12_reopened_delete_all_gc_rollback".to_string(), vec![Add(1), Add(2), Commit, DropWriter, NewWriter, DeleteAll, Gc, Rollback, Add(3), Commit], c1.clone(), None));
    v.push(("H13_reopened_delete_all_gc_restart".to_string(), vec![Add(1), Commit, Add(2), Commit, DropWriter, NewWriter, DeleteAll, Gc, DropWriter, NewWriter, Add(3), Commit], c1.clone(), None));
    v.push(("H9_delete_file_name_reuse".to_string(), vec![Add(1), Add(2), Commit, Rollback, DelId(1), Commit, Add(3), DelId(2), Commit], c1.clone(), None));
    if thorough {
        v.push(("H5_emptied_segment".to_string(), vec![Add(1), Commit, Add(2), Commit, DelId(1), Commit, Merge, Add(3), Commit], c1.clone(), None));
        v.push(("H6_flush_cut_uncommitted".to_string(), vec![Add(1), Add(2), Add(3), Commit, Add(4), Add(5), Rollback, Add(6), Commit, Merge], c1.clone(), Some(1)));
        v.push(("H7_compressor_thread".to_string(), vec![Add(1), Add(2), Commit, DelId(2), Add(3), Commit, Merge, Gc], c2, None));
        v.push(("H8_two_workers".to_string(), vec![Add(1), Add(2), Add(3), Commit, DelId(1), Add(4), Commit], WlConfig { workers: 2, dedicated_compressor: false }, Some(1)));
    }
    v
}

/// every step sequence of 1..=len steps over {add, delete the oldest live document, commit, rollback, merge
/// all, collect, restart the writer}, closed by a commit (sequences deleting from an empty set are dropped)
pub fn gen_histories(len: usize) -> Vec<Vec<Step>> {
    let mut out = vec![];
    for l in 1..=len {
        let total = 7usize.pow(l as u32);
        'seq: for code in 0..total {
            let mut c = code;
            let mut steps = vec![];
            let (mut next, mut working, mut committed) = (1u64, BTreeSet::new(), BTreeSet::new());
            for _ in 0..l {
                match c % 7 {
                    0 => {
                        steps.push(Step::Add(next));
                        working.insert(next);
                        next += 1;
                    }
                    1 => {
                        let Some(v) = working.iter().next().copied() else { continue 'seq };
                        steps.push(Step::DelId(v));
                        working.remove(&v);
                    }
                    2 => {
                        steps.push(Step::Commit);
                        committed = working.clone();
                    }
                    3 => {
                        steps.push(Step::Rollback);
                        working = committed.clone();
                    }
                    4 => steps.push(Step::Merge),
                    5 => steps.push(Step::Gc),
                    _ => {
                        steps.push(Step::DropWriter);
                        steps.push(Step::NewWriter);
                        working = committed.clone();
                    }
                }
                c /= 7;
            }
            steps.push(Step::Commit);
            out.push(steps);
        }
    }
    out
}

pub fn record(name: &str, steps: &[Step], cfg: &WlConfig, flush: Option<u32>) -> History {
    try_record(name, steps, cfg, flush).unwrap_or_else(|e| panic!("{e}"))
}

/// Err: a step of the fault-free history returned an error (an observation about the subject, not about
/// the harness: nothing was injected)
pub fn try_record(name: &str, steps: &[Step], cfg: &WlConfig, flush: Option<u32>) -> Result<History, String> {
    crate::hist::set_flush_after(flush);
    let sim = SimDirectory::new();
    let mut d = Driver::new(sim.clone(), cfg);
    d.create_index().unwrap();
    d.open_writer().unwrap();
    for (i, s) in steps.iter().enumerate() {
        let ok = d.step(*s);
        if !ok {
            crate::hist::set_flush_after(None);
            return Err(format!("step {i} {s:?} of the fault-free history {steps:?} failed: {:?}", d.calls.last().map(|c| c.err.clone())));
        }
    }
    sim.marker("call drop_writer");
    d.writer = None;
    d.reader = None;
    sim.marker("ret drop_writer ok");
    crate::hist::set_flush_after(None);
    if std::env::var("VERIF_DEBUG").is_ok() {
        eprintln!("final ids {:?} commit states {:?}", read_ids(&sim), d.model.history);
        for e in sim.log() {
            if let Op::Marker(m) = &e.op { eprintln!("  {m}"); } else if let Op::AtomicWrite { path, .. } = &e.op { eprintln!("     {}: atomic_write {path}", e.tid); }
        }
    }
    Ok(History { name: name.to_string(), cfg: cfg.clone(), flush_after: flush, steps: steps.to_vec(), log: sim.log(), commit_states: d.model.history.clone() })
}

/// (number of commits that had returned, is a commit in flight) at log position k (after the first k entries)
fn commit_progress(log: &[LogEntry], k: usize) -> (usize, bool) {
    let mut returned = 0;
    let mut in_flight = false;
    for e in &log[..k] {
        if let Op::Marker(m) = &e.op {
            if m.starts_with("call Commit") || m.starts_with("call PrepareWaitCommit") {
                in_flight = true;
            } else if m.starts_with("ret Commit") || m.starts_with("ret PrepareWaitCommit") {
                in_flight = false;
                if m.ends_with("ok") {
                    returned += 1;
                }
            }
        }
    }
    (returned, in_flight)
}

fn index_created_at(log: &[LogEntry]) -> usize {
    log.iter().position(|e| matches!(&e.op, Op::Marker(m) if m == "ret create_index ok")).map(|p| p + 1).unwrap_or(0)
}

fn image_hash(img: &BTreeMap<String, Vec<u8>>) -> u64 {
    hash_of(&img.iter().collect::<Vec<_>>())
}

/// Canonical forms of a crash image. Recovery reads meta.json and the files of the segments that meta.json
/// lists (`check_open` asserts through the operation log that it reads nothing else, and `Directory` has no
/// listing operation), so the verdict of `check_open` is a function of those contents alone (level 0).
/// The continuation additionally depends on .managed.json and on the names of the unreferenced files that a
/// new writer can collide with - delete files, whose names are derived from opstamps (level 1); the
/// directory-exact oracle of C10 also depends on the kind of every unreferenced file and on whether the
/// managed list knows it (level 2).
fn canonical_hash(img: &BTreeMap<String, Vec<u8>>, level: u8) -> u64 {
    let Some(meta) = img.get("meta.json") else { return image_hash(img) };
    let Ok(v) = serde_json::from_slice::<Value>(meta) else { return image_hash(img) };
    let segs: Vec<String> = v["segments"].as_array().map(|a| a.iter().filter_map(|s| s["segment_id"].as_str().map(|x| x.replace('-', ""))).collect()).unwrap_or_default();
    let managed: Vec<String> = img.get(".managed.json").and_then(|d| serde_json::from_slice::<Vec<String>>(d).ok()).unwrap_or_default();
    let mut classes: Vec<(String, bool)> = vec![];
    let mut parts: Vec<(&String, Option<&Vec<u8>>)> = vec![];
    for (name, data) in img {
        let referenced = name == "meta.json" || (level >= 1 && name == ".managed.json") || segs.iter().any(|s| name.starts_with(s.as_str()));
        if referenced {
            parts.push((name, Some(data)));
        } else if name.ends_with(".del") && level >= 1 {
            parts.push((name, None));
        } else if level >= 2 {
            // the collection treats unreferenced files uniformly: only their kind and whether the
            // managed list knows them can matter
            let listed = managed.iter().any(|m| m == name);
            classes.push((name.rsplit('.').next().unwrap_or("").to_string(), listed));
        }
    }
    classes.sort();
    hash_of(&(parts, classes, level))
}

/// cheap part of the oracle: open, content, referenced files complete and checksummed
fn check_open(img: &BTreeMap<String, Vec<u8>>) -> Result<BTreeSet<u64>, (String, String)> {
    let sim = SimDirectory::from_image(img);
    let index = Index::open(sim.clone()).map_err(|e| ("reopen_fails".to_string(), format!("Index::open: {e:?}")))?;
    let metas = index.searchable_segment_metas().map_err(|e| ("reopen_fails".to_string(), format!("{e:?}")))?;
    for m in &metas {
        for f in m.list_files() {
            let fs = f.to_string_lossy().to_string();
            if img.contains_key(&fs) {
                match index.directory().validate_checksum(Path::new(&fs)) {
                    Ok(true) => {}
                    Ok(false) => return Err(("referenced_file_fails_checksum".to_string(), format!("{fs} is referenced by the recovered meta.json but fails its checksum ({} bytes)", img[&fs].len()))),
                    Err(e) => return Err(("referenced_file_incomplete".to_string(), format!("{fs} is referenced by the recovered meta.json but cannot be validated: {e:?}"))),
                }
            }
        }
    }
    let ids = read_ids_of(&index).map_err(|e| {
        let rule = if e.contains("FileDoesNotExist") { "referenced_file_missing" } else { "recovered_index_unreadable" };
        (rule.to_string(), format!("the recovered index cannot be searched: {e}"))
    })?;
    // nothing outside the referenced files was read
    let referenced: BTreeSet<String> = metas.iter().flat_map(|m| m.list_files()).map(|p| p.to_string_lossy().to_string()).collect();
    for e in sim.log() {
        if let Op::OpenRead { path } | Op::AtomicRead { path } = &e.op {
            if e.ok && path != "meta.json" && path != ".managed.json" && !referenced.contains(path) {
                return Err(("unreferenced_file_read".to_string(), format!("recovery read {path}, which the recovered meta.json does not reference")));
            }
        }
    }
    Ok(ids)
}

/// expensive part: the recovered index accepts a writer, a commit and a collection, and ends up exact
fn check_continue(img: &BTreeMap<String, Vec<u8>>, ids: &BTreeSet<u64>, cfg: &WlConfig, prop: &str) -> Result<(), (String, String)> {
    let sim = SimDirectory::from_image(img);
    sim.set_log_enabled(false);
    let index = Index::open(sim.clone()).map_err(|e| ("reopen_fails".to_string(), format!("{e:?}")))?;
    let mut w: tantivy::IndexWriter = index.writer_with_options(writer_options(cfg)).map_err(|e| ("recovered_index_rejects_writer".to_string(), format!("{e:?}")))?;
    w.set_merge_policy(Box::new(tantivy::merge_policy::NoMergePolicy));
    let mut want = ids.clone();
    for round in 0..2 {
        // a delete-only commit re-uses the opstamps (hence the delete-file names) of an interrupted one
        let Some(victim) = want.iter().next().copied() else { break };
        if round == 1 && want.len() < 2 {
            break;
        }
        w.delete_term(tantivy::Term::from_field_u64(schema().get_field("id").unwrap(), victim));
        w.commit().map_err(|e| ("recovered_index_rejects_commit".to_string(), format!("delete-only commit {round}: {e:?}")))?;
        want.remove(&victim);
    }
    w.add_document(make_doc(&schema(), 100)).map_err(|e| ("recovered_index_rejects_writer".to_string(), format!("add: {e:?}")))?;
    w.commit().map_err(|e| ("recovered_index_rejects_commit".to_string(), format!("{e:?}")))?;
    w.garbage_collect_files().wait().map_err(|e| ("recovered_index_rejects_gc".to_string(), format!("{e:?}")))?;
    drop(w);
    want.insert(100);
    let got = read_ids(&sim).map_err(|e| ("recovered_index_unreadable".to_string(), e))?;
    if got != want {
        return Err(("content_after_recovery_commit_differs".to_string(), format!("{got:?} expected {want:?}")));
    }
    // directory exact: this part of the oracle belongs to C10 (crash family)
    if prop != "C10" {
        return Ok(());
    }
    directory_exact(&sim, "_after_recovery", "after one commit and one collection on the recovered index")
}

/// narrow signatures of the recorded findings
fn classify(rule: &str, h: &History, k: usize, choice: &ImageChoice, default_all: bool, fs: &FsAt) -> String {
    let _ = (h, k);
    // C10's recorded finding: register-before-create only holds when the file system keeps directory
    // operations in issue order; images in which a later creation survived an earlier .managed.json
    // replacement are classified apart, so that an orphan in an order-preserving image is still reported
    if (rule == "orphan_files_after_recovery" || rule == "managed_list_differs_after_recovery") && !fs.order_preserving(&choice.entries, default_all) {
        return format!("{rule}_reordered_directory_operations");
    }
    rule.to_string()
}

#[derive(Default)]
pub struct Seen {
    opened: BTreeMap<u64, Result<BTreeSet<u64>, (String, String)>>,
    judged: BTreeSet<u64>,
    continued: BTreeSet<u64>,
}

/// all crash images at prefix k: returns violations (rule, what, choice)
pub fn check_prefix(h: &History, k: usize, dev: usize, subsets: usize, seen: &mut Seen, st: &mut Stats, prop: &str) -> Vec<(String, String, Value)> {
    let mut out = vec![];
    let fs = state_at(&h.log, k);
    let (returned, in_flight) = commit_progress(&h.log, k);
    let mut admissible: Vec<&BTreeSet<u64>> = vec![&h.commit_states[returned.min(h.commit_states.len() - 1)]];
    if in_flight && returned + 1 < h.commit_states.len() {
        admissible.push(&h.commit_states[returned + 1]);
    }
    for (choice, default_all) in fs.images(dev, subsets) {
        let img = fs.image(&choice, default_all);
        st.count("images");
        let casej = json!({"prop":prop,"history":h.name,"steps":h.steps,"prefix":k,"choice":choice,"default_all":default_all});
        let key0 = canonical_hash(&img, 0);
        let opened = match seen.opened.get(&key0) {
            Some(r) => r.clone(),
            None => {
                st.count("distinct_images");
                let r = match catch_unwind(AssertUnwindSafe(|| check_open(&img))) {
                    Err(e) => Err(("recovery_panics".to_string(), format!("Index::open / search on the crash image panicked: {}", panic_message(e)))),
                    Ok(r) => r,
                };
                seen.opened.insert(key0, r.clone());
                r
            }
        };
        // the verdict depends on the image and on the admissible set
        if seen.judged.insert(hash_of(&(key0, returned, in_flight))) {
            st.eval();
            let extreme = choice.entries.is_empty() && choice.contents.is_empty();
            if !extreme || in_flight {
                st.count("nontrivial");
            }
            match &opened {
                Err((rule, what)) => out.push((classify(rule, h, k, &choice, default_all, &fs), what.clone(), casej.clone())),
                Ok(ids) => {
                    if !admissible.iter().any(|a| *a == ids) {
                        out.push(("recovered_state_not_a_commit".to_string(), format!("recovered documents {ids:?}; admissible commits at this point: {admissible:?}"), casej.clone()));
                    } else if admissible.len() == 2 {
                        st.count(if ids == admissible[1] { "recovered_newer_commit" } else { "recovered_older_commit" });
                    }
                }
            }
        }
        // the continuation oracle on each distinct canonical image
        if let Ok(ids) = &opened {
            if seen.continued.insert(canonical_hash(&img, if prop == "C10" { 2 } else { 1 })) {
                st.count("continuations");
                match catch_unwind(AssertUnwindSafe(|| check_continue(&img, ids, &h.cfg, prop))) {
                    Err(e) => out.push(("recovery_panics".to_string(), format!("writer / commit / collection on the recovered index panicked: {}", panic_message(e)), casej)),
                    Ok(Err((rule, what))) => out.push((classify(&rule, h, k, &choice, default_all, &fs), what, casej)),
                    Ok(Ok(())) => {}
                }
            }
        }
    }
    // a violation carries the crash image itself: the replay needs neither the history nor the enumeration
    for (_, _, casej) in out.iter_mut() {
        let choice: ImageChoice = serde_json::from_value(casej["choice"].clone()).unwrap();
        let img = fs.image(&choice, casej["default_all"].as_bool().unwrap());
        casej["image"] = json!(img.iter().map(|(n, d)| (n.clone(), hex(d))).collect::<BTreeMap<String, String>>());
        casej["admissible"] = json!(admissible);
        casej["cfg"] = json!(h.cfg);
    }
    let c10 = |r: &str| r.starts_with("orphan_files_after_recovery") || r.starts_with("managed_list_differs_after_recovery");
    for (r, _, casej) in out.iter_mut() {
        casej["reordered"] = json!(r.ends_with("_reordered_directory_operations"));
    }
    out.retain(|(r, _, _)| c10(r) == (prop == "C10"));
    out
}

fn logs_dir() -> String {
    let d = format!("{}/harness/target/c01-logs", verif_root());
    let _ = std::fs::create_dir_all(&d);
    d
}

fn describe(h: &History, k: usize) -> String {
    let last_ops: Vec<String> = h.log[..k].iter().rev().filter(|e| e.ok).take(4).map(|e| format!("{}:{}", e.tid, e.op.short())).collect::<Vec<_>>().into_iter().rev().collect();
    format!("history {} crash after log entry {k} of {} (.. {})", h.name, h.log.len(), last_ops.join(" ; "))
}

/// worker: vcheck worker C01 <history index> start end step <logfile>|<dev>|<subsets>
pub fn worker(family: &str, start: u64, end: u64, step: u64, arg: &str) {
    quiet_panics();
    tantivy::verif_hooks::set_handler(None);
    crate::iso::worker_guard(8 << 30, 30_000);
    let parts: Vec<&str> = arg.split('|').collect();
    let dev: usize = parts[1].parse().unwrap();
    let subsets: usize = parts[2].parse().unwrap();
    let prop = parts[3];
    if family == "crash-gen" {
        // one generated history per index: record it here, check every prefix
        let hs = gen_histories(parts[0].parse().unwrap());
        let cfg = WlConfig { workers: 1, dedicated_compressor: false };
        let mut st = Stats::default();
        let mut idx = start;
        while idx < end && (idx as usize) < hs.len() {
            crate::iso::set_current(idx);
            let h = match try_record(&format!("gen{idx}"), &hs[idx as usize], &cfg, None) {
                Ok(h) => h,
                Err(e) => {
                    if prop == "C01" {
                        crate::iso::emit(&json!({"t":"V","rule":"fault_free_history_step_fails","what":e,"idx":idx,"case":{"prop":prop,"record_failure":true,"steps":hs[idx as usize],"cfg":cfg,"flush":null}}).to_string());
                    }
                    crate::iso::idle();
                    idx += step;
                    continue;
                }
            };
            let mut seen = Seen::default();
            for k in index_created_at(&h.log)..=h.log.len() {
                for (rule, what, casej) in check_prefix(&h, k, dev, subsets, &mut seen, &mut st, prop) {
                    crate::iso::emit(&json!({"t":"V","rule":rule,"what":format!("{}: {what}", describe(&h, k)),"idx":idx,"case":casej}).to_string());
                }
            }
            st.count("generated_histories");
            st.count_n("generated_crash_points", (h.log.len() + 1 - index_created_at(&h.log)) as u64);
            crate::iso::idle();
            idx += step;
        }
        crate::iso::emit(&json!({"t":"S","evals":st.evaluations,"counters":st.counters}).to_string());
        crate::iso::emit("DONE");
        return;
    }
    let h: History = serde_json::from_str(&std::fs::read_to_string(parts[0]).unwrap()).unwrap();
    let first = index_created_at(&h.log);
    let mut st = Stats::default();
    let mut seen = Seen::default();
    let mut idx = start;
    while idx < end {
        let k = first + idx as usize;
        if k > h.log.len() {
            break;
        }
        crate::iso::set_current(idx);
        for (rule, what, casej) in check_prefix(&h, k, dev, subsets, &mut seen, &mut st, prop) {
            crate::iso::emit(&json!({"t":"V","rule":rule,"what":what,"idx":idx,"case":casej}).to_string());
        }
        crate::iso::idle();
        idx += step;
    }
    crate::iso::emit(&json!({"t":"S","evals":st.evaluations,"counters":st.counters}).to_string());
    crate::iso::emit("DONE");
}

fn hex(d: &[u8]) -> String {
    d.iter().map(|b| format!("{b:02x}")).collect()
}

fn unhex(s: &str) -> Vec<u8> {
    (0..s.len() / 2).map(|i| u8::from_str_radix(&s[2 * i..2 * i + 2], 16).unwrap_or(0)).collect()
}

/// replays the recorded crash image: open, admissibility, continuation - no history, no enumeration
pub fn replay(case: &Value) -> Vec<Violation> {
    quiet_panics();
    tantivy::verif_hooks::set_handler(None);
    let prop = case["prop"].as_str().unwrap_or("C01");
    if let Some(w) = case["conformance"].as_u64() {
        return crate::c01conf::run_one(w as usize).violations.into_iter().map(|(r, w)| Violation::new(&r, w, case.clone())).collect();
    }
    if case["record_failure"].as_bool().unwrap_or(false) {
        let steps: Vec<Step> = serde_json::from_value(case["steps"].clone()).unwrap_or_default();
        let cfg: WlConfig = serde_json::from_value(case["cfg"].clone()).unwrap_or(WlConfig { workers: 1, dedicated_compressor: false });
        let flush: Option<u32> = serde_json::from_value(case["flush"].clone()).unwrap_or(None);
        return match catch_unwind(AssertUnwindSafe(|| try_record("replay", &steps, &cfg, flush))) {
            Ok(Ok(_)) => vec![],
            Ok(Err(e)) => vec![Violation::new("fault_free_history_step_fails", e, case.clone())],
            Err(e) => vec![Violation::new("fault_free_history_panics", panic_message(e), case.clone())],
        };
    }
    let Some(imgv) = case["image"].as_object() else { return vec![] };
    let img: BTreeMap<String, Vec<u8>> = imgv.iter().map(|(n, d)| (n.clone(), unhex(d.as_str().unwrap_or("")))).collect();
    let admissible: Vec<BTreeSet<u64>> = serde_json::from_value(case["admissible"].clone()).unwrap_or_default();
    let cfg: WlConfig = serde_json::from_value(case["cfg"].clone()).unwrap_or(WlConfig { workers: 1, dedicated_compressor: false });
    let mut out: Vec<(String, String)> = vec![];
    match catch_unwind(AssertUnwindSafe(|| check_open(&img))) {
        Err(e) => out.push(("recovery_panics".to_string(), panic_message(e))),
        Ok(Err(rw)) => out.push(rw),
        Ok(Ok(ids)) => {
            if !admissible.iter().any(|a| *a == ids) {
                out.push(("recovered_state_not_a_commit".to_string(), format!("recovered documents {ids:?}; admissible {admissible:?}")));
            }
            match catch_unwind(AssertUnwindSafe(|| check_continue(&img, &ids, &cfg, prop))) {
                Err(e) => out.push(("recovery_panics".to_string(), panic_message(e))),
                Ok(Err(rw)) => out.push(rw),
                Ok(Ok(())) => {}
            }
        }
    }
    let c10 = |r: &str| r.starts_with("orphan_files_after_recovery") || r.starts_with("managed_list_differs_after_recovery");
    out.retain(|(r, _)| c10(r) == (prop == "C10"));
    let reordered = case["reordered"].as_bool().unwrap_or(false);
    out.into_iter().map(|(r, w)| Violation::new(&if reordered && c10(&r) { format!("{r}_reordered_directory_operations") } else { r }, w, case.clone())).collect()
}

pub struct FamilyOutcome {
    pub st: Stats,
    pub complete: bool,
    pub histories: Vec<Value>,
    pub dev: usize,
    pub subsets: usize,
}

/// the crash-image family, for C01 (recovery oracle) or C10 (directory-exact oracle after recovery)
pub fn crash_family(ctx: &Ctx, prop: &str) -> FamilyOutcome {
    let thorough = ctx.tier.is_thorough();
    // C10 re-uses the family with its own (directory) oracle at smaller bounds: recovery itself is C01's
    let (dev, subsets) = match (prop, thorough) {
        ("C10", false) => (1usize, 6usize),
        ("C10", true) => (2, 8),
        (_, false) => (2, 8),
        (_, true) => (3, 13),
    };
    let mut st = Stats::default();
    let mut complete = true;
    let mut hinfo = vec![];
    for (hi, (name, steps, cfg, flush)) in histories(true).into_iter().enumerate() {
        if prop == "C10" && !thorough && hi >= 4 {
            continue;
        }
        if ctx.out_of_time() {
            complete = false;
            continue;
        }
        let h = match catch_unwind(AssertUnwindSafe(|| try_record(&name, &steps, &cfg, flush))) {
            Ok(Ok(h)) => h,
            Ok(Err(e)) => {
                if prop == "C01" {
                    st.violation(Violation::new("fault_free_history_step_fails", format!("history {name}: {e}"), json!({"prop":prop,"record_failure":true,"steps":steps,"cfg":cfg,"flush":flush})));
                }
                continue;
            }
            Err(e) => {
                if prop == "C01" {
                    st.violation(Violation::new("fault_free_history_panics", format!("history {name} {steps:?}: {} [{}]", panic_message(e), last_panic()), json!({"prop":prop,"record_failure":true,"steps":steps,"cfg":cfg,"flush":flush})));
                } else {
                    st.errors.push(format!("recording history {name} failed: {}", panic_message(e)));
                }
                continue;
            }
        };
        let path = format!("{}/{}-{}.json", logs_dir(), prop, name);
        std::fs::write(&path, serde_json::to_string(&h).unwrap()).unwrap();
        let first = index_created_at(&h.log);
        let npref = (h.log.len() + 1 - first) as u64;
        let o = crate::iso::run_isolated(ctx, prop, &format!("crash-h{hi}"), npref, &format!("{path}|{dev}|{subsets}|{prop}"));
        complete &= o.complete;
        st.errors.extend(o.machinery_errors);
        hinfo.push(json!({"history":name,"steps":steps,"log_entries":h.log.len(),"crash_points":npref,"completed":o.completed,"commits":h.commit_states.len()-1}));
        for (kind, idx) in o.crashes {
            let k = first + idx as usize;
            st.violation(Violation::new(&format!("recovery_{kind}"), format!("{}: recovery did not return ({kind})", describe(&h, k)), json!({"prop":prop,"history":name,"prefix":k})));
        }
        for l in o.lines {
            let Ok(v) = serde_json::from_str::<Value>(&l) else { continue };
            if v["t"] == "V" {
                let k = first + v["idx"].as_u64().unwrap_or(0) as usize;
                st.violation(Violation::new(v["rule"].as_str().unwrap_or("?"), format!("{}, image {}: {}", describe(&h, k), v["case"]["choice"], v["what"].as_str().unwrap_or("")), v["case"].clone()));
            } else if v["t"] == "S" {
                st.evaluations += v["evals"].as_u64().unwrap_or(0);
                if let Some(c) = v["counters"].as_object() {
                    for (kx, x) in c {
                        st.count_n(kx, x.as_u64().unwrap_or(0));
                    }
                }
            }
        }
        st.sample(json!({"history":name,"steps":steps,"crash_point_example":describe(&h, first + (npref as usize) / 2)}));
        let _ = std::fs::remove_file(&path);
    }
    // generated histories
    let (glen, gdev, gsub) = match (prop, thorough) {
        ("C10", false) => (2usize, 1usize, 4usize),
        ("C10", true) => (3, 1, 6),
        (_, false) => (3, 1, 6),
        (_, true) => (5, 2, 9),
    };
    let total = gen_histories(glen).len() as u64;
    let o = crate::iso::run_isolated(ctx, prop, "crash-gen", total, &format!("{glen}|{gdev}|{gsub}|{prop}"));
    complete &= o.complete;
    st.errors.extend(o.machinery_errors);
    hinfo.push(json!({"history":"generated","max_steps":glen,"sequences":total,"completed":o.completed,"deviation_bound":gdev,"all_subsets_when_pending_paths_le":gsub}));
    for (kind, idx) in o.crashes {
        st.violation(Violation::new(&format!("recovery_{kind}"), format!("generated history {idx}: {:?}: recovery did not return ({kind})", gen_histories(glen).get(idx as usize)), json!({"prop":prop,"generated":idx,"len":glen})));
    }
    for l in o.lines {
        let Ok(v) = serde_json::from_str::<Value>(&l) else { continue };
        if v["t"] == "V" {
            st.violation(Violation::new(v["rule"].as_str().unwrap_or("?"), format!("steps {}, image {}: {}", v["case"]["steps"], v["case"]["choice"], v["what"].as_str().unwrap_or("")), v["case"].clone()));
        } else if v["t"] == "S" {
            st.evaluations += v["evals"].as_u64().unwrap_or(0);
            if let Some(c) = v["counters"].as_object() {
                for (kx, x) in c {
                    st.count_n(kx, x.as_u64().unwrap_or(0));
                }
            }
        }
    }
    FamilyOutcome { st, complete, histories: hinfo, dev, subsets }
}

pub fn run(ctx: &Ctx) -> Report {
    quiet_panics();
    let mut rep = Report::new("fault_enumeration");
    let FamilyOutcome { mut st, complete, histories: hinfo, dev, subsets } = crash_family(ctx, "C01");
    let conf = crate::c01conf::run_all(&mut st);
    rep.set("conformance", conf);
    rep.set("exhaustive", complete);
    rep.set("histories", Value::Array(hinfo));
    rep.set("deviation_bound", dev as u64);
    rep.set("all_subsets_when_pending_paths_le", subsets as u64);
    rep.set("rule", "for every history (first commits; delete files; merge + GC of the sources; rollback + writer restart; thorough: emptied segment, flush cut + uncommitted segments, compressor thread, two workers) recorded on SimDirectory, for EVERY prefix of its storage-operation log after index creation, every crash image within the deviation bound of the two extremes (no un-synced effect survives / all survive with complete contents): per directory entry any prefix of its pending create / replace / unlink operations, per not fully synced inode {durable bytes, half, all but one byte, complete}, plus all subsets of pending entries when few: the image re-opens, exposes exactly the documents of the last returned commit or of the commit in flight, every referenced file that exists validates its checksum, and (once per distinct image) a new writer deletes and commits (re-using the opstamps of an interrupted commit), adds, commits and collects, after which a fresh open shows exactly the expected documents; recovery reads no unreferenced file. Non-trivial: image differing from both extremes or lying inside a commit; distinct by canonical image (contents of meta.json and of the files it references; for the continuation also .managed.json and the names of unreferenced delete files)");
    let nontrivial = st.counters.get("nontrivial").copied().unwrap_or(0);
    for k in ["images", "distinct_images", "continuations", "recovered_newer_commit", "recovered_older_commit"] {
        if st.counters.get(k).copied().unwrap_or(0) == 0 {
            rep.machinery_errors.push(format!("vacuous: {k} = 0"));
        }
    }
    rep.merge_stats(&st);
    rep.set("distinct_nontrivial", nontrivial);
    rep.assume("storage model (DESIGN.md 2.3): file data is durable after terminate, atomic_write content is durable but its rename is pending until the next sync_directory, creations / unlinks are pending until sync_directory, operations on one entry are not reordered, locks die with the process");
    rep.violations = st.violations;
    rep.machinery_errors.extend(st.errors);
    rep
}
