//! Shared reference model for query semantics (C03, C06, C12, C13, C16): model documents, a harness-side
//! query AST with a naive evaluator, its lowering to real tantivy queries, corpus -> index builders.
use std::collections::BTreeMap;
use std::net::Ipv6Addr;
use std::ops::Bound;

use serde::{Deserialize, Serialize};
use tantivy::query::*;
use tantivy::schema::*;
use tantivy::{DateTime, Index, IndexSettings, IndexWriter, Searcher, TantivyDocument, Term};

#[derive(Clone, Debug, PartialEq, PartialOrd, Serialize, Deserialize)]
pub enum V {
    U(u64),
    I(i64),
    F(f64),
    D(i64),
    Ip(u128),
    S(String),
    B(bool),
}

#[derive(Clone, Debug, Serialize, Deserialize, PartialEq)]
pub struct ModelDoc {
    pub id: u64,
    /// tokens of `body` (already analysed: lower-case words)
    pub tokens: Vec<String>,
    /// values of the typed fields (multi-valued allowed)
    pub fields: BTreeMap<String, Vec<V>>,
}

pub const BASE_DATE: i64 = 1_000_000_000;

impl ModelDoc {
    /// document whose typed fields are a function of its text; the empty text has no typed value at all
    pub fn from_text(id: u64, text: &str) -> ModelDoc {
        let tokens: Vec<String> = text.split_whitespace().map(|s| s.to_string()).collect();
        let na = tokens.iter().filter(|t| *t == "a").count() as u64;
        let nb = tokens.iter().filter(|t| *t == "b").count() as u64;
        let mut fields = BTreeMap::new();
        if !tokens.is_empty() {
            for f in ["num", "num_idx"] {
                fields.insert(f.to_string(), vec![V::U(na)]);
            }
            fields.insert("inum".to_string(), vec![V::I(na as i64 - nb as i64)]);
            fields.insert("fnum".to_string(), vec![V::F(tokens.len() as f64 * 0.5)]);
            fields.insert("date".to_string(), vec![V::D(BASE_DATE + na as i64 * 3600)]);
            fields.insert("ip".to_string(), vec![V::Ip(nb as u128)]);
            fields.insert("flag".to_string(), vec![V::B(tokens[0] == "a")]);
            for f in ["k", "k_idx"] {
                fields.insert(f.to_string(), vec![V::S(tokens[0].clone())]);
            }
            // multi-valued: one value per "b" token (its position); documents without a "b" hold no value
            let bs: Vec<V> = tokens.iter().enumerate().filter(|(_, t)| *t == "b").map(|(p, _)| V::U(p as u64)).collect();
            if !bs.is_empty() {
                fields.insert("mnum".to_string(), bs);
            }
        }
        ModelDoc { id, tokens, fields }
    }
    pub fn text(&self) -> String {
        self.tokens.join(" ")
    }
}

pub struct Fields {
    pub schema: Schema,
    pub id: Field,
    pub body: Field,
}

pub fn schema() -> Fields {
    let mut sb = Schema::builder();
    let id = sb.add_u64_field("id", INDEXED | FAST | STORED);
    let body = sb.add_text_field("body", TEXT | STORED);
    sb.add_text_field("k", STRING | FAST | STORED);
    sb.add_text_field("k_idx", STRING);
    sb.add_u64_field("num", INDEXED | FAST);
    sb.add_u64_field("num_idx", INDEXED);
    sb.add_i64_field("inum", INDEXED | FAST);
    sb.add_f64_field("fnum", INDEXED | FAST);
    sb.add_date_field("date", INDEXED | FAST);
    sb.add_ip_addr_field("ip", INDEXED | FAST);
    sb.add_bool_field("flag", INDEXED | FAST);
    sb.add_u64_field("mnum", INDEXED | FAST);
    let schema = sb.build();
    Fields { schema, id, body }
}

pub fn to_tantivy_doc(f: &Fields, d: &ModelDoc) -> TantivyDocument {
    let mut t = TantivyDocument::default();
    t.add_u64(f.id, d.id);
    t.add_text(f.body, d.text());
    for (name, vals) in &d.fields {
        let field = f.schema.get_field(name).unwrap();
        for v in vals {
            match v {
                V::U(x) => t.add_u64(field, *x),
                V::I(x) => t.add_i64(field, *x),
                V::F(x) => t.add_f64(field, *x),
                V::D(x) => t.add_date(field, DateTime::from_timestamp_secs(*x)),
                V::Ip(x) => t.add_ip_addr(field, Ipv6Addr::from(*x)),
                V::S(x) => t.add_text(field, x),
                V::B(x) => t.add_bool(field, *x),
            }
        }
    }
    t
}

/// How a corpus is laid out in the index.
#[derive(Clone, Debug, Serialize, Deserialize, PartialEq)]
pub struct Layout {
    /// sizes of the segments, in document order (sum = number of documents)
    pub segments: Vec<usize>,
    /// indexes (into the corpus) of deleted documents
    pub deleted: Vec<usize>,
    /// merge everything into one segment at the end
    pub merge: bool,
}

pub struct Built {
    pub index: Index,
    pub searcher: Searcher,
    pub fields: Fields,
    /// alive model documents
    pub alive: Vec<ModelDoc>,
}

pub fn build_index(docs: &[ModelDoc], layout: &Layout) -> Built {
    let fields = schema();
    let index = Index::builder()
        .schema(fields.schema.clone())
        .settings(IndexSettings::default())
        .create_in_ram()
        .unwrap();
    let mut w: IndexWriter = index.writer_with_num_threads(1, 15_000_000).unwrap();
    w.set_merge_policy(Box::new(tantivy::merge_policy::NoMergePolicy));
    let mut k = 0;
    for &sz in &layout.segments {
        for _ in 0..sz {
            w.add_document(to_tantivy_doc(&fields, &docs[k])).unwrap();
            k += 1;
        }
        w.commit().unwrap();
    }
    assert_eq!(k, docs.len());
    if !layout.deleted.is_empty() {
        for &i in &layout.deleted {
            w.delete_term(Term::from_field_u64(fields.id, docs[i].id));
        }
        w.commit().unwrap();
    }
    if layout.merge {
        let ids = index.searchable_segment_ids().unwrap();
        if ids.len() > 1 {
            w.merge(&ids).wait().unwrap();
        }
    }
    w.wait_merging_threads().unwrap();
    let searcher = index.reader().unwrap().searcher();
    let alive: Vec<ModelDoc> = docs
        .iter()
        .enumerate()
        .filter(|(i, _)| !layout.deleted.contains(i))
        .map(|(_, d)| d.clone())
        .collect();
    Built { index, searcher, fields, alive }
}

// ---------------------------------------------------------------------------------------------
// query AST

#[derive(Clone, Copy, Debug, PartialEq, Eq, Hash, Serialize, Deserialize)]
pub enum Occ {
    Must,
    Should,
    MustNot,
}

#[derive(Clone, Debug, PartialEq, Serialize, Deserialize)]
pub enum Q {
    Term(String),
    /// term on a typed field
    TermV(String, V),
    Phrase(Vec<String>, u32),
    PhrasePrefix(Vec<String>),
    Range(String, Bound<V>, Bound<V>),
    TermSet(Vec<String>),
    Exists(String),
    All,
    Empty,
    Fuzzy { term: String, dist: u8, transpose: bool, prefix: bool },
    Regex(String),
    Boost(Box<Q>, f32),
    Const(Box<Q>, f32),
    DisMax(Vec<Q>, f32),
    Bool(Vec<(Occ, Q)>, Option<usize>),
}

fn in_bounds(v: &V, lo: &Bound<V>, hi: &Bound<V>) -> bool {
    let lo_ok = match lo {
        Bound::Unbounded => true,
        Bound::Included(b) => v >= b,
        Bound::Excluded(b) => v > b,
    };
    let hi_ok = match hi {
        Bound::Unbounded => true,
        Bound::Included(b) => v <= b,
        Bound::Excluded(b) => v < b,
    };
    lo_ok && hi_ok
}

pub fn levenshtein(a: &[char], b: &[char], transpose: bool) -> usize {
    // (restricted) Damerau-Levenshtein when transpose, plain Levenshtein otherwise
    let (n, m) = (a.len(), b.len());
    let mut d = vec![vec![0usize; m + 1]; n + 1];
    for (i, row) in d.iter_mut().enumerate() {
        row[0] = i;
    }
    for j in 0..=m {
        d[0][j] = j;
    }
    for i in 1..=n {
        for j in 1..=m {
            let cost = if a[i - 1] == b[j - 1] { 0 } else { 1 };
            d[i][j] = (d[i - 1][j] + 1).min(d[i][j - 1] + 1).min(d[i - 1][j - 1] + cost);
            if transpose && i > 1 && j > 1 && a[i - 1] == b[j - 2] && a[i - 2] == b[j - 1] {
                d[i][j] = d[i][j].min(d[i - 2][j - 2] + 1);
            }
        }
    }
    d[n][m]
}

/// three-valued result for queries whose documented meaning leaves a zone open (phrase slop)
#[derive(Clone, Copy, PartialEq, Eq, Debug)]
pub enum Tri {
    No,
    Yes,
    Maybe,
}

fn phrase_match(tokens: &[String], terms: &[String], slop: u32) -> Tri {
    let n = terms.len();
    if n == 0 {
        return Tri::No;
    }
    if n == 1 {
        return if tokens.contains(&terms[0]) { Tri::Yes } else { Tri::No };
    }
    // positions of each term
    let pos: Vec<Vec<i64>> = terms
        .iter()
        .map(|t| tokens.iter().enumerate().filter(|(_, x)| *x == t).map(|(i, _)| i as i64).collect())
        .collect();
    if pos.iter().any(|p| p.is_empty()) {
        return Tri::No;
    }
    // enumerate assignments (tiny): d_i = p_i - i
    let mut best_any: Option<i64> = None;
    let mut best_inorder: Option<i64> = None;
    let mut idx = vec![0usize; n];
    loop {
        let ps: Vec<i64> = (0..n).map(|i| pos[i][idx[i]]).collect();
        let distinct = {
            let mut s = ps.clone();
            s.sort();
            s.dedup();
            s.len() == n
        };
        {
            // upper set: any assignment within the slop, even one that re-uses a position for a repeated
            // term (the documentation only promises correct slop handling for unique terms);
            // lower set: strictly increasing, hence distinct, positions.
            let _ = distinct;
            let ds: Vec<i64> = ps.iter().enumerate().map(|(i, p)| p - i as i64).collect();
            let spread = ds.iter().max().unwrap() - ds.iter().min().unwrap();
            best_any = Some(best_any.map_or(spread, |b| b.min(spread)));
            if ps.windows(2).all(|w| w[0] < w[1]) {
                best_inorder = Some(best_inorder.map_or(spread, |b| b.min(spread)));
            }
        }
        // next assignment
        let mut k = 0;
        loop {
            if k == n {
                break;
            }
            idx[k] += 1;
            if idx[k] < pos[k].len() {
                break;
            }
            idx[k] = 0;
            k += 1;
        }
        if k == n {
            break;
        }
    }
    if best_inorder.map(|s| s <= slop as i64).unwrap_or(false) {
        Tri::Yes
    } else if best_any.map(|s| s <= slop as i64).unwrap_or(false) {
        Tri::Maybe
    } else {
        Tri::No
    }
}

fn tri_and(a: Tri, b: Tri) -> Tri {
    match (a, b) {
        (Tri::No, _) | (_, Tri::No) => Tri::No,
        (Tri::Yes, Tri::Yes) => Tri::Yes,
        _ => Tri::Maybe,
    }
}
fn tri_not(a: Tri) -> Tri {
    match a {
        Tri::No => Tri::Yes,
        Tri::Yes => Tri::No,
        Tri::Maybe => Tri::Maybe,
    }
}
fn tri_or(a: Tri, b: Tri) -> Tri {
    tri_not(tri_and(tri_not(a), tri_not(b)))
}

/// Naive evaluator: does `q` match `d`? (`Maybe` only arises from phrase slop with reordering.)
pub fn eval(q: &Q, d: &ModelDoc) -> Tri {
    let b = |x: bool| if x { Tri::Yes } else { Tri::No };
    match q {
        Q::Term(t) => b(d.tokens.contains(t)),
        Q::TermV(f, v) => b(d.fields.get(f).map(|vs| vs.contains(v)).unwrap_or(false)),
        Q::Phrase(terms, slop) => phrase_match(&d.tokens, terms, *slop),
        Q::PhrasePrefix(terms) => {
            // last element is a prefix
            let n = terms.len();
            if n == 0 {
                return Tri::No;
            }
            let ok = (0..d.tokens.len()).any(|s| {
                s + n <= d.tokens.len()
                    && (0..n - 1).all(|i| d.tokens[s + i] == terms[i])
                    && d.tokens[s + n - 1].starts_with(terms[n - 1].as_str())
            });
            b(ok)
        }
        Q::Range(f, lo, hi) => {
            if f == "body" {
                let ok = d.tokens.iter().any(|t| in_bounds(&V::S(t.clone()), lo, hi));
                return b(ok);
            }
            b(d.fields.get(f).map(|vs| vs.iter().any(|v| in_bounds(v, lo, hi))).unwrap_or(false))
        }
        Q::TermSet(ts) => b(ts.iter().any(|t| d.tokens.contains(t))),
        Q::Exists(f) => b(d.fields.get(f).map(|v| !v.is_empty()).unwrap_or(false)),
        Q::All => Tri::Yes,
        Q::Empty => Tri::No,
        Q::Fuzzy { term, dist, transpose, prefix } => {
            let q: Vec<char> = term.chars().collect();
            let ok = d.tokens.iter().any(|t| {
                let tc: Vec<char> = t.chars().collect();
                if *prefix {
                    (0..=tc.len()).any(|l| levenshtein(&q, &tc[..l], *transpose) <= *dist as usize)
                } else {
                    levenshtein(&q, &tc, *transpose) <= *dist as usize
                }
            });
            b(ok)
        }
        Q::Regex(p) => {
            // pattern alphabet where both dialects agree: literals, '.', '*', '?', '|', '(', ')'
            let ok = d.tokens.iter().any(|t| mini_regex_match(p, t));
            b(ok)
        }
        Q::Boost(q, _) | Q::Const(q, _) => eval(q, d),
        Q::DisMax(qs, _) => qs.iter().fold(Tri::No, |acc, q| tri_or(acc, eval(q, d))),
        Q::Bool(clauses, msm) => {
            let musts: Vec<Tri> = clauses.iter().filter(|c| c.0 == Occ::Must).map(|c| eval(&c.1, d)).collect();
            let shoulds: Vec<Tri> = clauses.iter().filter(|c| c.0 == Occ::Should).map(|c| eval(&c.1, d)).collect();
            let nots: Vec<Tri> = clauses.iter().filter(|c| c.0 == Occ::MustNot).map(|c| eval(&c.1, d)).collect();
            // default minimum_number_should_match as documented in BooleanQuery::new
            let msm = msm.unwrap_or({
                let mut m = 0;
                for (o, _) in clauses {
                    match o {
                        Occ::Should => m = 1,
                        _ => {
                            m = 0;
                            break;
                        }
                    }
                }
                m
            });
            let mut r = Tri::Yes;
            for m in &musts {
                r = tri_and(r, *m);
            }
            for n in &nots {
                r = tri_and(r, tri_not(*n));
            }
            // at least msm shoulds; and if there is no must clause at least one should
            let need = if musts.is_empty() { msm.max(1) } else { msm };
            let yes = shoulds.iter().filter(|s| **s == Tri::Yes).count();
            let maybe = shoulds.iter().filter(|s| **s == Tri::Maybe).count();
            let sh = if yes >= need {
                Tri::Yes
            } else if yes + maybe >= need {
                Tri::Maybe
            } else {
                Tri::No
            };
            tri_and(r, sh)
        }
    }
}

/// anchored match of a tiny regex dialect: literals, '.', postfix '*' '?' '+', alternation and groups
pub fn mini_regex_match(p: &str, s: &str) -> bool {
    fn parse_alt(p: &[char], i: &mut usize) -> Node {
        let mut alts = vec![parse_seq(p, i)];
        while *i < p.len() && p[*i] == '|' {
            *i += 1;
            alts.push(parse_seq(p, i));
        }
        if alts.len() == 1 {
            alts.pop().unwrap()
        } else {
            Node::Alt(alts)
        }
    }
    fn parse_seq(p: &[char], i: &mut usize) -> Node {
        let mut seq = vec![];
        while *i < p.len() && p[*i] != '|' && p[*i] != ')' {
            let mut atom = if p[*i] == '(' {
                *i += 1;
                let n = parse_alt(p, i);
                *i += 1; // ')'
                n
            } else if p[*i] == '.' {
                *i += 1;
                Node::Any
            } else {
                let c = p[*i];
                *i += 1;
                Node::Lit(c)
            };
            while *i < p.len() && matches!(p[*i], '*' | '?' | '+') {
                atom = match p[*i] {
                    '*' => Node::Star(Box::new(atom)),
                    '?' => Node::Alt(vec![atom, Node::Seq(vec![])]),
                    _ => Node::Seq(vec![atom.clone(), Node::Star(Box::new(atom))]),
                };
                *i += 1;
            }
            seq.push(atom);
        }
        Node::Seq(seq)
    }
    #[derive(Clone)]
    enum Node {
        Lit(char),
        Any,
        Seq(Vec<Node>),
        Alt(Vec<Node>),
        Star(Box<Node>),
    }
    // returns all end positions reachable from start
    fn ends(n: &Node, s: &[char], start: usize) -> Vec<usize> {
        match n {
            Node::Lit(c) => {
                if start < s.len() && s[start] == *c {
                    vec![start + 1]
                } else {
                    vec![]
                }
            }
            Node::Any => {
                if start < s.len() {
                    vec![start + 1]
                } else {
                    vec![]
                }
            }
            Node::Seq(v) => {
                let mut cur = vec![start];
                for x in v {
                    let mut nxt = vec![];
                    for &c in &cur {
                        nxt.extend(ends(x, s, c));
                    }
                    nxt.sort();
                    nxt.dedup();
                    cur = nxt;
                }
                cur
            }
            Node::Alt(v) => {
                let mut out = vec![];
                for x in v {
                    out.extend(ends(x, s, start));
                }
                out.sort();
                out.dedup();
                out
            }
            Node::Star(x) => {
                let mut all = vec![start];
                let mut frontier = vec![start];
                while !frontier.is_empty() {
                    let mut nxt = vec![];
                    for &c in &frontier {
                        for e in ends(x, s, c) {
                            if e > c && !all.contains(&e) {
                                all.push(e);
                                nxt.push(e);
                            }
                        }
                    }
                    frontier = nxt;
                }
                all
            }
        }
    }
    let pc: Vec<char> = p.chars().collect();
    let sc: Vec<char> = s.chars().collect();
    let mut i = 0;
    let n = parse_alt(&pc, &mut i);
    ends(&n, &sc, 0).contains(&sc.len())
}

fn term_of(f: &Fields, field: &str, v: &V) -> Term {
    let fld = f.schema.get_field(field).unwrap();
    match v {
        V::U(x) => Term::from_field_u64(fld, *x),
        V::I(x) => Term::from_field_i64(fld, *x),
        V::F(x) => Term::from_field_f64(fld, *x),
        V::D(x) => Term::from_field_date(fld, DateTime::from_timestamp_secs(*x)),
        V::Ip(x) => Term::from_field_ip_addr(fld, Ipv6Addr::from(*x)),
        V::S(x) => Term::from_field_text(fld, x),
        V::B(x) => Term::from_field_bool(fld, *x),
    }
}

fn lower_bound(f: &Fields, field: &str, b: &Bound<V>) -> Bound<Term> {
    match b {
        Bound::Unbounded => Bound::Unbounded,
        Bound::Included(v) => Bound::Included(term_of(f, field, v)),
        Bound::Excluded(v) => Bound::Excluded(term_of(f, field, v)),
    }
}

/// Lower the AST to a real tantivy query.
pub fn lower(q: &Q, f: &Fields) -> Box<dyn Query> {
    let body_term = |t: &str| Term::from_field_text(f.body, t);
    match q {
        Q::Term(t) => Box::new(TermQuery::new(body_term(t), IndexRecordOption::WithFreqsAndPositions)),
        Q::TermV(field, v) => Box::new(TermQuery::new(term_of(f, field, v), IndexRecordOption::Basic)),
        Q::Phrase(ts, slop) => {
            if ts.len() == 1 {
                return Box::new(TermQuery::new(body_term(&ts[0]), IndexRecordOption::WithFreqsAndPositions));
            }
            let mut p = PhraseQuery::new(ts.iter().map(|t| body_term(t)).collect());
            p.set_slop(*slop);
            Box::new(p)
        }
        Q::PhrasePrefix(ts) => Box::new(PhrasePrefixQuery::new(ts.iter().map(|t| body_term(t)).collect())),
        Q::Range(field, lo, hi) => {
            if matches!((lo, hi), (Bound::Unbounded, Bound::Unbounded)) {
                // RangeQuery needs one bound to know its field: callers never build this
                return Box::new(AllQuery);
            }
            Box::new(RangeQuery::new(lower_bound(f, field, lo), lower_bound(f, field, hi)))
        }
        Q::TermSet(ts) => Box::new(TermSetQuery::new(ts.iter().map(|t| body_term(t)))),
        Q::Exists(field) => Box::new(ExistsQuery::new(field.clone(), false)),
        Q::All => Box::new(AllQuery),
        Q::Empty => Box::new(EmptyQuery),
        Q::Fuzzy { term, dist, transpose, prefix } => {
            if *prefix {
                Box::new(FuzzyTermQuery::new_prefix(body_term(term), *dist, *transpose))
            } else {
                Box::new(FuzzyTermQuery::new(body_term(term), *dist, *transpose))
            }
        }
        Q::Regex(p) => Box::new(RegexQuery::from_pattern(p, f.body).unwrap()),
        Q::Boost(q, b) => Box::new(BoostQuery::new(lower(q, f), *b)),
        Q::Const(q, s) => Box::new(ConstScoreQuery::new(lower(q, f), *s)),
        Q::DisMax(qs, tie) => Box::new(DisjunctionMaxQuery::with_tie_breaker(qs.iter().map(|q| lower(q, f)).collect(), *tie)),
        Q::Bool(cl, msm) => {
            let subs: Vec<(Occur, Box<dyn Query>)> = cl
                .iter()
                .map(|(o, q)| {
                    (
                        match o {
                            Occ::Must => Occur::Must,
                            Occ::Should => Occur::Should,
                            Occ::MustNot => Occur::MustNot,
                        },
                        lower(q, f),
                    )
                })
                .collect();
            match msm {
                None => Box::new(BooleanQuery::new(subs)),
                Some(m) => Box::new(BooleanQuery::with_minimum_required_clauses(subs, *m)),
            }
        }
    }
}

/// compact rendering for messages
pub fn show(q: &Q) -> String {
    match q {
        Q::Term(t) => t.clone(),
        Q::TermV(f, v) => format!("{f}:{v:?}"),
        Q::Phrase(ts, s) => format!("\"{}\"~{s}", ts.join(" ")),
        Q::PhrasePrefix(ts) => format!("\"{}\"*", ts.join(" ")),
        Q::Range(f, lo, hi) => format!("{f}:[{lo:?} TO {hi:?}]"),
        Q::TermSet(ts) => format!("IN[{}]", ts.join(" ")),
        Q::Exists(f) => format!("{f}:*"),
        Q::All => "*".to_string(),
        Q::Empty => "<empty>".to_string(),
        Q::Fuzzy { term, dist, transpose, prefix } => format!("{term}~{dist}{}{}", if *transpose { "t" } else { "" }, if *prefix { "p" } else { "" }),
        Q::Regex(p) => format!("/{p}/"),
        Q::Boost(q, b) => format!("({})^{b}", show(q)),
        Q::Const(q, s) => format!("const({},{s})", show(q)),
        Q::DisMax(qs, t) => format!("dismax[{}]~{t}", qs.iter().map(show).collect::<Vec<_>>().join(" | ")),
        Q::Bool(cl, msm) => format!(
            "bool({}){}",
            cl.iter()
                .map(|(o, q)| format!(
                    "{}{}",
                    match o {
                        Occ::Must => "+",
                        Occ::Should => "?",
                        Occ::MustNot => "-",
                    },
                    show(q)
                ))
                .collect::<Vec<_>>()
                .join(" "),
            msm.map(|m| format!("msm{m}")).unwrap_or_default()
        ),
    }
}

/// ids of the documents a searcher returns for `q` through DocSetCollector
pub fn ids_of(searcher: &Searcher, addrs: impl IntoIterator<Item = tantivy::DocAddress>) -> Vec<u64> {
    let mut out = vec![];
    for a in addrs {
        let seg = searcher.segment_reader(a.segment_ord);
        let col = seg.fast_fields().u64("id").unwrap();
        out.push(col.first(a.doc_id).unwrap());
    }
    out.sort();
    out
}

// ---------------------------------------------------------------------------------------------
// corpora

/// all texts of <= maxlen tokens over the alphabet, shortest first
pub fn texts_over(alphabet: &[&str], maxlen: usize) -> Vec<String> {
    let mut out = vec![String::new()];
    let mut frontier: Vec<Vec<&str>> = vec![vec![]];
    for _ in 0..maxlen {
        let mut next = vec![];
        for t in &frontier {
            for a in alphabet {
                let mut u = t.clone();
                u.push(*a);
                next.push(u);
            }
        }
        for t in &next {
            out.push(t.join(" "));
        }
        frontier = next;
    }
    out
}

/// all multisets (as non-decreasing index sequences) of exactly `n` elements out of `m`
pub fn multisets(m: usize, n: usize) -> Vec<Vec<usize>> {
    fn rec(m: usize, n: usize, start: usize, cur: &mut Vec<usize>, out: &mut Vec<Vec<usize>>) {
        if cur.len() == n {
            out.push(cur.clone());
            return;
        }
        for i in start..m {
            cur.push(i);
            rec(m, n, i, cur, out);
            cur.pop();
        }
    }
    let mut out = vec![];
    rec(m, n, 0, &mut vec![], &mut out);
    out
}

/// all compositions of n into contiguous segment sizes (every contiguous split)
pub fn compositions(n: usize) -> Vec<Vec<usize>> {
    if n == 0 {
        return vec![vec![]];
    }
    let mut out = vec![];
    for first in 1..=n {
        for mut rest in compositions(n - first) {
            let mut v = vec![first];
            v.append(&mut rest);
            out.push(v);
        }
    }
    out
}
