//! C12 - relevance scores are BM25 over the searcher's statistics; explain agrees; scores do not depend
//! on the segmentation (without deletes), on the collector or on K.
use std::collections::BTreeMap;
use std::panic::{catch_unwind, AssertUnwindSafe};

use serde_json::{json, Value};
use tantivy::collector::TopDocs;
use tantivy::fieldnorm::FieldNormReader;
use tantivy::query::{Bm25StatisticsProvider, Query};
use tantivy::schema::*;
use tantivy::{DocAddress, Index, IndexWriter, Searcher, TantivyDocument, Term};

use crate::c06::AllScores;
use crate::common::*;
use crate::qmodel::*;

const K1: f64 = 1.2;
const B: f64 = 0.75;

fn t(s: &str) -> Q {
    Q::Term(s.to_string())
}

pub fn queries() -> Vec<(Q, usize)> {
    // (query, number of scoring clauses)
    let m = Occ::Must;
    let s = Occ::Should;
    let n = Occ::MustNot;
    let ph = |a: &str, b: &str| Q::Phrase(vec![a.into(), b.into()], 0);
    vec![
        (t("a"), 1),
        (t("b"), 1),
        (ph("a", "b"), 1),
        (ph("b", "a"), 1),
        (Q::Boost(Box::new(t("a")), 2.0), 1),
        (Q::Boost(Box::new(t("b")), 0.5), 1),
        (Q::Const(Box::new(t("a")), 2.5), 1),
        (Q::Boost(Box::new(ph("a", "b")), 2.0), 1),
        (Q::All, 1),
        (Q::Bool(vec![(s, t("a")), (s, t("b"))], None), 2),
        (Q::Bool(vec![(m, t("a")), (m, t("b"))], None), 2),
        (Q::Bool(vec![(m, t("a")), (s, t("b"))], None), 2),
        (Q::Bool(vec![(m, t("a")), (n, t("b"))], None), 1),
        (Q::Bool(vec![(s, t("a")), (s, t("b")), (s, ph("a", "b"))], None), 3),
        (Q::Bool(vec![(m, t("a")), (m, t("b")), (m, ph("a", "b"))], None), 3),
        (Q::Bool(vec![(s, Q::Boost(Box::new(t("a")), 2.0)), (s, t("b"))], None), 2),
        (Q::Boost(Box::new(Q::Bool(vec![(s, t("a")), (s, t("b"))], None)), 0.5), 2),
        (Q::Bool(vec![(m, Q::Const(Box::new(t("a")), 3.0)), (s, t("b"))], None), 2),
        (Q::DisMax(vec![t("a"), t("b")], 0.0), 2),
        (Q::DisMax(vec![t("a"), t("b")], 0.3), 2),
        (Q::DisMax(vec![t("a"), t("b")], 1.0), 2),
        (Q::DisMax(vec![t("a"), ph("a", "b")], 0.3), 2),
        (Q::Bool(vec![(m, Q::Bool(vec![(s, t("a")), (s, t("b"))], None)), (s, ph("b", "a"))], None), 3),
        (Q::Bool(vec![(s, t("a")), (s, t("b"))], Some(2)), 2),
        (Q::Bool(vec![(m, t("b")), (m, Q::Bool(vec![(m, t("a")), (s, t("b"))], None))], None), 3),
        (Q::Bool(vec![(m, Q::Bool(vec![(m, t("a")), (s, t("b"))], None)), (m, t("a"))], None), 3),
        (Q::Bool(vec![(m, t("a")), (m, Q::Bool(vec![(s, t("a")), (s, t("b"))], None))], None), 3),
        // boosts over const-score clauses, directly and through booleans / dis-max
        (Q::Boost(Box::new(Q::Const(Box::new(t("a")), 1.5)), 2.0), 1),
        (Q::Bool(vec![(s, Q::Boost(Box::new(Q::Const(Box::new(t("a")), 1.5)), 2.0)), (s, t("b"))], None), 2),
        (Q::Boost(Box::new(Q::Bool(vec![(m, Q::Const(Box::new(t("a")), 3.0)), (s, t("b"))], None)), 0.5), 2),
        (Q::Const(Box::new(Q::Boost(Box::new(t("a")), 2.0)), 1.5), 1),
        (Q::DisMax(vec![Q::Boost(Box::new(Q::Const(Box::new(t("a")), 1.5)), 2.0), t("b")], 0.3), 2),
        (Q::Boost(Box::new(Q::Boost(Box::new(Q::Const(Box::new(t("b")), 0.5)), 3.0)), 2.0), 1),
        // constant-score leaves under a boolean next to a scoring clause (explain / collector consistency)
        (Q::Bool(vec![(s, Q::Range("num".into(), std::ops::Bound::Included(V::U(1)), std::ops::Bound::Unbounded)), (s, t("b"))], None), 2),
        (Q::Bool(vec![(s, Q::Range("num_idx".into(), std::ops::Bound::Included(V::U(1)), std::ops::Bound::Unbounded)), (s, t("b"))], None), 2),
        (Q::Bool(vec![(s, Q::Exists("inum".into())), (s, t("b"))], None), 2),
        (Q::Bool(vec![(s, Q::Bool(vec![(m, t("a"))], None)), (s, t("b"))], None), 2),
        (Q::Bool(vec![(s, Q::Bool(vec![(m, t("a")), (m, t("b"))], None)), (s, t("b"))], None), 3),
        (Q::Bool(vec![(s, Q::TermSet(vec!["a".into()])), (s, t("b"))], None), 2),
        (Q::Bool(vec![(s, Q::Regex("a.*".into())), (s, t("b"))], None), 2),
        (Q::Bool(vec![(s, Q::Fuzzy { term: "a".into(), dist: 0, transpose: false, prefix: false }), (s, t("b"))], None), 2),
        // no closed-form model (phrase-prefix, slop): explain / collector / segmentation consistency only
        (Q::Bool(vec![(s, t("a")), (s, Q::PhrasePrefix(vec!["a".into(), "b".into()]))], None), 2),
        (Q::Bool(vec![(s, t("b")), (s, Q::Phrase(vec!["b".into(), "a".into()], 1))], None), 2),
        (Q::PhrasePrefix(vec!["b".into(), "a".into()]), 1),
    ]
}

pub struct Stats12 {
    n: f64,
    avgdl: f64,
    df: BTreeMap<String, f64>,
}

fn stats_of(b: &Built) -> Stats12 {
    let s = &b.searcher;
    let n = s.total_num_docs().unwrap() as f64;
    let tokens = s.total_num_tokens(b.fields.body).unwrap() as f64;
    let mut df = BTreeMap::new();
    for t in ["a", "b", "c", "r", "g", "u", "v", "q", "w", "h"] {
        df.insert(t.to_string(), s.doc_freq(&Term::from_field_text(b.fields.body, t)).unwrap() as f64);
    }
    Stats12 { n, avgdl: (tokens as f32 / n as f32) as f64, df }
}

// The formula is evaluated in f32 like the implementation documents it (idf = ln(1 + (N - n + 0.5) / (n + 0.5)),
// weight = idf * (1 + k1), tf / (tf + k1 * (1 - b + b * dl / avgdl))) and widened for the comparison:
// when n is close to N, 1 + x loses most of x's precision in f32, so an f64 evaluation would disagree by 1e-5.
fn idf(df: f64, n: f64) -> f64 {
    let x = ((n - df) as f32 + 0.5f32) / (df as f32 + 0.5f32);
    (1.0f32 + x).ln() as f64
}

fn tf_factor(tf: f64, dl: f64, avgdl: f64) -> f64 {
    let (tf, dl, avgdl) = (tf as f32, dl as f32, avgdl as f32);
    (tf / (tf + (K1 as f32) * (1.0f32 - B as f32 + B as f32 * dl / avgdl))) as f64
}

/// model score of `q` on `d` whose quantised length is `dl`; None when the document does not match
pub fn model_score(q: &Q, d: &ModelDoc, dl: f64, st: &Stats12) -> Option<f64> {
    if eval(q, d) != Tri::Yes {
        return None;
    }
    Some(match q {
        Q::Term(t) => {
            let tf = d.tokens.iter().filter(|x| *x == t).count() as f64;
            idf(st.df[t], st.n) * (1.0 + K1) * tf_factor(tf, dl, st.avgdl)
        }
        Q::Phrase(ts, 0) => {
            let n = ts.len();
            let cnt = (0..d.tokens.len()).filter(|&s| s + n <= d.tokens.len() && (0..n).all(|i| d.tokens[s + i] == ts[i])).count() as f64;
            let idf_sum: f64 = ts.iter().map(|t| idf(st.df[t], st.n)).sum();
            idf_sum * (1.0 + K1) * tf_factor(cnt, dl, st.avgdl)
        }
        Q::All => 1.0,
        Q::Boost(q, b) => *b as f64 * model_score(q, d, dl, st)?,
        Q::Const(_, s) => *s as f64,
        Q::DisMax(qs, tie) => {
            let scores: Vec<f64> = qs.iter().filter_map(|q| model_score(q, d, dl, st)).collect();
            let max = scores.iter().cloned().fold(f64::MIN, f64::max);
            let sum: f64 = scores.iter().sum();
            max + (*tie as f64) * (sum - max)
        }
        Q::Bool(cl, _) => cl.iter().filter(|c| c.0 != Occ::MustNot).filter_map(|c| model_score(&c.1, d, dl, st)).sum(),
        _ => return None,
    })
}

fn has_model(q: &Q) -> bool {
    match q {
        Q::Term(_) | Q::All => true,
        Q::Phrase(_, slop) => *slop == 0,
        Q::Boost(q, _) | Q::Const(q, _) => has_model(q),
        Q::DisMax(qs, _) => qs.iter().all(has_model),
        Q::Bool(cl, _) => cl.iter().all(|c| has_model(&c.1)),
        _ => false,
    }
}

/// narrow signature of the recorded finding: a dis-max whose disjuncts are all plain term queries takes the
/// block-WAND union path in TopDocs, which sums the clause scores
fn dismax_of_terms(q: &Q) -> bool {
    match q {
        Q::DisMax(qs, _) => qs.len() >= 2 && qs.iter().all(|x| matches!(x, Q::Term(_))),
        Q::Boost(q, _) | Q::Const(q, _) => dismax_of_terms(q),
        Q::Bool(cl, _) => cl.iter().any(|c| dismax_of_terms(&c.1)),
        _ => false,
    }
}

fn close(a: f64, b: f64) -> bool {
    (a - b).abs() <= 6e-6 * b.abs().max(a.abs()) + 1e-9
}

fn fieldnorm_of(s: &Searcher, field: Field, a: DocAddress) -> u32 {
    s.segment_reader(a.segment_ord).get_fieldnorms_reader(field).unwrap().fieldnorm(a.doc_id)
}

/// all checks of one query on one built index; returns per-id scores for the segmentation comparison
pub fn check_scores(b: &Built, q: &Q, clauses: usize) -> Result<BTreeMap<u64, f32>, (String, String)> {
    let st = stats_of(b);
    let tq: Box<dyn Query> = lower(q, &b.fields);
    let all = b.searcher.search(&tq, &AllScores).map_err(|e| ("search_error".to_string(), format!("{e:?}")))?;
    let mut by_id: BTreeMap<u64, f32> = BTreeMap::new();
    let model_docs: BTreeMap<u64, &ModelDoc> = b.alive.iter().map(|d| (d.id, d)).collect();
    for (score, addr) in &all {
        let id = ids_of(&b.searcher, [*addr])[0];
        by_id.insert(id, *score);
        let d = model_docs.get(&id).ok_or(("score_for_dead_doc".to_string(), format!("document id {id} is not alive")))?;
        let dl = fieldnorm_of(&b.searcher, b.fields.body, *addr) as f64;
        let modelled = has_model(q);
        let want = match model_score(q, d, dl, &st) {
            Some(w) => w,
            None if !modelled => *score as f64,
            None => return Err(("scored_but_not_matching".into(), format!("doc id {id} ({:?}) is scored {score} but the model says it does not match", d.text()))),
        };
        if modelled && !close(*score as f64, want) {
            return Err((
                "score_differs_from_bm25".into(),
                format!("doc id {id} ({:?}, quantised length {dl}): score {score}, BM25 over the searcher statistics (N={}, avgdl={:.4}, df={:?}) gives {want:.8}", d.text(), st.n, st.avgdl, st.df),
            ));
        }
        // explain
        let ex = tq.explain(&b.searcher, *addr).map_err(|e| ("explain_error".to_string(), format!("doc id {id}: {e:?}")))?;
        let exact = clauses == 1;
        if (exact && ex.value().to_bits() != score.to_bits()) || (!exact && !close(ex.value() as f64, *score as f64)) {
            return Err(("explain_differs".into(), format!("doc id {id} ({:?}): explain().value() = {}, collected score = {score}", d.text(), ex.value())));
        }
    }
    // every matching model doc got a score
    for d in &b.alive {
        if eval(q, d) == Tri::Yes && !by_id.contains_key(&d.id) {
            return Err(("matching_doc_not_scored".into(), format!("doc id {} ({:?}) matches but was not collected", d.id, d.text())));
        }
    }
    // same score whatever the collector / K
    let n = all.len();
    for k in [1usize, 2, n.max(1), n + 2] {
        let top = b.searcher.search(&tq, &TopDocs::with_limit(k).order_by_score()).map_err(|e| ("search_error".to_string(), format!("{e:?}")))?;
        for (s, a) in top {
            let id = ids_of(&b.searcher, [a])[0];
            let want = by_id.get(&id).copied().unwrap_or(f32::NAN);
            let ok = if clauses == 1 { s.to_bits() == want.to_bits() } else { close(s as f64, want as f64) };
            if !ok {
                let rule = if dismax_of_terms(q) { "score_depends_on_collector_dismax_of_terms" } else { "score_depends_on_collector" };
                return Err((rule.into(), format!("doc id {id}: TopDocs(K={k}) score {s}, exhaustive collector score {want}")));
            }
        }
    }
    Ok(by_id)
}

/// large-segment family: matches spread over several 4096-document windows of the buffered union, every
/// window boundary crossed by documents matching one, the other and both disjuncts, lengths varying
pub fn large_queries() -> Vec<(Q, usize)> {
    let s = Occ::Should;
    let m = Occ::Must;
    vec![
        (Q::DisMax(vec![t("a"), t("b")], 0.3), 2),
        (Q::DisMax(vec![t("a"), t("b")], 1.0), 2),
        (Q::DisMax(vec![t("a"), Q::Phrase(vec!["a".into(), "b".into()], 0)], 0.5), 2),
        (Q::DisMax(vec![Q::Boost(Box::new(t("a")), 2.0), Q::Const(Box::new(t("b")), 0.7)], 0.25), 2),
        (Q::Bool(vec![(s, t("a")), (s, t("b"))], None), 2),
        (Q::Bool(vec![(s, t("a")), (s, t("b")), (s, t("c"))], Some(2)), 3),
        (Q::Bool(vec![(m, t("c")), (s, Q::DisMax(vec![t("a"), t("b")], 0.3))], None), 3),
        (Q::Boost(Box::new(Q::DisMax(vec![t("a"), t("b")], 0.3)), 2.0), 2),
        (Q::Bool(vec![(s, Q::Const(Box::new(t("a")), 2.0)), (s, t("b"))], None), 2),
        // a union below a conjunction: it is seeked forward over whole 64-document buckets inside its
        // 4096-document window (the other clause is rare, or present in runs separated by gaps), and enters the
        // next window by advancing (no union document in the last ~96 positions of a window for u / v)
        (Q::Bool(vec![(m, t("r")), (m, Q::Bool(vec![(s, t("a")), (s, t("b"))], None))], None), 3),
        (Q::Bool(vec![(m, t("r")), (m, Q::Bool(vec![(s, t("u")), (s, t("v"))], None))], None), 3),
        (Q::Bool(vec![(m, t("g")), (m, Q::Bool(vec![(s, t("u")), (s, t("v"))], None))], None), 3),
        (Q::Bool(vec![(m, t("g")), (m, Q::Bool(vec![(s, t("u")), (s, t("v")), (s, t("b"))], None))], None), 4),
        (Q::Bool(vec![(m, t("r")), (m, Q::DisMax(vec![t("u"), t("v")], 0.3))], None), 3),
        (Q::Bool(vec![(m, t("g")), (s, Q::Bool(vec![(s, t("u")), (s, t("v"))], None))], None), 3),
        // ... and a rare union that drives the conjunction: it is advanced into the next window, and seeked
        // over buckets whenever the frequent clause is in one of its gaps
        (Q::Bool(vec![(m, t("g")), (m, Q::Bool(vec![(s, t("w")), (s, t("q"))], None))], None), 3),
        (Q::Bool(vec![(m, Q::Bool(vec![(s, t("w")), (s, t("q"))], None)), (m, t("g"))], None), 3),
        (Q::Bool(vec![(m, t("g")), (m, Q::DisMax(vec![t("w"), t("q")], 0.3))], None), 3),
        (Q::Bool(vec![(m, t("g")), (m, Q::Bool(vec![(s, t("w")), (s, t("r"))], None))], None), 3),
        // (short gaps: most window changes happen by advancing, not by a seek beyond the horizon)
        (Q::Bool(vec![(m, t("h")), (m, Q::Bool(vec![(s, t("w")), (s, t("q"))], None))], None), 3),
        (Q::Bool(vec![(m, t("h")), (m, Q::Bool(vec![(s, t("w")), (s, t("r"))], None))], None), 3),
        (Q::Bool(vec![(m, t("h")), (m, Q::DisMax(vec![t("w"), t("q")], 0.3))], None), 3),
    ]
}

pub fn large_docs(n: usize) -> Vec<ModelDoc> {
    (0..n)
        .map(|i| {
            let mut toks: Vec<&str> = vec![];
            if i % 2 == 0 || i % 4096 >= 4094 {
                toks.push("a");
            }
            if i % 3 == 0 || i % 4096 <= 1 {
                toks.push("b");
            }
            if i % 5 != 0 {
                toks.push("c");
            }
            for _ in 0..(i % 4) {
                toks.push("x");
            }
            if i % 7 == 0 {
                toks.push("a");
            }
            // a rare term, a term present in runs of 150 documents separated by gaps of 150, and two terms whose
            // union leaves the last ~96 positions of every 4096-document window empty
            if i % 97 == 0 {
                toks.push("r");
            }
            if i % 300 < 150 {
                toks.push("g");
            }
            // a rare term at the same offsets of every window (period 32), and one drifting against the windows
            if i % 32 == 5 {
                toks.push("w");
            }
            if i % 200 < 130 {
                toks.push("h");
            }
            if i % 48 == 7 {
                toks.push("q");
            }
            if i % 2 == 1 && i % 4096 < 4000 {
                toks.push("u");
            }
            if i % 3 == 1 && i % 4096 < 4000 {
                toks.push("v");
            }
            ModelDoc::from_text(i as u64 + 1, &toks.join(" "))
        })
        .collect()
}

pub fn check_large_family(n: usize, st: &mut Stats) -> Vec<Violation> {
    let docs = large_docs(n);
    let mut out = vec![];
    for layout in [Layout { segments: vec![n], deleted: vec![], merge: false }, Layout { segments: vec![n - 4100, 4100], deleted: vec![0, 4095, 4096, 4097, 8191], merge: false }] {
        let b = build_index(&docs, &layout);
        for (q, clauses) in large_queries() {
            st.eval();
            st.count("large_segment_queries");
            match catch_unwind(AssertUnwindSafe(|| check_scores(&b, &q, clauses))) {
                Ok(Ok(scores)) => st.count_n("large_segment_scores", scores.len() as u64),
                Ok(Err((rule, what))) => out.push(Violation::new(&rule, format!("large-segment family ({n} documents, segments {:?}) query {}: {what}", layout.segments, show(&q)), json!({"kind":"large","n":n,"layout":layout,"query":q,"clauses":clauses}))),
                Err(e) => out.push(Violation::new("score_panic", format!("large-segment family query {}: {} [{}]", show(&q), panic_message(e), last_panic()), json!({"kind":"large","n":n,"layout":layout,"query":q,"clauses":clauses}))),
            }
        }
    }
    out
}

/// cross-field family: conjunctions / unions over two text fields with different lengths and a field without
/// frequencies, on 450-document corpora: the score TopDocs reports for a document equals the score the
/// exhaustive collector computes for it and explain() agrees (the score must not depend on the collector)
pub fn check_cross_field_family(st: &mut Stats) -> Vec<Violation> {
    let mut out = vec![];
    for (ci, c) in [
        crate::c06::PruneCorpus { n: 450, hot_pos: 128, hot_term: 0, hot_tf: 6, layout: 0, period_shift: 0, perm: 0 },
        crate::c06::PruneCorpus { n: 450, hot_pos: 255, hot_term: 3, hot_tf: 6, layout: 1, period_shift: 1, perm: 3 },
    ]
    .iter()
    .enumerate()
    {
        let index = crate::c06::build_prune_index(c);
        let searcher = index.reader().unwrap().searcher();
        let nq = crate::c06::cross_field_queries(&index).len();
        for qi in 0..nq {
            st.eval();
            st.count("cross_field_queries");
            let (name, q, clauses) = crate::c06::cross_field_queries(&index).remove(qi);
            let case = json!({"kind":"cross_field","corpus":ci,"query_index":qi});
            // collector independence
            let q2 = crate::c06::cross_field_queries(&index).remove(qi).1;
            match catch_unwind(AssertUnwindSafe(|| crate::c06::check_prune_query(&index, q2, clauses, &[1, 3, 10, 500], 1))) {
                Ok(None) => {}
                Ok(Some((rule, what))) if rule.ends_with("_avgdl_shift") || rule.starts_with("topk_not_the_best") => {
                    let _ = what; // ranking matters belong to C06
                }
                Ok(Some((rule, what))) => out.push(Violation::new("score_depends_on_collector", format!("cross-field query {name} on corpus {ci}: {rule}: {what}"), case.clone())),
                Err(e) => out.push(Violation::new("score_panic", format!("cross-field query {name}: {}", panic_message(e)), case.clone())),
            }
            // explain agrees with the exhaustive score
            let all = match searcher.search(&q, &AllScores) {
                Ok(a) => a,
                Err(e) => {
                    out.push(Violation::new("search_error", format!("{e:?}"), case.clone()));
                    continue;
                }
            };
            for (score, addr) in all.iter().step_by(7) {
                st.count("cross_field_explains");
                match q.explain(&searcher, *addr) {
                    Ok(ex) if close(ex.value() as f64, *score as f64) => {}
                    Ok(ex) => {
                        out.push(Violation::new("explain_differs", format!("cross-field query {name} on corpus {ci}, document {addr:?}: explain().value() = {}, collected score = {score}", ex.value()), case.clone()));
                        break;
                    }
                    Err(e) => {
                        out.push(Violation::new("explain_error", format!("cross-field query {name}, document {addr:?}: {e:?}"), case.clone()));
                        break;
                    }
                }
            }
        }
    }
    out
}

fn tiny_docs(texts: &[String]) -> Vec<ModelDoc> {
    texts.iter().enumerate().map(|(i, t)| ModelDoc::from_text(i as u64 + 1, t)).collect()
}

/// field-length family: one document per length around every quantisation bucket boundary
pub fn check_fieldnorm_family(max_len: usize, st: &mut Stats) -> Option<Violation> {
    let table: Vec<u32> = (0..=255u8).map(FieldNormReader::id_to_fieldnorm).collect();
    let mut lens: Vec<usize> = vec![];
    for w in table.windows(2) {
        for l in [w[0] as usize, w[0] as usize + 1, (w[1] as usize).saturating_sub(1)] {
            if l >= 1 && l <= max_len {
                lens.push(l);
            }
        }
    }
    lens.sort();
    lens.dedup();
    let mut sb = Schema::builder();
    let id = sb.add_u64_field("id", INDEXED | FAST | STORED);
    let body = sb.add_text_field("body", TEXT);
    let index = Index::create_in_ram(sb.build());
    let mut w: IndexWriter = index.writer_with_num_threads(1, 200_000_000).unwrap();
    let tfs = [1usize, 2, 3, 40];
    let mut docs: Vec<(usize, usize)> = vec![];
    for &l in &lens {
        let tf = tfs[docs.len() % 4].min(l);
        let mut d = TantivyDocument::default();
        d.add_u64(id, docs.len() as u64);
        let mut text = String::with_capacity(l * 2);
        for _ in 0..tf {
            text.push_str("a ");
        }
        for _ in tf..l {
            text.push_str("x ");
        }
        d.add_text(body, text);
        w.add_document(d).unwrap();
        docs.push((l, tf));
    }
    w.commit().unwrap();
    let searcher = index.reader().unwrap().searcher();
    let n = searcher.total_num_docs().unwrap() as f64;
    let tokens = searcher.total_num_tokens(body).unwrap() as f64;
    let want_tokens: usize = docs.iter().map(|d| d.0).sum();
    let case = json!({"kind":"fieldnorm_family","max_len":max_len});
    // the same documents spread over three segments, and those three segments merged: bit-identical scores
    {
        let tq = tantivy::query::TermQuery::new(Term::from_field_text(body, "a"), IndexRecordOption::WithFreqs);
        let score_map = |s: &Searcher| -> BTreeMap<u64, f32> {
            s.search(&tq, &AllScores)
                .unwrap()
                .into_iter()
                .map(|(sc, a)| (s.segment_reader(a.segment_ord).fast_fields().u64("id").unwrap().first(a.doc_id).unwrap(), sc))
                .collect()
        };
        let one = score_map(&searcher);
        let index3 = Index::create_in_ram(index.schema());
        let mut w3: IndexWriter = index3.writer_with_num_threads(1, 200_000_000).unwrap();
        w3.set_merge_policy(Box::new(tantivy::merge_policy::NoMergePolicy));
        for (i, (l, tf)) in docs.iter().enumerate() {
            let mut d = TantivyDocument::default();
            d.add_u64(id, i as u64);
            d.add_text(body, format!("{}{}", "a ".repeat(*tf), "x ".repeat(l - tf)));
            w3.add_document(d).unwrap();
            if i == docs.len() / 3 || i == 2 * docs.len() / 3 {
                w3.commit().unwrap();
            }
        }
        w3.commit().unwrap();
        let three = score_map(&index3.reader().unwrap().searcher());
        st.count("segmentation_variants");
        if let Some((idd, a)) = one.iter().find(|(k, v)| three.get(k).map(|x| x.to_bits()) != Some(v.to_bits())) {
            return Some(Violation::new("score_depends_on_segmentation", format!("field-length family: document #{idd} ({} tokens) scores {a} in one segment but {:?} when the documents are spread over three segments", docs[*idd as usize].0, three.get(idd)), case));
        }
        let ids = index3.searchable_segment_ids().unwrap();
        w3.merge(&ids).wait().unwrap();
        w3.wait_merging_threads().unwrap();
        let merged = score_map(&index3.reader().unwrap().searcher());
        st.count("segmentation_variants");
        if let Some((idd, a)) = one.iter().find(|(k, v)| merged.get(k).map(|x| x.to_bits()) != Some(v.to_bits())) {
            return Some(Violation::new("score_depends_on_segmentation_after_merge", format!("field-length family: document #{idd} ({} tokens) scores {a} in one segment but {:?} after merging three segments", docs[*idd as usize].0, merged.get(idd)), case));
        }
    }
    if tokens as usize != want_tokens {
        return Some(Violation::new("total_num_tokens_differs", format!("total_num_tokens = {tokens}, documents hold {want_tokens} tokens"), case));
    }
    let avgdl = (tokens as f32 / n as f32) as f64;
    let df = searcher.doc_freq(&Term::from_field_text(body, "a")).unwrap() as f64;
    let tq = tantivy::query::TermQuery::new(Term::from_field_text(body, "a"), IndexRecordOption::WithFreqs);
    let all = searcher.search(&tq, &AllScores).unwrap();
    if all.len() != docs.len() {
        return Some(Violation::new("matching_doc_not_scored", format!("{} documents scored, {} contain the term", all.len(), docs.len()), case));
    }
    for (score, addr) in all {
        st.count("fieldnorm_boundary_docs");
        let i = searcher.segment_reader(addr.segment_ord).fast_fields().u64("id").unwrap().first(addr.doc_id).unwrap() as usize;
        let (l, tf) = docs[i];
        let dl = fieldnorm_of(&searcher, body, addr);
        // quantisation: the largest table value <= l
        let want_dl = *table.iter().filter(|v| **v as usize <= l).max().unwrap();
        if dl != want_dl {
            return Some(Violation::new("fieldnorm_quantisation", format!("document of {l} tokens has quantised length {dl}, the bucket table says {want_dl}"), case));
        }
        let want = idf(df, n) * (1.0 + K1) * tf_factor(tf as f64, dl as f64, avgdl);
        if !close(score as f64, want) {
            return Some(Violation::new(
                "score_differs_from_bm25",
                format!("document of {l} tokens (quantised {dl}) with tf {tf}: score {score}, BM25 gives {want:.8} (N={n}, avgdl={avgdl:.3}, df={df})"),
                case,
            ));
        }
        let ex = tq.explain(&searcher, addr).unwrap();
        if ex.value().to_bits() != score.to_bits() {
            return Some(Violation::new("explain_differs", format!("document of {l} tokens: explain {} vs score {score}", ex.value()), case));
        }
    }
    None
}

pub fn replay(case: &Value) -> Vec<Violation> {
    quiet_panics();
    if case["kind"] == "cross_field" {
        let mut st = Stats::default();
        return check_cross_field_family(&mut st).into_iter().filter(|v| v.case["corpus"] == case["corpus"] && v.case["query_index"] == case["query_index"]).collect();
    }
    if case["kind"] == "fieldnorm_family" {
        let mut st = Stats::default();
        return check_fieldnorm_family(case["max_len"].as_u64().unwrap_or(300) as usize, &mut st).into_iter().collect();
    }
    let texts: Vec<String> = serde_json::from_value(case["texts"].clone()).unwrap_or_default();
    let q: Q = match serde_json::from_value(case["query"].clone()) {
        Ok(q) => q,
        Err(_) => return vec![],
    };
    let clauses = case["clauses"].as_u64().unwrap_or(1) as usize;
    if case["kind"] == "large" {
        let n = case["n"].as_u64().unwrap_or(9000) as usize;
        let layout: Layout = serde_json::from_value(case["layout"].clone()).unwrap();
        let b = build_index(&large_docs(n), &layout);
        return match catch_unwind(AssertUnwindSafe(|| check_scores(&b, &q, clauses))) {
            Ok(Ok(_)) => vec![],
            Ok(Err((rule, what))) => vec![Violation::new(&rule, what, case.clone())],
            Err(e) => vec![Violation::new("score_panic", panic_message(e), case.clone())],
        };
    }
    let docs = tiny_docs(&texts);
    if case["kind"] == "segmentation" {
        return check_corpus(&texts, Some(&q)).into_iter().filter(|v| v.rule.starts_with("score_depends_on_segmentation")).collect();
    }
    let layout: Layout = serde_json::from_value(case["layout"].clone()).unwrap();
    let b = build_index(&docs, &layout);
    match catch_unwind(AssertUnwindSafe(|| check_scores(&b, &q, clauses))) {
        Ok(Ok(_)) => vec![],
        Ok(Err((rule, what))) => vec![Violation::new(&rule, what, case.clone())],
        Err(e) => vec![Violation::new("score_panic", panic_message(e), case.clone())],
    }
}

/// all layouts of one corpus; segmentation invariance without deletes
fn check_corpus(texts: &[String], only: Option<&Q>) -> Vec<Violation> {
    let mut out = vec![];
    let docs = tiny_docs(texts);
    let nd = docs.len();
    let qs = queries();
    let mut reference: BTreeMap<usize, BTreeMap<u64, f32>> = BTreeMap::new();
    for segs in if nd == 0 { vec![vec![]] } else { compositions(nd) } {
        for delmask in 0..(1u32 << nd) {
            let deleted: Vec<usize> = (0..nd).filter(|i| delmask >> i & 1 == 1).collect();
            let layout = Layout { segments: segs.clone(), deleted: deleted.clone(), merge: false };
            let b = build_index(&docs, &layout);
            for (qi, (q, clauses)) in qs.iter().enumerate() {
                if let Some(o) = only {
                    if o != q {
                        continue;
                    }
                }
                let r = catch_unwind(AssertUnwindSafe(|| check_scores(&b, q, *clauses)));
                match r {
                    Ok(Ok(scores)) => {
                        if deleted.is_empty() {
                            if let Some(refscores) = reference.get(&qi) {
                                for (id, s) in &scores {
                                    let w = refscores.get(id).copied().unwrap_or(f32::NAN);
                                    let ok = if *clauses == 1 { s.to_bits() == w.to_bits() } else { close(*s as f64, w as f64) };
                                    if !ok {
                                        out.push(Violation::new(
                                            "score_depends_on_segmentation",
                                            format!("docs {texts:?} query {}: doc id {id} scores {s} with segments {segs:?} but {w} in one segment", show(q)),
                                            json!({"kind":"segmentation","texts":texts,"query":q,"clauses":clauses}),
                                        ));
                                        break;
                                    }
                                }
                            } else {
                                reference.insert(qi, scores);
                            }
                        }
                    }
                    Ok(Err((rule, what))) => out.push(Violation::new(
                        &rule,
                        format!("docs {texts:?} segments {segs:?} deleted {deleted:?} query {}: {what}", show(q)),
                        json!({"kind":"tiny","texts":texts,"layout":layout,"query":q,"clauses":clauses}),
                    )),
                    Err(e) => out.push(Violation::new(
                        "score_panic",
                        format!("docs {texts:?} segments {segs:?} deleted {deleted:?} query {}: panic {} [{}]", show(q), panic_message(e), last_panic()),
                        json!({"kind":"tiny","texts":texts,"layout":layout,"query":q,"clauses":clauses}),
                    )),
                }
            }
        }
    }
    out
}

pub fn run(ctx: &Ctx) -> Report {
    quiet_panics();
    let mut rep = Report::new("model_checking");
    let thorough = ctx.tier.is_thorough();
    let texts = texts_over(&["a", "b"], 3);
    let maxdocs = if thorough { 3 } else { 2 };
    let mut corpora: Vec<Vec<String>> = vec![];
    for nd in 1..=maxdocs {
        for ms in multisets(texts.len(), nd) {
            corpora.push(ms.iter().map(|&i| texts[i].clone()).collect());
        }
    }
    // a few 4-document corpora with three segments and repeated texts (thorough)
    let nq = queries().len();
    let (mut st, done) = par_for(ctx, corpora.len(), |i, st| {
        let c = &corpora[i];
        let nd = c.len();
        let layouts = compositions(nd).len() * (1usize << nd);
        st.evaluations += (layouts * nq) as u64;
        st.count_n("indexes", layouts as u64);
        if c.iter().any(|t| !t.is_empty()) {
            st.nontrivial(&("corpus", c));
        }
        for v in check_corpus(c, None) {
            st.violation(v);
        }
        if i % 29 == 0 {
            st.sample(json!({"kind":"tiny","texts":c,"layouts":layouts,"queries":nq}));
        }
    });
    // field-length family
    let max_len = if thorough { 1 << 20 } else { 3000 };
    let mut st2 = Stats::default();
    st2.eval();
    match catch_unwind(AssertUnwindSafe(|| check_fieldnorm_family(max_len, &mut st2))) {
        Ok(Some(v)) => st2.violation(v),
        Ok(None) => {}
        Err(e) => st2.violation(Violation::new("score_panic", format!("fieldnorm family: {}", panic_message(e)), json!({"kind":"fieldnorm_family","max_len":max_len}))),
    }
    st2.nontrivial(&("fieldnorm_family", max_len));
    // large-segment family
    let n_large = if thorough { 20_000 } else { 9_000 };
    match catch_unwind(AssertUnwindSafe(|| check_large_family(n_large, &mut st2))) {
        Ok(vs) => {
            for v in vs {
                st2.violation(v);
            }
        }
        Err(e) => st2.errors.push(format!("large-segment family: {}", panic_message(e))),
    }
    st2.nontrivial(&("large_family", n_large));
    match catch_unwind(AssertUnwindSafe(|| check_cross_field_family(&mut st2))) {
        Ok(vs) => {
            for v in vs {
                st2.violation(v);
            }
        }
        Err(e) => st2.errors.push(format!("cross-field family: {}", panic_message(e))),
    }
    st.merge(st2);
    rep.set("exhaustive", done == corpora.len());
    rep.set("corpora", corpora.len() as u64);
    rep.set("queries", nq as u64);
    rep.set("fieldnorm_family_max_len", max_len as u64);
    rep.set("rule", "every multiset of 1..2 (thorough 3) documents over texts of <= 3 tokens over {a,b} x every contiguous segmentation x every delete subset x 24 scoring queries (term, phrase, boolean should / must / must-not, boost, const-score, dis-max with tie breakers, nestings): every collected score vs an independent BM25 evaluation from the searcher statistics, explain().value(), TopDocs for several K, and (without deletes) bit-identical single-clause scores across all segmentations; field-length family: one document per length at / around every quantisation bucket boundary up to the bound; large-segment family: 9000 (thorough 20000) documents in one segment and in two segments with deletes at the 4096-document window boundaries x 22 union / dis-max / minimum-should-match queries (13 of them unions below a conjunction whose other clause is rare or comes in runs, so that the union is seeked over whole buckets inside its window), every document's score, explain and TopDocs; cross-field family: 7 unions / conjunctions / required-optional queries over two text fields with different lengths and a field without frequencies on two 450-document corpora: TopDocs scores for K in {1,3,10,500} equal the exhaustive collector's and explain agrees. Non-trivial: corpus with a non-empty document; distinct by corpus");
    if st.counters.get("large_segment_scores").copied().unwrap_or(0) < 10_000 {
        rep.machinery_errors.push("vacuous: large-segment family scored too few documents".into());
    }
    if st.counters.get("fieldnorm_boundary_docs").copied().unwrap_or(0) < 50 {
        rep.machinery_errors.push("vacuous: field-length family too small".into());
    }
    rep.set("states", st.counters.get("indexes").copied().unwrap_or(1));
    rep.set("transitions", st.evaluations);
    rep.set("traces_validated_against_impl", st.evaluations);
    rep.assume("the independent evaluation is done in f64 and compared with relative tolerance 6e-6; single-clause equalities (collector / explain / segmentation) are bit-exact");
    rep.assume("N counts deleted documents (sum of max_doc) and document frequencies include deleted documents, as documented");
    rep.merge_stats(&st);
    rep.violations = st.violations;
    rep.machinery_errors.extend(st.errors);
    rep
}
