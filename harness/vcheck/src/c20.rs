//! C20 - checksum validation detects any corruption of a segment file.
//! (a) every write pattern through the managed directory's footer proxy over an underlying writer that
//!     accepts full / 1-byte / half writes; (b) every single-bit flip, byte substitution, truncation and
//!     small extension of every segment file of a family of small indexes; (c) every footer version.
use std::collections::BTreeMap;
use std::io::Write;
use std::panic::{catch_unwind, AssertUnwindSafe};
use std::path::Path;

use serde_json::{json, Value};
use tantivy::directory::{Directory, ManagedDirectory, TerminatingWrite};
use tantivy::schema::*;
use tantivy::{Index, IndexSettings, IndexWriter, TantivyDocument, Term};

use crate::common::*;
use crate::simdir::{ShortWrite, SimDirectory};

const SIZES: [usize; 6] = [0, 1, 7, 8191, 8192, 8193];

fn pattern_bytes(len: usize, salt: usize) -> Vec<u8> {
    (0..len).map(|i| ((i * 31 + salt * 17 + 7) % 251) as u8).collect()
}

fn short_mode(s: &str) -> ShortWrite {
    match s {
        "one" => ShortWrite::OneByte,
        "half" => ShortWrite::Half,
        _ => ShortWrite::Full,
    }
}

/// (a) one write pattern
pub fn check_write_pattern(sizes: &[usize], flush_between: bool, short: &str) -> Option<Violation> {
    let case = json!({"kind":"write_pattern","sizes":sizes,"flush_between":flush_between,"short":short});
    let r = catch_unwind(AssertUnwindSafe(|| -> Result<(), (String, String)> {
        let sim = SimDirectory::new();
        sim.set_log_enabled(false);
        let managed = ManagedDirectory::wrap(Box::new(sim.clone())).map_err(|e| ("machinery".to_string(), format!("{e:?}")))?;
        sim.set_short_write(short_mode(short));
        let path = Path::new("seg.test");
        let mut w = managed
            .open_write(path)
            .map_err(|e| ("write_failed".to_string(), format!("{e:?}")))?;
        let mut expect: Vec<u8> = vec![];
        for (k, &sz) in sizes.iter().enumerate() {
            let data = pattern_bytes(sz, k);
            w.write_all(&data).map_err(|e| ("write_failed".to_string(), format!("{e:?}")))?;
            expect.extend_from_slice(&data);
            if flush_between {
                w.flush().map_err(|e| ("write_failed".to_string(), format!("{e:?}")))?;
            }
        }
        w.terminate().map_err(|e| ("write_failed".to_string(), format!("{e:?}")))?;
        sim.set_short_write(ShortWrite::Full);
        let got = managed
            .open_read(path)
            .map_err(|e| ("readback_failed".to_string(), format!("open_read: {e:?}")))?
            .read_bytes()
            .map_err(|e| ("readback_failed".to_string(), format!("read_bytes: {e:?}")))?;
        if got.as_slice() != expect.as_slice() {
            return Err((
                "readback_differs".to_string(),
                format!("read back {} bytes, wrote {}", got.len(), expect.len()),
            ));
        }
        // the other read entry point of the Directory trait returns the same content
        let h = managed.get_file_handle(path).map_err(|e| ("readback_failed".to_string(), format!("get_file_handle: {e:?}")))?;
        let hb = h.read_bytes(0..h.len()).map_err(|e| ("readback_failed".to_string(), format!("file handle read: {e:?}")))?;
        if hb.as_slice() != expect.as_slice() {
            return Err(("readback_differs".to_string(), format!("get_file_handle reads back {} bytes, {} were written", hb.len(), expect.len())));
        }
        match managed.validate_checksum(path) {
            Ok(true) => Ok(()),
            Ok(false) => Err((
                "checksum_false_on_intact_file".to_string(),
                "validate_checksum = false on a file that was just written".to_string(),
            )),
            Err(e) => Err(("checksum_error_on_intact_file".to_string(), format!("{e:?}"))),
        }
    }));
    match r {
        Ok(Ok(())) => None,
        Ok(Err((rule, what))) => Some(Violation::new(
            &rule,
            format!("writes {sizes:?} flush_between={flush_between} underlying accepts {short}: {what}"),
            case,
        )),
        Err(e) => Some(Violation::new(
            "write_pattern_panic",
            format!("writes {sizes:?} flush={flush_between} short={short}: panic {}", panic_message(e)),
            case,
        )),
    }
}

/// the family of small indexes (deterministic)
pub fn build_index(variant: usize) -> (SimDirectory, Index) {
    let sim = SimDirectory::new();
    sim.set_log_enabled(false);
    let mut sb = Schema::builder();
    let text_opts = match variant % 3 {
        0 => TEXT | STORED,
        1 => STRING | STORED | FAST,
        _ => TextOptions::default().set_indexing_options(
            TextFieldIndexing::default()
                .set_tokenizer("default")
                .set_index_option(IndexRecordOption::WithFreqs),
        ),
    };
    let body = sb.add_text_field("body", text_opts);
    let num = sb.add_u64_field("num", INDEXED | FAST | STORED);
    let _j = sb.add_json_field("j", TEXT | STORED);
    let schema = sb.build();
    let settings = IndexSettings {
        docstore_blocksize: if variant % 2 == 0 { 16384 } else { 32 },
        ..IndexSettings::default()
    };
    let index = Index::create(sim.clone(), schema, settings).unwrap();
    {
        let mut w: IndexWriter = index.writer_with_num_threads(1, 20_000_000).unwrap();
        let ndocs = [1usize, 3, 40, 200][variant % 4] * (1 + 9 * (variant / 12));
        let words = ["a", "b", "c", "hello", "world"];
        for i in 0..ndocs {
            let mut d = TantivyDocument::default();
            let t = format!("{} {} {}", words[i % 5], words[(i / 5) % 5], words[(i * 7) % 5]);
            d.add_text(body, &t);
            d.add_u64(num, (i * i % 97) as u64);
            w.add_document(d).unwrap();
            if variant % 12 >= 4 && i == ndocs / 2 {
                w.commit().unwrap();
            }
        }
        w.commit().unwrap();
        if variant % 4 >= 1 {
            // produce a .del file
            w.delete_term(Term::from_field_u64(num, 1));
            w.commit().unwrap();
        }
        w.wait_merging_threads().unwrap();
    }
    (sim, index)
}

fn segment_files(index: &Index, sim: &SimDirectory) -> Vec<String> {
    let mut v: Vec<String> = index
        .searchable_segment_metas()
        .unwrap()
        .iter()
        .flat_map(|m| m.list_files())
        .map(|p| p.to_string_lossy().to_string())
        .filter(|p| sim.read_file(p).is_some())
        .collect();
    v.sort();
    v.dedup();
    v
}

fn footer_len(file: &[u8]) -> usize {
    // footer = json + len(u32 le) + magic(u32 le)
    let n = file.len();
    let l = u32::from_le_bytes(file[n - 8..n - 4].try_into().unwrap()) as usize;
    l + 8
}

#[derive(Clone, Debug)]
pub enum Damage {
    BitFlip { pos: usize, bit: u8 },
    Subst { pos: usize, how: u8 }, // 0 -> 0x00, 1 -> 0xff, 2 -> +1
    Truncate { len: usize },
    ExtendEnd { n: usize },
    ExtendMiddle { pos: usize, n: usize },
    /// bytes [from, to) of the body removed, the footer kept (a body truncated or shortened under its footer)
    RemoveBody { from: usize, to: usize },
}

impl Damage {
    fn apply(&self, orig: &[u8]) -> Option<Vec<u8>> {
        let mut v = orig.to_vec();
        match *self {
            Damage::BitFlip { pos, bit } => v[pos] ^= 1 << bit,
            Damage::Subst { pos, how } => {
                let nv = match how {
                    0 => 0x00,
                    1 => 0xff,
                    _ => v[pos].wrapping_add(1),
                };
                if nv == v[pos] {
                    return None;
                }
                v[pos] = nv;
            }
            Damage::Truncate { len } => v.truncate(len),
            Damage::ExtendEnd { n } => v.extend(std::iter::repeat_n(0x5a, n)),
            Damage::ExtendMiddle { pos, n } => {
                let tail = v.split_off(pos);
                v.extend(std::iter::repeat_n(0x5a, n));
                v.extend(tail);
            }
            Damage::RemoveBody { from, to } => {
                v.drain(from..to);
            }
        }
        Some(v)
    }
    fn to_json(&self) -> Value {
        match *self {
            Damage::BitFlip { pos, bit } => json!({"d":"bitflip","pos":pos,"bit":bit}),
            Damage::Subst { pos, how } => json!({"d":"subst","pos":pos,"how":how}),
            Damage::Truncate { len } => json!({"d":"truncate","len":len}),
            Damage::ExtendEnd { n } => json!({"d":"extend_end","n":n}),
            Damage::ExtendMiddle { pos, n } => json!({"d":"extend_middle","pos":pos,"n":n}),
            Damage::RemoveBody { from, to } => json!({"d":"remove_body","from":from,"to":to}),
        }
    }
    fn from_json(v: &Value) -> Damage {
        let u = |k: &str| v[k].as_u64().unwrap_or(0) as usize;
        match v["d"].as_str().unwrap_or("") {
            "bitflip" => Damage::BitFlip { pos: u("pos"), bit: u("bit") as u8 },
            "subst" => Damage::Subst { pos: u("pos"), how: u("how") as u8 },
            "truncate" => Damage::Truncate { len: u("len") },
            "extend_end" => Damage::ExtendEnd { n: u("n") },
            "remove_body" => Damage::RemoveBody { from: u("from"), to: u("to") },
            _ => Damage::ExtendMiddle { pos: u("pos"), n: u("n") },
        }
    }
}

fn damages_for(file: &[u8]) -> Vec<Damage> {
    let body = file.len() - footer_len(file);
    let mut v = vec![];
    for pos in 0..body {
        for bit in 0..8 {
            v.push(Damage::BitFlip { pos, bit });
        }
        for how in 0..3 {
            v.push(Damage::Subst { pos, how });
        }
    }
    for len in 0..file.len() {
        v.push(Damage::Truncate { len });
    }
    // the body shortened under an intact footer: everything, every prefix, every suffix
    if body > 0 {
        v.push(Damage::RemoveBody { from: 0, to: body });
        for k in 1..body {
            v.push(Damage::RemoveBody { from: 0, to: k });
            v.push(Damage::RemoveBody { from: k, to: body });
        }
    }
    for n in 1..=9 {
        v.push(Damage::ExtendEnd { n });
        if body > 0 {
            v.push(Damage::ExtendMiddle { pos: body / 2, n });
            v.push(Damage::ExtendMiddle { pos: body, n });
        }
        v.push(Damage::ExtendMiddle { pos: 0, n });
    }
    v
}

/// Oracle for one damaged file: Index::validate_checksum reports exactly that file, or fails naming it.
fn check_damage(index: &Index, sim: &SimDirectory, path: &str, orig: &[u8], d: &Damage, variant: usize) -> Option<Violation> {
    // validated twice: through the Index that wrote the files, and through an Index opened afterwards on the
    // same directory (its ManagedDirectory knows only what .managed.json recorded)
    if let Some(v) = check_damage_on(index, sim, path, orig, d, variant) {
        return Some(v);
    }
    let reopened = REOPENED.with(|c| {
        let mut c = c.borrow_mut();
        match &*c {
            Some((id, ix)) if *id == sim.instance_id() => ix.clone(),
            _ => {
                let ix = Index::open(sim.clone()).expect("reopening the generated index");
                *c = Some((sim.instance_id(), ix.clone()));
                ix
            }
        }
    });
    check_damage_on(&reopened, sim, path, orig, d, variant).map(|mut v| {
        v.what = format!("(Index opened after the writer was dropped) {}", v.what);
        v
    })
}

thread_local! {
    static REOPENED: std::cell::RefCell<Option<(usize, Index)>> = const { std::cell::RefCell::new(None) };
}

fn check_damage_on(index: &Index, sim: &SimDirectory, path: &str, orig: &[u8], d: &Damage, variant: usize) -> Option<Violation> {
    let damaged = d.apply(orig)?;
    if damaged == orig {
        return None;
    }
    // an extension in the middle / truncation may by construction reproduce a valid file only if bytes equal
    sim.overwrite_file(path, damaged);
    let r = catch_unwind(AssertUnwindSafe(|| index.validate_checksum()));
    sim.overwrite_file(path, orig.to_vec());
    let case = json!({"kind":"damage","variant":variant,"file_suffix":suffix_of(path),"damage":d.to_json()});
    match r {
        Err(e) => Some(Violation::new(
            "validate_checksum_panic",
            format!("index {variant} file {path} {d:?}: validate_checksum panicked: {}", panic_message(e)),
            case,
        )),
        Ok(Ok(set)) => {
            let names: Vec<String> = set.iter().map(|p| p.to_string_lossy().to_string()).collect();
            if names.len() == 1 && names[0] == path {
                None
            } else if names.is_empty() {
                Some(Violation::new(
                    "damage_not_detected",
                    format!("index {variant} file {path} {d:?}: validate_checksum reported nothing"),
                    case,
                ))
            } else {
                Some(Violation::new(
                    "wrong_files_reported",
                    format!("index {variant} file {path} {d:?}: validate_checksum reported {names:?}"),
                    case,
                ))
            }
        }
        Ok(Err(e)) => {
            let msg = format!("{e:?}");
            if msg.contains(path) {
                None
            } else {
                Some(Violation::new(
                    "error_does_not_name_file",
                    format!("index {variant} file {path} {d:?}: error {msg}"),
                    case,
                ))
            }
        }
    }
}

fn suffix_of(path: &str) -> String {
    // segment ids are random: files are identified by (segment ordinal in sorted order is unstable) suffix
    path.split_once('.').map(|x| x.1.to_string()).unwrap_or_default()
}

/// (c) footer versions
fn check_versions(index: &Index, sim: &SimDirectory, path: &str, orig: &[u8], variant: usize) -> Vec<Violation> {
    let mut out = vec![];
    let fl = footer_len(orig);
    let body = &orig[..orig.len() - fl];
    let js = &orig[orig.len() - fl..orig.len() - 8];
    let Ok(mut foot) = serde_json::from_slice::<Value>(js) else {
        return vec![Violation::new("machinery_footer_parse", format!("cannot parse footer of {path}"), json!({}))];
    };
    let oldest = tantivy::INDEX_FORMAT_OLDEST_SUPPORTED_VERSION;
    let cur = tantivy::INDEX_FORMAT_VERSION;
    for v in [0u32, oldest - 1, oldest, cur - 1, cur, cur + 1, u32::MAX] {
        foot["version"]["index_format_version"] = json!(v);
        let nj = serde_json::to_vec(&foot).unwrap();
        let mut file = body.to_vec();
        file.extend_from_slice(&nj);
        file.extend_from_slice(&(nj.len() as u32).to_le_bytes());
        file.extend_from_slice(&1337u32.to_le_bytes());
        sim.overwrite_file(path, file);
        let r = catch_unwind(AssertUnwindSafe(|| index.directory().open_read(Path::new(path))));
        // the file-handle entry point refuses exactly like open_read
        let rh = catch_unwind(AssertUnwindSafe(|| {
            use tantivy::directory::Directory;
            index.directory().get_file_handle(Path::new(path)).map(|_| ())
        }));
        let opened = catch_unwind(AssertUnwindSafe(|| Index::open(sim.clone()).and_then(|i| i.reader().map(|_| ()))));
        sim.overwrite_file(path, orig.to_vec());
        let supported = v >= oldest && v <= cur;
        let case = json!({"kind":"version","variant":variant,"file_suffix":suffix_of(path),"version":v});
        if let Ok(Ok(())) = rh {
            if !supported {
                out.push(Violation::new(
                    "unsupported_version_accepted",
                    format!("index {variant} file {path}: footer version {v} (supported {oldest}..={cur}) was handed out by get_file_handle instead of refused"),
                    case.clone(),
                ));
            }
        }
        match r {
            Err(_) => out.push(Violation::new("version_panic", format!("open_read of {path} with footer version {v} panicked"), case.clone())),
            Ok(Ok(_)) if !supported => out.push(Violation::new(
                "unsupported_version_accepted",
                format!("index {variant} file {path}: footer version {v} (supported {oldest}..={cur}) was opened instead of refused"),
                case.clone(),
            )),
            Ok(Err(e)) => {
                let msg = format!("{e:?}");
                if supported {
                    out.push(Violation::new(
                        "supported_version_refused",
                        format!("index {variant} file {path}: footer version {v} refused: {msg}"),
                        case.clone(),
                    ));
                } else if !msg.contains("Incompatible") {
                    out.push(Violation::new(
                        "unsupported_version_wrong_error",
                        format!("index {variant} file {path}: footer version {v}: {msg}"),
                        case.clone(),
                    ));
                }
            }
            _ => {}
        }
        // whole-index view: opening a reader must fail (incompatibility) exactly when unsupported
        if let Ok(res) = opened {
            if res.is_ok() && !supported {
                out.push(Violation::new(
                    "unsupported_version_index_opened",
                    format!("index {variant}: reader opened although {path} has footer version {v}"),
                    case.clone(),
                ));
            }
            if res.is_err() && supported {
                out.push(Violation::new(
                    "supported_version_index_refused",
                    format!("index {variant}: reader refused although {path} has footer version {v}: {:?}", res.err()),
                    case,
                ));
            }
        }
    }
    out
}

pub fn replay(case: &Value) -> Vec<Violation> {
    quiet_panics();
    match case["kind"].as_str().unwrap_or("") {
        "write_pattern" => {
            let sizes: Vec<usize> = case["sizes"].as_array().unwrap().iter().map(|x| x.as_u64().unwrap() as usize).collect();
            check_write_pattern(&sizes, case["flush_between"].as_bool().unwrap_or(false), case["short"].as_str().unwrap_or("full"))
                .into_iter()
                .collect()
        }
        "damage" | "version" | "intact" => {
            let variant = case["variant"].as_u64().unwrap_or(0) as usize;
            let (sim, index) = build_index(variant);
            let suffix = case["file_suffix"].as_str().unwrap_or("");
            let mut out = vec![];
            for f in segment_files(&index, &sim) {
                if suffix_of(&f) != suffix && case["kind"] != "intact" {
                    continue;
                }
                let orig = sim.read_file(&f).unwrap();
                if case["kind"] == "damage" {
                    let d = Damage::from_json(&case["damage"]);
                    out.extend(check_damage(&index, &sim, &f, &orig, &d, variant));
                } else if case["kind"] == "version" {
                    let want = case["version"].as_u64().unwrap_or(0);
                    out.extend(
                        check_versions(&index, &sim, &f, &orig, variant)
                            .into_iter()
                            .filter(|v| v.case["version"].as_u64() == Some(want)),
                    );
                }
            }
            if case["kind"] == "intact" {
                out.extend(check_intact(&index, variant));
            }
            out
        }
        _ => vec![],
    }
}

fn check_intact(index: &Index, variant: usize) -> Option<Violation> {
    match index.validate_checksum() {
        Ok(s) if s.is_empty() => None,
        other => Some(Violation::new(
            "intact_index_reported",
            format!("index {variant}: validate_checksum on the intact index = {other:?}"),
            json!({"kind":"intact","variant":variant}),
        )),
    }
}

pub fn run(ctx: &Ctx) -> Report {
    quiet_panics();
    let mut rep = Report::new("model_checking");
    let thorough = ctx.tier.is_thorough();
    // ---- (a) write patterns
    let maxw = if thorough { 5 } else { 3 };
    let mut patterns: Vec<Vec<usize>> = vec![vec![]];
    let mut frontier: Vec<Vec<usize>> = vec![vec![]];
    for _ in 0..maxw {
        let mut next = vec![];
        for p in &frontier {
            for s in SIZES {
                let mut q = p.clone();
                q.push(s);
                next.push(q);
            }
        }
        patterns.extend(next.iter().cloned());
        frontier = next;
    }
    let mut wcases = vec![];
    for p in &patterns {
        for fl in [false, true] {
            for sh in ["full", "one", "half"] {
                wcases.push((p.clone(), fl, sh));
            }
        }
    }
    let (mut st, done_a) = par_for(ctx, wcases.len(), |i, st| {
        let (p, fl, sh) = &wcases[i];
        st.eval();
        if p.iter().sum::<usize>() > 0 && *sh != "full" {
            st.nontrivial(&(p, fl, sh));
            st.count("short_write_pattern");
        }
        if i % 1777 == 0 {
            st.sample(json!({"kind":"write_pattern","sizes":p,"flush_between":fl,"short":sh}));
        }
        if let Some(v) = check_write_pattern(p, *fl, sh) {
            st.violation(v);
        }
    });
    // ---- (b) + (c) damages on the index family
    let variants: Vec<usize> = if thorough { (0..24).collect() } else { (0..12).collect() };
    let mut work: Vec<(usize, String)> = vec![];
    let mut kinds_seen: BTreeMap<String, u64> = BTreeMap::new();
    for &v in &variants {
        let (sim, index) = build_index(v);
        for f in segment_files(&index, &sim) {
            *kinds_seen.entry(f.rsplit('.').next().unwrap_or("").to_string()).or_insert(0) += 1;
            work.push((v, suffix_of(&f)));
        }
    }
    let (st_b, done_b) = par_for(ctx, work.len(), |i, st| {
        let (variant, suffix) = &work[i];
        let (sim, index) = build_index(*variant);
        if let Some(v) = check_intact(&index, *variant) {
            st.violation(v);
        }
        match Index::open(sim.clone()) {
            Ok(re) => {
                if let Some(mut v) = check_intact(&re, *variant) {
                    v.what = format!("(Index opened after the writer was dropped) {}", v.what);
                    st.violation(v);
                }
            }
            Err(e) => st.violation(Violation::new("reopen_failed", format!("index {variant}: Index::open on the generated index: {e:?}"), json!({"kind":"intact","variant":variant}))),
        }
        // random segment ids: pick the file by suffix, in sorted order of segment files with that suffix;
        // all files with that suffix are damaged in turn (same component of every segment)
        let nth = work[..i].iter().filter(|(v2, s2)| v2 == variant && s2 == suffix).count();
        let files: Vec<String> = segment_files(&index, &sim).into_iter().filter(|f| &suffix_of(f) == suffix).collect();
        let Some(f) = files.get(nth) else { return };
        let orig = sim.read_file(f).unwrap();
        for d in damages_for(&orig) {
            st.eval();
            st.nontrivial(&(variant, suffix, nth, format!("{d:?}")));
            match d {
                Damage::BitFlip { .. } => st.count("bitflips"),
                Damage::Subst { .. } => st.count("substitutions"),
                Damage::Truncate { .. } => st.count("truncations"),
                Damage::RemoveBody { .. } => st.count("body_removals"),
                _ => st.count("extensions"),
            }
            if let Some(v) = check_damage(&index, &sim, f, &orig, &d, *variant) {
                st.violation(v);
            }
        }
        st.sample(json!({"kind":"damage","variant":variant,"file":suffix,"bytes":orig.len(),"example":"every bit of the body flipped, every byte replaced by 00/ff/+1, every truncation length, extensions 1..9"}));
        for v in check_versions(&index, &sim, f, &orig, *variant) {
            st.violation(v);
        }
        st.count_n("version_cases", 7);
        st.evaluations += 7;
    });
    st.merge(st_b);
    let complete = done_a == wcases.len() && done_b == work.len();
    rep.set("exhaustive", complete);
    rep.set("write_patterns", wcases.len() as u64);
    rep.set("index_variants", variants.len() as u64);
    rep.set("segment_files_damaged", work.len() as u64);
    rep.set("component_kinds", json!(kinds_seen));
    rep.set("rule", "(a) every sequence of <= 3 (thorough 5) writes of sizes {0,1,7,8191,8192,8193} x flush between x underlying writer accepting all / 1 byte / half; (b) every bit flip and 3 substitutions of every body byte, every truncation length, the body shortened under an intact footer (everything, every prefix, every suffix), extensions by 1..9 bytes at 4 positions, for every segment file of each index of the family, validated through the Index that wrote it and through an Index opened afterwards; (c) 7 footer versions per file, through open_read and get_file_handle; written content is read back through both. Non-trivial: short-write pattern with data / any damage (distinct by file and damage)");
    for k in ["bitflips", "truncations", "extensions", "version_cases", "short_write_pattern"] {
        if st.counters.get(k).copied().unwrap_or(0) == 0 {
            rep.machinery_errors.push(format!("vacuous: no {k} case was run"));
        }
    }
    for need in ["del", "pos", "fieldnorm", "store", "idx", "term", "fast"] {
        if !kinds_seen.contains_key(need) {
            rep.machinery_errors.push(format!("index family has no .{need} file"));
        }
    }
    rep.set("states", st.nontrivial.len() as u64);
    rep.set("transitions", st.evaluations);
    rep.set("traces_validated_against_impl", st.evaluations);
    rep.assume("CRC32 cannot detect every multi-byte change; the enumerated damages (single bit, single byte, truncation, short extension) are all within its guaranteed detection classes except extensions, which also move the footer");
    rep.merge_stats(&st);
    rep.violations = st.violations;
    rep.machinery_errors.extend(st.errors);
    rep
}
