//! Process isolation for enumerations whose cases may hang, abort or exhaust memory.
//!
//! The parent splits the case range [0, total) into chunks and feeds them to worker sub-processes
//! (`vcheck worker <prop> <family> <start> <end> <step> <arg>`). A worker publishes the index of the case it is
//! working on in a static; a watchdog thread (hang) and a SIGABRT handler (allocation failure, stack
//! overflow -> abort) report `CRASH <kind> <idx>` on stdout and `_exit`. The parent attributes the crash to
//! exactly that case, and restarts the worker after it.
use std::io::{BufRead, BufReader, Write};
use std::process::{Command, Stdio};
use std::sync::atomic::{AtomicU64, AtomicUsize, Ordering};
use std::sync::Mutex;

use crate::common::Ctx;

pub static CURRENT: AtomicU64 = AtomicU64::new(u64::MAX);
/// secondary position inside the current case (e.g. program index); reported with a crash
pub static DETAIL: AtomicU64 = AtomicU64::new(0);
static TICK: AtomicU64 = AtomicU64::new(0);

extern "C" fn on_abort(_sig: libc::c_int) {
    let idx = CURRENT.load(Ordering::SeqCst);
    let mut buf = [0u8; 64];
    let s = fmt_line(b"CRASH abort ", idx, &mut buf);
    unsafe {
        libc::write(1, s.as_ptr() as *const libc::c_void, s.len());
        let mut buf2 = [0u8; 64];
        let s2 = fmt_line(b"DETAIL ", DETAIL.load(Ordering::SeqCst), &mut buf2);
        libc::write(1, s2.as_ptr() as *const libc::c_void, s2.len());
        libc::_exit(3);
    }
}

fn fmt_line<'a>(prefix: &[u8], mut n: u64, buf: &'a mut [u8; 64]) -> &'a [u8] {
    let mut digits = [0u8; 20];
    let mut k = 0;
    if n == 0 {
        digits[0] = b'0';
        k = 1;
    }
    while n > 0 {
        digits[k] = b'0' + (n % 10) as u8;
        n /= 10;
        k += 1;
    }
    let mut p = 0;
    buf[p] = b'\n';
    p += 1;
    for &c in prefix {
        buf[p] = c;
        p += 1;
    }
    for i in (0..k).rev() {
        buf[p] = digits[i];
        p += 1;
    }
    buf[p] = b'\n';
    p += 1;
    &buf[..p]
}

/// Called once by a worker process.
pub fn worker_guard(mem_limit_bytes: u64, hang_ms: u64) {
    unsafe {
        let lim = libc::rlimit {
            rlim_cur: mem_limit_bytes,
            rlim_max: mem_limit_bytes,
        };
        libc::setrlimit(libc::RLIMIT_AS, &lim);
        libc::signal(libc::SIGABRT, on_abort as usize);
    }
    std::thread::spawn(move || {
        let mut last = (u64::MAX, 0u64);
        let mut stuck_ms = 0u64;
        loop {
            std::thread::sleep(std::time::Duration::from_millis(50));
            let now = (CURRENT.load(Ordering::SeqCst), TICK.load(Ordering::SeqCst));
            if now == last && now.0 != u64::MAX {
                stuck_ms += 50;
                if stuck_ms >= hang_ms {
                    let mut buf = [0u8; 64];
                    let s = fmt_line(b"CRASH hang ", now.0, &mut buf);
                    unsafe {
                        libc::write(1, s.as_ptr() as *const libc::c_void, s.len());
                        let mut buf2 = [0u8; 64];
                        let s2 = fmt_line(b"DETAIL ", DETAIL.load(Ordering::SeqCst), &mut buf2);
                        libc::write(1, s2.as_ptr() as *const libc::c_void, s2.len());
                        libc::_exit(4);
                    }
                }
            } else {
                stuck_ms = 0;
                last = now;
            }
        }
    });
}

#[inline]
pub fn set_current(idx: u64) {
    CURRENT.store(idx, Ordering::SeqCst);
    TICK.fetch_add(1, Ordering::SeqCst);
}

/// For `vcheck replay`: an abort (allocation failure) or a hang while replaying is the reproduction.
pub fn replay_guard(prop: &str, path: &str, mem_limit_bytes: u64, hang_ms: u64) {
    let line = format!("\nVIOLATION property={prop} replay={path}\n  rule=process_abort_or_hang the replayed case aborted the process (allocation failure) or did not return\n");
    let leaked: &'static [u8] = Box::leak(line.into_bytes().into_boxed_slice());
    REPLAY_LINE_PTR.store(leaked.as_ptr() as usize, Ordering::SeqCst);
    REPLAY_LINE_LEN.store(leaked.len(), Ordering::SeqCst);
    unsafe {
        let lim = libc::rlimit { rlim_cur: mem_limit_bytes, rlim_max: mem_limit_bytes };
        libc::setrlimit(libc::RLIMIT_AS, &lim);
        libc::signal(libc::SIGABRT, on_replay_abort as usize);
    }
    std::thread::spawn(move || {
        std::thread::sleep(std::time::Duration::from_millis(hang_ms));
        on_replay_abort(0);
    });
}
static REPLAY_LINE_PTR: AtomicUsize = AtomicUsize::new(0);
static REPLAY_LINE_LEN: AtomicUsize = AtomicUsize::new(0);
extern "C" fn on_replay_abort(_sig: libc::c_int) {
    unsafe {
        libc::write(1, REPLAY_LINE_PTR.load(Ordering::SeqCst) as *const libc::c_void, REPLAY_LINE_LEN.load(Ordering::SeqCst));
        libc::_exit(1);
    }
}

pub fn idle() {
    CURRENT.store(u64::MAX, Ordering::SeqCst);
}

pub struct IsoOutcome {
    /// payload lines written by workers (everything that is not a control line)
    pub lines: Vec<String>,
    /// (kind, case index) of crashed cases
    pub crashes: Vec<(String, u64)>,
    /// case index -> DETAIL value at the time of the crash
    pub crash_detail: std::collections::HashMap<u64, u64>,
    pub completed: u64,
    pub complete: bool,
    pub machinery_errors: Vec<String>,
}

/// Run cases [0,total) of `family` of property `prop` in isolated workers.
pub fn run_isolated(ctx: &Ctx, prop: &str, family: &str, total: u64, arg: &str) -> IsoOutcome {
    let exe = std::env::current_exe().expect("current_exe");
    // strided assignment: chunk k covers indices k, k+step, k+2*step, .. so that clusters of expensive
    // (hanging) neighbours are spread over all workers
    let step = ((ctx.jobs as u64) * 4).max(1).min(total.max(1));
    let chunks: Vec<(u64, u64)> = (0..step).map(|k| (k, total)).collect();
    let next = AtomicUsize::new(0);
    let out = Mutex::new(IsoOutcome {
        lines: vec![],
        crashes: vec![],
        crash_detail: Default::default(),
        completed: 0,
        complete: true,
        machinery_errors: vec![],
    });
    std::thread::scope(|s| {
        for _ in 0..ctx.jobs.max(1) {
            s.spawn(|| loop {
                let k = next.fetch_add(1, Ordering::SeqCst);
                if k >= chunks.len() {
                    break;
                }
                let (mut start, end) = chunks[k];
                if ctx.out_of_time() {
                    out.lock().unwrap().complete = false;
                    continue;
                }
                let mut restarts = 0;
                while start < end {
                    let child = Command::new(&exe)
                        .args(["worker", prop, family, &start.to_string(), &end.to_string(), &step.to_string(), arg])
                        .stdin(Stdio::null())
                        .stdout(Stdio::piped())
                        .stderr(Stdio::null())
                        .spawn();
                    let mut child = match child {
                        Ok(c) => c,
                        Err(e) => {
                            out.lock().unwrap().machinery_errors.push(format!("spawn: {e}"));
                            return;
                        }
                    };
                    let rd = BufReader::new(child.stdout.take().unwrap());
                    let mut lines = vec![];
                    let mut crash: Option<(String, u64)> = None;
                    let mut done = false;
                    let mut detail = 0u64;
                    for line in rd.lines() {
                        let Ok(line) = line else { break };
                        if line.is_empty() {
                            continue;
                        }
                        if let Some(rest) = line.strip_prefix("CRASH ") {
                            let mut it = rest.split(' ');
                            let kind = it.next().unwrap_or("?").to_string();
                            let idx = it.next().and_then(|x| x.parse::<u64>().ok()).unwrap_or(u64::MAX);
                            crash = Some((kind, idx));
                        } else if let Some(rest) = line.strip_prefix("DETAIL ") {
                            detail = rest.trim().parse().unwrap_or(0);
                        } else if line == "DONE" {
                            done = true;
                        } else {
                            lines.push(line);
                        }
                    }
                    let status = child.wait();
                    let mut o = out.lock().unwrap();
                    o.lines.extend(lines);
                    if done {
                        o.completed += (end - start).div_ceil(step);
                        break;
                    }
                    match crash {
                        Some((kind, idx)) if idx >= start && idx < end && (idx - start) % step == 0 => {
                            o.crashes.push((kind, idx));
                            o.crash_detail.insert(idx, detail);
                            o.completed += (idx - start) / step + 1;
                            start = idx + step;
                        }
                        other => {
                            restarts += 1;
                            o.machinery_errors.push(format!(
                                "worker for {prop}/{family} [{start},{end}) died without attributable case: {other:?} status {status:?}"
                            ));
                            if restarts > 2 {
                                o.complete = false;
                                break;
                            }
                        }
                    }
                    drop(o);
                    if ctx.out_of_time() {
                        out.lock().unwrap().complete = false;
                        break;
                    }
                }
            });
        }
    });
    out.into_inner().unwrap()
}

/// Helper for workers: line-oriented output with flush.
pub fn emit(line: &str) {
    let so = std::io::stdout();
    let mut l = so.lock();
    let _ = writeln!(l, "{line}");
    let _ = l.flush();
}
