//! C05 - searchers are immutable snapshots; readers only ever see whole commits.
use serde_json::Value;

use crate::common::*;

pub fn worker(family: &str, start: u64, end: u64, step: u64, arg: &str) {
    if family == "preempt" {
        crate::preempt_family::worker("C05", start, end, step, arg)
    } else {
        crate::c02::worker(family, start, end, step, arg)
    }
}

pub fn replay(case: &Value) -> Vec<Violation> {
    if case.get("point").is_some() {
        crate::preempt_family::replay(case)
    } else {
        crate::c02::replay(case)
    }
}

pub fn run(ctx: &Ctx) -> Report {
    quiet_panics();
    let mut rep = Report::new("model_checking");
    let p = crate::preempt_family::run_family(ctx, "C05");
    let mut st = p.st;
    let mut complete = p.complete;
    rep.set("preemption_scenarios", Value::Array(p.info));
    let (hs, hc, hinfo) = crate::c02::run_phases(ctx, "C05", &[0, 1, 4]);
    complete &= hc;
    rep.set("history_phases", Value::Array(hinfo));
    st.merge(hs);
    rep.set("exhaustive", complete);
    rep.set("rule", "(1) single-preemption exploration: a reader reload (on the writer's Index and on a second Index opened on the same directory) is preempted in front of each of its storage operations - meta.json read, lock acquisition, every segment-file open - by each of five writer-side actions (commit; merge + collect; emptying commit + collect; commit + merge + collect + drop writer; rollback + payload commit + collect); a merge thread is preempted in front of each storage operation by writer drop + new writer + commit; the writer side is preempted in front of each storage operation by a new reader loading: the reload succeeds and shows exactly one commit not older than the previous one, a further reload shows the last commit, the searcher held since before still answers identically (ids, stored documents, fast field, term query count, top-docs) after the collection deleted its files. (2) every history of the C02 alphabet up to the phase depth with one long-lived reader reloaded after EVERY operation: equal to a fresh open after a commit, unchanged otherwise (no uncommitted work, no moving back), and one searcher held per published state re-read after the writer is gone and files are collected");
    rep.set("states", st.counters.get("observations").copied().unwrap_or(0).max(1));
    rep.set("transitions", st.counters.get("transitions").copied().unwrap_or(0).max(1));
    rep.set("schedules", st.counters.get("preemptions_fired").copied().unwrap_or(0));
    rep.set("traces_validated_against_impl", st.evaluations);
    let nontrivial = st.counters.get("preemptions_fired").copied().unwrap_or(0) + st.counters.get("nontrivial").copied().unwrap_or(0);
    for k in ["preemptions_fired", "action_blocked_on_directory_lock", "observations"] {
        if st.counters.get(k).copied().unwrap_or(0) == 0 {
            rep.machinery_errors.push(format!("vacuous: {k} = 0"));
        }
    }
    rep.assume("preemption happens at storage-operation boundaries (the Directory seam) with one preemption per run; the swap of the current searcher (arc-swap) is a single atomic store and is not interleaved further");
    rep.assume("files are served by SimDirectory / RamDirectory, whose readers keep the bytes alive after deletion as MmapDirectory's mappings do; mmap behaviour itself is the operating system's");
    rep.merge_stats(&st);
    rep.set("distinct_nontrivial", nontrivial);
    rep.violations = st.violations;
    rep.machinery_errors.extend(st.errors);
    rep
}
