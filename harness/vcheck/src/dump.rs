//! Canonical segment dump: everything a segment says about its documents, read through the public
//! readers (term dictionaries + postings with positions, field norms, stored documents, fast fields).
use std::collections::BTreeMap;

use tantivy::schema::{FieldType, IndexRecordOption, Schema};
use tantivy::postings::Postings;
use tantivy::{DocId, DocSet, SegmentReader, TERMINATED};

/// (doc, term frequency, positions)
pub type PostingEntry = (u32, u32, Vec<u32>);

#[derive(Clone, Debug, PartialEq, Default)]
pub struct FieldDump {
    /// terms in dictionary order
    pub terms: Vec<(Vec<u8>, Vec<PostingEntry>)>,
    /// doc_freq reported by the dictionary for each term (same order)
    pub doc_freqs: Vec<u32>,
    pub total_num_tokens: u64,
    /// decoded field norm per doc (None when the field has no norms)
    pub fieldnorms: Option<Vec<u32>>,
    pub record: Option<IndexRecordOption>,
}

#[derive(Clone, Debug, PartialEq, Default)]
pub struct SegDump {
    pub max_doc: u32,
    pub alive: Vec<bool>,
    pub fields: BTreeMap<String, FieldDump>,
    /// stored document as JSON per doc id
    pub stored: Vec<String>,
    /// fast-field columns: column name (with type suffix) -> per doc list of rendered values
    pub fast: BTreeMap<String, Vec<Vec<String>>>,
}

pub fn record_option(ft: &FieldType) -> Option<IndexRecordOption> {
    ft.get_index_record_option()
}

pub fn dump_field(reader: &SegmentReader, schema: &Schema, field_name: &str) -> Result<FieldDump, String> {
    let field = schema.get_field(field_name).map_err(|e| e.to_string())?;
    let entry = schema.get_field_entry(field);
    let record = record_option(entry.field_type());
    let inv = reader.inverted_index(field).map_err(|e| format!("inverted_index({field_name}): {e:?}"))?;
    let mut out = FieldDump { record, total_num_tokens: inv.total_num_tokens(), ..Default::default() };
    let read_opt = record.unwrap_or(IndexRecordOption::Basic);
    let mut stream = inv.terms().stream().map_err(|e| e.to_string())?;
    while stream.advance() {
        let key = stream.key().to_vec();
        let ti = stream.value().clone();
        out.doc_freqs.push(ti.doc_freq);
        // JSON fields hold position-less / frequency-less (numeric, bool) terms next to text terms: those are
        // read with the basic option (term bytes = path, 0, type code, value; type code 's' = text)
        let is_json = matches!(entry.field_type(), FieldType::JsonObject(_));
        let json_text_term = key.iter().position(|b| *b == 0).map(|p| key.get(p + 1) == Some(&b's')).unwrap_or(false);
        let read_opt = if is_json && !json_text_term { IndexRecordOption::Basic } else { read_opt };
        let mut postings = inv.read_postings_from_terminfo(&ti, read_opt).map_err(|e| format!("read_postings: {e:?}"))?;
        let mut list = vec![];
        let mut doc = postings.doc();
        let mut guard = 0u64;
        while doc != TERMINATED {
            let tf = postings.term_freq();
            let mut pos = vec![];
            // JSON fields hold position-less (numeric / bool) terms next to text terms
            if read_opt.has_positions() && !ti.positions_range.is_empty() {
                postings.positions(&mut pos);
            }
            list.push((doc, tf, pos));
            let nd = postings.advance();
            if nd != TERMINATED && nd <= doc {
                return Err(format!("postings of term {:?} not increasing: {doc} then {nd}", key));
            }
            doc = nd;
            guard += 1;
            if guard > 50_000_000 {
                return Err("postings do not terminate".into());
            }
        }
        out.terms.push((key, list));
    }
    if entry.has_fieldnorms() {
        let fr = reader.get_fieldnorms_reader(field).map_err(|e| format!("fieldnorms: {e:?}"))?;
        out.fieldnorms = Some((0..reader.max_doc()).map(|d| fr.fieldnorm(d)).collect());
    }
    Ok(out)
}

pub fn dump_fast(reader: &SegmentReader) -> Result<BTreeMap<String, Vec<Vec<String>>>, String> {
    use tantivy_columnar::DynamicColumn;
    let mut out = BTreeMap::new();
    let n = reader.max_doc();
    let schema = reader.schema().clone();
    // the columnar reader itself is crate-private: columns are reached through the schema's fast fields
    let mut handles: Vec<(String, tantivy_columnar::DynamicColumnHandle)> = vec![];
    for (_f, entry) in schema.fields() {
        if !entry.is_fast() {
            continue;
        }
        let ff = reader.fast_fields();
        let hs = if matches!(entry.field_type(), FieldType::JsonObject(_)) {
            ff.dynamic_subpath_column_handles(entry.name()).map_err(|e| e.to_string())?
        } else {
            ff.dynamic_column_handles(entry.name()).map_err(|e| e.to_string())?
        };
        for (k, h) in hs.into_iter().enumerate() {
            handles.push((format!("{}/{k}", entry.name()), h));
        }
    }
    for (name, handle) in handles {
        let col = handle.open().map_err(|e| format!("open column {name}: {e}"))?;
        let key = format!("{name}#{:?}", col.column_type());
        let mut per_doc: Vec<Vec<String>> = Vec::with_capacity(n as usize);
        for d in 0..n {
            let vals: Vec<String> = match &col {
                DynamicColumn::Bool(c) => c.values_for_doc(d).map(|v| v.to_string()).collect(),
                DynamicColumn::I64(c) => c.values_for_doc(d).map(|v| v.to_string()).collect(),
                DynamicColumn::U64(c) => c.values_for_doc(d).map(|v| v.to_string()).collect(),
                DynamicColumn::F64(c) => c.values_for_doc(d).map(|v| format!("{:?}", v.to_bits())).collect(),
                DynamicColumn::IpAddr(c) => c.values_for_doc(d).map(|v| v.to_string()).collect(),
                DynamicColumn::DateTime(c) => c.values_for_doc(d).map(|v| v.into_timestamp_nanos().to_string()).collect(),
                DynamicColumn::Bytes(c) => {
                    let mut v = vec![];
                    for ord in c.term_ords(d) {
                        let mut b = vec![];
                        c.ord_to_bytes(ord, &mut b).map_err(|e| e.to_string())?;
                        v.push(format!("{b:?}"));
                    }
                    v
                }
                DynamicColumn::Str(c) => {
                    let mut v = vec![];
                    for ord in c.term_ords(d) {
                        let mut s = String::new();
                        c.ord_to_str(ord, &mut s).map_err(|e| e.to_string())?;
                        v.push(s);
                    }
                    v
                }
            };
            per_doc.push(vals);
        }
        out.insert(key, per_doc);
    }
    Ok(out)
}

pub fn dump_stored(reader: &SegmentReader, schema: &Schema) -> Result<Vec<String>, String> {
    use tantivy::schema::document::Document;
    let store = reader.get_store_reader(4).map_err(|e| e.to_string())?;
    let mut out = vec![];
    for d in 0..reader.max_doc() {
        if reader.is_deleted(d) {
            out.push(String::new());
            continue;
        }
        let doc: tantivy::TantivyDocument = store.get(d).map_err(|e| format!("store.get({d}): {e:?}"))?;
        out.push(doc.to_json(schema));
    }
    Ok(out)
}

pub fn dump_segment(reader: &SegmentReader, schema: &Schema) -> Result<SegDump, String> {
    let mut out = SegDump { max_doc: reader.max_doc(), ..Default::default() };
    out.alive = (0..reader.max_doc()).map(|d: DocId| !reader.is_deleted(d)).collect();
    for (_f, entry) in schema.fields() {
        if entry.is_indexed() {
            out.fields.insert(entry.name().to_string(), dump_field(reader, schema, entry.name())?);
        }
    }
    out.stored = dump_stored(reader, schema)?;
    out.fast = dump_fast(reader)?;
    Ok(out)
}

/// The content of the alive documents of a segment, in doc-id order, as a list of per-document records
/// that do not mention doc ids: used to compare a merged segment with the concatenation of its sources.
#[derive(Clone, Debug, PartialEq, Default)]
pub struct DocRecord {
    pub stored: String,
    pub fast: BTreeMap<String, Vec<String>>,
    pub fieldnorms: BTreeMap<String, u32>,
    /// field -> term -> (tf, positions)
    pub postings: BTreeMap<String, BTreeMap<Vec<u8>, (u32, Vec<u32>)>>,
}

pub fn records_of(d: &SegDump) -> Vec<DocRecord> {
    let mut recs: Vec<DocRecord> = (0..d.max_doc).map(|_| DocRecord::default()).collect();
    for (i, r) in recs.iter_mut().enumerate() {
        r.stored = d.stored.get(i).cloned().unwrap_or_default();
        for (col, vals) in &d.fast {
            if !vals[i].is_empty() {
                r.fast.insert(col.clone(), vals[i].clone());
            }
        }
    }
    for (fname, fd) in &d.fields {
        if let Some(fns) = &fd.fieldnorms {
            for (i, r) in recs.iter_mut().enumerate() {
                r.fieldnorms.insert(fname.clone(), fns[i]);
            }
        }
        for (term, list) in &fd.terms {
            for (doc, tf, pos) in list {
                recs[*doc as usize].postings.entry(fname.clone()).or_default().insert(term.clone(), (*tf, pos.clone()));
            }
        }
    }
    recs.into_iter().enumerate().filter(|(i, _)| d.alive[*i]).map(|(_, r)| r).collect()
}
