//! History engine: operation histories on a real IndexWriter compared step by step with RefIndex.
//! Used by C02 (content / opstamps), C10 (directory oracle), C17 (sorted index), C04 (merge dumps).
use std::collections::BTreeMap;
use std::sync::Arc;

use serde::{Deserialize, Serialize};
use tantivy::directory::Directory;
use tantivy::index::SegmentId;
use tantivy::indexer::{IndexWriterOptions, UserOperation};
use tantivy::merge_policy::NoMergePolicy;
use tantivy::query::{BooleanQuery, Occur, Query, TermQuery};
use tantivy::schema::*;
use tantivy::{Index, IndexSettings, IndexWriter, Searcher, TantivyDocument, Term};

#[derive(Clone, Copy, Debug, PartialEq, Eq, Hash, Serialize, Deserialize)]
pub enum Op {
    AddA,
    AddB,
    DelA,
    DelB,
    /// delete_term(id of the most recent add of the transaction / history)
    DelLastId,
    /// delete_query(k:a AND NOT id:<first id>)
    DelQueryA,
    /// run([add a, delete a, add a])
    RunBatch,
    DeleteAll,
    Commit,
    /// prepare_commit + set_payload + commit
    CommitPayload,
    /// prepare_commit + abort
    PrepAbort,
    Rollback,
    /// merge(all searchable segments).wait()
    MergeAll,
    /// drop the writer and open a new one
    Reopen,
    /// wait_merging_threads (consumes the writer) and open a new one
    WaitMergeReopen,
}

pub const ALPHABET: [Op; 15] = [
    Op::AddA, Op::AddB, Op::DelA, Op::DelB, Op::DelLastId, Op::DelQueryA, Op::RunBatch, Op::DeleteAll, Op::Commit, Op::CommitPayload, Op::PrepAbort,
    Op::Rollback, Op::MergeAll, Op::Reopen, Op::WaitMergeReopen,
];

impl Op {
    /// operations after which the committed state is compared with the model
    pub fn observes(self) -> bool {
        matches!(self, Op::Commit | Op::CommitPayload | Op::PrepAbort | Op::Rollback | Op::Reopen | Op::WaitMergeReopen | Op::MergeAll)
    }
}

#[derive(Clone, Debug, PartialEq, Eq, Serialize, Deserialize)]
pub struct MDoc {
    pub id: u64,
    pub key: String,
}

#[derive(Clone, Debug, Default)]
pub struct RefIndex {
    pub committed: Vec<MDoc>,
    pub working: Vec<MDoc>,
    pub next_id: u64,
    pub last_added: Option<u64>,
    pub first_id: u64,
    pub payload: Option<String>,
    pub ncommits: u64,
    /// deviation switches describing recorded known findings (see DESIGN.md 2.8)
    pub dev_delete_all_keeps_pipeline: bool,
}

impl RefIndex {
    pub fn new() -> RefIndex {
        RefIndex { next_id: 1, first_id: 1, ..Default::default() }
    }
    fn add(&mut self, key: &str) -> u64 {
        let id = self.next_id;
        self.next_id += 1;
        self.working.push(MDoc { id, key: key.to_string() });
        self.last_added = Some(id);
        id
    }
    pub fn apply(&mut self, op: Op) {
        match op {
            Op::AddA => {
                self.add("a");
            }
            Op::AddB => {
                self.add("b");
            }
            Op::DelA => self.working.retain(|d| d.key != "a"),
            Op::DelB => self.working.retain(|d| d.key != "b"),
            Op::DelLastId => {
                if let Some(id) = self.last_added {
                    self.working.retain(|d| d.id != id);
                }
            }
            Op::DelQueryA => {
                let f = self.first_id;
                self.working.retain(|d| !(d.key == "a" && d.id != f));
            }
            Op::RunBatch => {
                self.add("a");
                self.working.retain(|d| d.key != "a");
                self.add("a");
            }
            Op::DeleteAll => self.working.clear(),
            Op::Commit => {
                self.committed = self.working.clone();
                self.ncommits += 1;
            }
            Op::CommitPayload => {
                self.committed = self.working.clone();
                self.ncommits += 1;
                self.payload = Some(format!("payload-{}", self.ncommits));
            }
            Op::PrepAbort | Op::Rollback | Op::Reopen | Op::WaitMergeReopen => {
                self.working = self.committed.clone();
            }
            Op::MergeAll => {}
        }
    }
}

#[derive(Clone, Debug, Serialize, Deserialize, PartialEq, Eq, Hash)]
pub struct Config {
    pub workers: usize,
    /// sort_by_field: None, or (field name, ascending)
    pub sort: Option<(String, bool)>,
    /// merge everything whenever two segments of the same kind (committed / uncommitted) exist
    #[serde(default)]
    pub eager_merges: bool,
}

/// merge policy that proposes to merge all the segments it is shown as soon as there are two
#[derive(Debug)]
pub struct EagerMergePolicy;
impl tantivy::merge_policy::MergePolicy for EagerMergePolicy {
    fn compute_merge_candidates(&self, segments: &[tantivy::SegmentMeta]) -> Vec<tantivy::merge_policy::MergeCandidate> {
        if segments.len() >= 2 {
            vec![tantivy::merge_policy::MergeCandidate(segments.iter().map(|s| s.id()).collect())]
        } else {
            vec![]
        }
    }
}

pub struct Fields {
    pub id: Field,
    pub k: Field,
    pub body: Field,
    pub sv: Field,
}

pub fn schema() -> (Schema, Fields) {
    let mut sb = Schema::builder();
    let id = sb.add_u64_field("id", INDEXED | FAST | STORED);
    let k = sb.add_text_field("k", STRING | FAST | STORED);
    let body = sb.add_text_field("body", TEXT | STORED);
    let sv = sb.add_i64_field("sv", INDEXED | FAST | STORED);
    // the same sort value under every sortable type
    sb.add_u64_field("su", FAST);
    sb.add_f64_field("sf", FAST);
    sb.add_date_field("sd", FAST);
    sb.add_text_field("ss", STRING | FAST);
    sb.add_bytes_field("sb", FAST);
    // postings without positions (frequencies only) and JSON terms of every scalar type
    sb.add_text_field("wf", TextOptions::default().set_indexing_options(TextFieldIndexing::default().set_tokenizer("default").set_index_option(IndexRecordOption::WithFreqs)));
    sb.add_json_field("js", TEXT);
    // a multi-valued fast field whose values are recorded in a non-monotone order (ten per document)
    sb.add_u64_field("mv", FAST);
    (sb.build(), Fields { id, k, body, sv })
}

pub fn make_doc(f: &Fields, id: u64, key: &str) -> TantivyDocument {
    let mut d = TantivyDocument::default();
    d.add_u64(f.id, id);
    d.add_text(f.k, key);
    d.add_text(f.body, format!("{key} doc{id} {key}"));
    // sort value: a function of the id with duplicates, mixed signs and a missing value
    if let Some(base) = sort_base(id) {
        d.add_i64(f.sv, base);
        let field = |n: &str| tantivy::schema::Field::from_field_id(f.sv.field_id() + match n {
            "su" => 1,
            "sf" => 2,
            "sd" => 3,
            "ss" => 4,
            _ => 5,
        });
        d.add_u64(field("su"), (base + 1) as u64);
        d.add_f64(field("sf"), base as f64 * 0.5);
        d.add_date(field("sd"), tantivy::DateTime::from_timestamp_secs(base * 86_400));
        d.add_text(field("ss"), ["a", "b", "c", "d"][(base + 1) as usize]);
        d.add_bytes(field("sb"), &[(base + 1) as u8][..]);
    }
    let extra = |n: u32| tantivy::schema::Field::from_field_id(f.sv.field_id() + 5 + n);
    // wf: the key (id % 3 + 1) times, and a token every document has
    let mut wf = String::new();
    for _ in 0..(id % 3 + 1) {
        wf.push_str(key);
        wf.push(' ');
    }
    wf.push_str("all");
    d.add_text(extra(1), wf);
    let mut obj: std::collections::BTreeMap<String, tantivy::schema::OwnedValue> = std::collections::BTreeMap::new();
    obj.insert("n".to_string(), tantivy::schema::OwnedValue::I64((id % 3) as i64));
    obj.insert("b".to_string(), tantivy::schema::OwnedValue::Bool(id % 2 == 0));
    obj.insert("t".to_string(), tantivy::schema::OwnedValue::Str(key.to_string()));
    d.add_object(extra(2), obj);
    for v in mv_values(id) {
        d.add_u64(extra(3), v);
    }
    d
}

/// the values of the multi-valued fast field of document `id`, in recording order
pub fn mv_values(id: u64) -> Vec<u64> {
    [7u64, 3, 9, 1, 5, 0, 8, 2, 6, 4].iter().map(|x| id * 100 + x).collect()
}

/// the sort value of document `id` (None = no value)
pub fn sort_base(id: u64) -> Option<i64> {
    if id % 5 == 0 {
        None
    } else {
        Some(((id * 7) % 4) as i64 - 1)
    }
}

pub struct Harness {
    /// the directory the index was created in: a re-opened writer works on an `Index` opened from it again
    /// (settings and schema then come from meta.json, not from the object that created the index)
    pub raw_dir: Box<dyn Directory>,
    pub index: Index,
    pub fields: Fields,
    pub writer: Option<IndexWriter>,
    pub cfg: Config,
    /// opstamps returned by the calls of the current transaction
    pub txn_opstamps: Vec<u64>,
    pub last_commit_opstamp: Option<u64>,
    /// delete_all_documents was called in the current transaction (the committed segments listed in
    /// meta.json are no longer registered with the writer: merging them would be a usage error)
    pub delete_all_pending: bool,
    /// number of document groups handed to the writer so far (process-wide counter base included)
    pub groups_expected: u64,
    /// the merge-everything policy has been switched on (eager phases: after the prefix)
    pub eager_on: bool,
}

pub fn new_writer(index: &Index, cfg: &Config) -> tantivy::Result<IndexWriter> {
    let opts = IndexWriterOptions::builder().num_worker_threads(cfg.workers).memory_budget_per_thread(15_000_000).num_merge_threads(1).build();
    let w: IndexWriter = index.writer_with_options(opts)?;
    w.set_merge_policy(Box::new(NoMergePolicy));
    Ok(w)
}

impl Harness {
    pub fn create(dir: Box<dyn Directory>, cfg: &Config) -> tantivy::Result<Harness> {
        let (schema, fields) = schema();
        let settings = IndexSettings {
            sort_by_field: cfg.sort.as_ref().map(|(f, asc)| tantivy::IndexSortByField { field: f.clone(), order: if *asc { tantivy::Order::Asc } else { tantivy::Order::Desc } }),
            docstore_compress_dedicated_thread: false,
            ..IndexSettings::default()
        };
        let raw_dir = dir.box_clone();
        let index = Index::create(dir, schema, settings)?;
        let writer = new_writer(&index, cfg)?;
        Ok(Harness { raw_dir, index, fields, writer: Some(writer), cfg: cfg.clone(), txn_opstamps: vec![], last_commit_opstamp: None, delete_all_pending: false, groups_expected: SEGMENTS_ADDED.load(std::sync::atomic::Ordering::SeqCst), eager_on: false })
    }

    /// switch the merge-everything policy on (it applies at the next merge trigger, and to writers opened later)
    pub fn enable_eager_merges(&mut self) {
        self.eager_on = true;
        if let Some(w) = self.writer.as_ref() {
            w.set_merge_policy(Box::new(EagerMergePolicy));
        }
    }

    fn reopen_writer(&mut self) -> tantivy::Result<()> {
        self.index = Index::open(self.raw_dir.box_clone())?;
        let w = new_writer(&self.index, &self.cfg)?;
        if self.eager_on {
            w.set_merge_policy(Box::new(EagerMergePolicy));
        }
        self.writer = Some(w);
        Ok(())
    }

    fn w(&mut self) -> &mut IndexWriter {
        self.writer.as_mut().unwrap()
    }

    fn key_term(&self, key: &str) -> Term {
        Term::from_field_text(self.fields.k, key)
    }

    /// Executes one operation on the real writer. `model` is the reference *before* the operation (used
    /// for ids). Returns an error string for API failures and opstamp-contract violations.
    pub fn exec(&mut self, op: Op, model: &RefIndex) -> Result<(), (String, String)> {
        let r = self.exec_inner(op, model);
        if self.cfg.eager_merges {
            // canonical schedule of the eager-merge phases: every document group becomes a segment and every
            // merge it triggers finishes before the next operation (other interleavings: scheduler scenarios)
            if matches!(op, Op::AddA | Op::AddB | Op::RunBatch) && r.is_ok() {
                self.groups_expected += 1;
                wait_segments_added(self.groups_expected);
            }
            wait_merges_quiescent();
            self.groups_expected = SEGMENTS_ADDED.load(std::sync::atomic::Ordering::SeqCst);
        }
        r
    }

    fn exec_inner(&mut self, op: Op, model: &RefIndex) -> Result<(), (String, String)> {
        let api = |e: tantivy::TantivyError, what: &str| ("api_call_failed".to_string(), format!("{what}: {e:?}"));
        let next_id = model.next_id;
        match op {
            Op::AddA | Op::AddB => {
                let key = if op == Op::AddA { "a" } else { "b" };
                let d = make_doc(&self.fields, next_id, key);
                let o = self.w().add_document(d).map_err(|e| api(e, "add_document"))?;
                self.note_opstamp(o)?;
            }
            Op::DelA | Op::DelB => {
                let t = self.key_term(if op == Op::DelA { "a" } else { "b" });
                let o = self.w().delete_term(t);
                self.note_opstamp(o)?;
            }
            Op::DelLastId => {
                if let Some(id) = model.last_added {
                    let t = Term::from_field_u64(self.fields.id, id);
                    let o = self.w().delete_term(t);
                    self.note_opstamp(o)?;
                }
            }
            Op::DelQueryA => {
                let q: Box<dyn Query> = Box::new(BooleanQuery::new(vec![
                    (Occur::Must, Box::new(TermQuery::new(self.key_term("a"), IndexRecordOption::Basic)) as Box<dyn Query>),
                    (Occur::MustNot, Box::new(TermQuery::new(Term::from_field_u64(self.fields.id, model.first_id), IndexRecordOption::Basic)) as Box<dyn Query>),
                ]));
                let o = self.w().delete_query(q).map_err(|e| api(e, "delete_query"))?;
                self.note_opstamp(o)?;
            }
            Op::RunBatch => {
                let ops = vec![
                    UserOperation::Add(make_doc(&self.fields, next_id, "a")),
                    UserOperation::Delete(self.key_term("a")),
                    UserOperation::Add(make_doc(&self.fields, next_id + 1, "a")),
                ];
                let o = self.w().run(ops).map_err(|e| api(e, "run"))?;
                self.note_opstamp(o)?;
            }
            Op::DeleteAll => {
                self.delete_all_pending = true;
                self.w().delete_all_documents().map_err(|e| api(e, "delete_all_documents"))?;
                // the opstamp returned here is documented as the last commit's: not part of the increasing sequence
            }
            Op::Commit => {
                self.delete_all_pending = false;
                let o = self.w().commit().map_err(|e| api(e, "commit"))?;
                self.note_commit(o, None)?;
            }
            Op::CommitPayload => {
                self.delete_all_pending = false;
                let payload = format!("payload-{}", model.ncommits + 1);
                let mut pc = self.w().prepare_commit().map_err(|e| api(e, "prepare_commit"))?;
                pc.set_payload(&payload);
                let o = pc.commit().map_err(|e| api(e, "PreparedCommit::commit"))?;
                self.note_commit(o, Some(payload))?;
            }
            Op::PrepAbort => {
                self.delete_all_pending = false;
                let pc = self.w().prepare_commit().map_err(|e| api(e, "prepare_commit"))?;
                pc.abort().map_err(|e| api(e, "PreparedCommit::abort"))?;
                self.txn_opstamps.clear();
            }
            Op::Rollback => {
                self.delete_all_pending = false;
                self.w().rollback().map_err(|e| api(e, "rollback"))?;
                // rollback builds a fresh writer with the default merge policy: restore the scenario's
                let eager = self.eager_on;
                if let Some(w) = self.writer.as_ref() {
                    if eager {
                        w.set_merge_policy(Box::new(EagerMergePolicy));
                    } else {
                        w.set_merge_policy(Box::new(NoMergePolicy));
                    }
                }
                self.txn_opstamps.clear();
            }
            Op::MergeAll => {
                let ids: Vec<SegmentId> = self.index.searchable_segment_ids().map_err(|e| api(e, "searchable_segment_ids"))?;
                if ids.len() >= 2 && !self.delete_all_pending {
                    let r = self.w().merge(&ids).wait();
                    if let Err(e) = r {
                        // with a merge policy running, the listed segments may already be in a merge or gone
                        if !self.cfg.eager_merges {
                            return Err(api(e, "merge"));
                        }
                    }
                }
            }
            Op::Reopen => {
                self.delete_all_pending = false;
                self.writer = None;
                self.reopen_writer().map_err(|e| api(e, "writer (reopen)"))?;
                self.txn_opstamps.clear();
            }
            Op::WaitMergeReopen => {
                self.delete_all_pending = false;
                let w = self.writer.take().unwrap();
                w.wait_merging_threads().map_err(|e| api(e, "wait_merging_threads"))?;
                self.reopen_writer().map_err(|e| api(e, "writer (reopen)"))?;
                self.txn_opstamps.clear();
            }
        }
        Ok(())
    }

    fn note_opstamp(&mut self, o: u64) -> Result<(), (String, String)> {
        if let Some(&last) = self.txn_opstamps.last() {
            if o <= last {
                return Err(("opstamps_not_increasing".into(), format!("call returned opstamp {o} after {last} in the same transaction")));
            }
        }
        self.txn_opstamps.push(o);
        Ok(())
    }

    fn note_commit(&mut self, o: u64, payload: Option<String>) -> Result<(), (String, String)> {
        if let Some(&mx) = self.txn_opstamps.iter().max() {
            if o <= mx {
                return Err(("commit_opstamp_not_larger".into(), format!("commit returned opstamp {o}, an included operation had {mx}")));
            }
        }
        self.txn_opstamps.clear();
        self.last_commit_opstamp = Some(o);
        let meta = self.index.load_metas().map_err(|e| ("api_call_failed".to_string(), format!("load_metas: {e:?}")))?;
        if meta.opstamp != o {
            return Err(("meta_opstamp_differs".into(), format!("commit returned {o} but meta.json reports opstamp {}", meta.opstamp)));
        }
        if let Some(p) = payload {
            if meta.payload.as_deref() != Some(p.as_str()) {
                return Err(("meta_payload_differs".into(), format!("payload {:?} expected {p:?}", meta.payload)));
            }
        }
        let w = self.writer.as_ref().unwrap().commit_opstamp();
        if w != o {
            return Err(("writer_commit_opstamp_stale".into(), format!("commit returned {o} but IndexWriter::commit_opstamp() reports {w}")));
        }
        Ok(())
    }

    /// the committed state as a fresh reader sees it: (id, key) of every live document, checked for
    /// internal consistency (stored fields, fast fields, postings agree)
    pub fn observe(&self) -> Result<Vec<MDoc>, (String, String)> {
        if self.cfg.eager_merges {
            wait_merges_quiescent();
        }
        let reader = self.index.reader().map_err(|e| ("reader_failed".to_string(), format!("{e:?}")))?;
        let searcher = reader.searcher();
        observe_searcher(&searcher, &self.fields)
    }
}

pub fn observe_searcher(searcher: &Searcher, f: &Fields) -> Result<Vec<MDoc>, (String, String)> {
    use tantivy::schema::document::Value as _;
    let mut out = vec![];
    for (ord, seg) in searcher.segment_readers().iter().enumerate() {
        let ids = seg.fast_fields().u64("id").map_err(|e| ("reader_failed".to_string(), format!("{e:?}")))?;
        let ks = seg.fast_fields().str("k").map_err(|e| ("reader_failed".to_string(), format!("{e:?}")))?.ok_or(("reader_failed".to_string(), "no k column".to_string()))?;
        for d in seg.doc_ids_alive() {
            let id = ids.first(d).ok_or(("doc_inconsistent".to_string(), format!("segment {ord} doc {d} has no id fast value")))?;
            let mut key = String::new();
            let ord_k = ks.term_ords(d).next().ok_or(("doc_inconsistent".to_string(), format!("doc id {id} has no k fast value")))?;
            ks.ord_to_str(ord_k, &mut key).map_err(|e| ("reader_failed".to_string(), e.to_string()))?;
            let stored: TantivyDocument = searcher.doc(tantivy::DocAddress::new(ord as u32, d)).map_err(|e| ("doc_fetch_failed".to_string(), format!("{e:?}")))?;
            let sid = stored.get_first(f.id).and_then(|v| v.as_u64());
            let sk = stored.get_first(f.k).and_then(|v| v.as_str().map(|s| s.to_string()));
            let sbody = stored.get_first(f.body).and_then(|v| v.as_str().map(|s| s.to_string()));
            if sid != Some(id) || sk.as_deref() != Some(key.as_str()) || sbody.as_deref() != Some(format!("{key} doc{id} {key}").as_str()) {
                return Err(("doc_inconsistent".into(), format!("doc id {id}: fast (id {id}, k {key}) vs stored (id {sid:?}, k {sk:?}, body {sbody:?})")));
            }
            out.push(MDoc { id, key });
        }
    }
    // postings agree: doc_freq-independent check through term queries
    for key in ["a", "b"] {
        let q = TermQuery::new(Term::from_field_text(f.k, key), IndexRecordOption::Basic);
        let n = searcher.search(&q, &tantivy::collector::Count).map_err(|e| ("search_failed".to_string(), format!("{e:?}")))?;
        let want = out.iter().filter(|d| d.key == key).count();
        if n != want {
            return Err(("postings_disagree".into(), format!("term query k:{key} counts {n} live documents, fast / stored fields show {want}")));
        }
        let qb = TermQuery::new(Term::from_field_text(f.body, key), IndexRecordOption::Basic);
        let nb = searcher.search(&qb, &tantivy::collector::Count).map_err(|e| ("search_failed".to_string(), format!("{e:?}")))?;
        if nb != want {
            return Err(("postings_disagree".into(), format!("term query body:{key} counts {nb}, expected {want}")));
        }
    }
    // multi-valued fast field: the values of a document in the order they were recorded; field norms of every
    // text field (body holds 3 tokens, wf holds id % 3 + 2)
    {
        let body = searcher.schema().get_field("body").map_err(|e| ("reader_failed".to_string(), e.to_string()))?;
        let wf = searcher.schema().get_field("wf").map_err(|e| ("reader_failed".to_string(), e.to_string()))?;
        for seg in searcher.segment_readers() {
            let ids = seg.fast_fields().u64("id").map_err(|e| ("reader_failed".to_string(), format!("{e:?}")))?;
            let mv = seg.fast_fields().u64("mv").map_err(|e| ("reader_failed".to_string(), format!("{e:?}")))?;
            let nb = seg.get_fieldnorms_reader(body).map_err(|e| ("reader_failed".to_string(), format!("{e:?}")))?;
            let nw = seg.get_fieldnorms_reader(wf).map_err(|e| ("reader_failed".to_string(), format!("{e:?}")))?;
            for d in seg.doc_ids_alive() {
                let id = ids.first(d).unwrap_or(u64::MAX);
                let got: Vec<u64> = mv.values_for_doc(d).collect();
                if got != mv_values(id) {
                    return Err(("doc_inconsistent".into(), format!("doc id {id}: the multi-valued fast field holds {got:?}, the document was added with {:?}", mv_values(id))));
                }
                let (fb, fw) = (nb.fieldnorm(d), nw.fieldnorm(d));
                if fb != 3 || fw as u64 != id % 3 + 2 {
                    return Err(("doc_inconsistent".into(), format!("doc id {id}: field norms body = {fb} (3 tokens were indexed), wf = {fw} ({} tokens were indexed)", id % 3 + 2)));
                }
            }
        }
    }
    // frequency-only postings: every live document under its key with its term frequency
    {
        let wf = searcher.schema().get_field("wf").map_err(|e| ("reader_failed".to_string(), e.to_string()))?;
        for key in ["a", "b", "all"] {
            let term = Term::from_field_text(wf, key);
            let mut seen: Vec<(u64, u32)> = vec![];
            for seg in searcher.segment_readers() {
                let ids = seg.fast_fields().u64("id").map_err(|e| ("reader_failed".to_string(), format!("{e:?}")))?;
                let inv = seg.inverted_index(wf).map_err(|e| ("reader_failed".to_string(), format!("{e:?}")))?;
                if let Some(mut p) = inv.read_postings(&term, IndexRecordOption::WithFreqs).map_err(|e| ("reader_failed".to_string(), format!("{e:?}")))? {
                    use tantivy::postings::Postings;
                    use tantivy::DocSet;
                    while p.doc() != tantivy::TERMINATED {
                        let d = p.doc();
                        if d >= seg.max_doc() {
                            return Err(("postings_disagree".into(), format!("wf:{key} posting list holds doc {d}, the segment has {} documents", seg.max_doc())));
                        }
                        if !seg.is_deleted(d) {
                            seen.push((ids.first(d).unwrap_or(u64::MAX), p.term_freq()));
                        }
                        p.advance();
                    }
                }
            }
            seen.sort();
            let mut want: Vec<(u64, u32)> = out.iter().filter(|d| key == "all" || d.key == key).map(|d| (d.id, if key == "all" { 1 } else { (d.id % 3 + 1) as u32 })).collect();
            want.sort();
            if seen != want {
                return Err(("postings_disagree".into(), format!("frequency-only postings of wf:{key} list (id, tf) {seen:?}; the live documents give {want:?}")));
            }
        }
    }
    // JSON terms of every scalar type
    {
        let js = searcher.schema().get_field("js").map_err(|e| ("reader_failed".to_string(), e.to_string()))?;
        let qp = tantivy::query::QueryParser::for_index(searcher.index(), vec![js]);
        let mut probes: Vec<(String, Box<dyn Fn(&MDoc) -> bool>)> = vec![];
        for n in 0..3u64 {
            probes.push((format!("js.n:{n}"), Box::new(move |d: &MDoc| d.id % 3 == n)));
        }
        probes.push(("js.b:true".to_string(), Box::new(|d: &MDoc| d.id % 2 == 0)));
        probes.push(("js.b:false".to_string(), Box::new(|d: &MDoc| d.id % 2 == 1)));
        probes.push(("js.t:a".to_string(), Box::new(|d: &MDoc| d.key == "a")));
        for (text, pred) in probes {
            let q = qp.parse_query(&text).map_err(|e| ("search_failed".to_string(), format!("{text}: {e:?}")))?;
            let hits = searcher.search(&q, &tantivy::collector::DocSetCollector).map_err(|e| ("search_failed".to_string(), format!("{e:?}")))?;
            let mut got: Vec<u64> = vec![];
            for a in hits {
                let ids = searcher.segment_reader(a.segment_ord).fast_fields().u64("id").map_err(|e| ("reader_failed".to_string(), format!("{e:?}")))?;
                got.push(ids.first(a.doc_id).unwrap_or(u64::MAX));
            }
            got.sort();
            let mut want: Vec<u64> = out.iter().filter(|d| pred(d)).map(|d| d.id).collect();
            want.sort();
            if got != want {
                return Err(("postings_disagree".into(), format!("JSON term query {text} matches ids {got:?}; the live documents give {want:?}")));
            }
        }
    }
    out.sort_by_key(|d| d.id);
    Ok(out)
}

pub fn show_docs(v: &[MDoc]) -> String {
    format!("[{}]", v.iter().map(|d| format!("{}:{}", d.id, d.key)).collect::<Vec<_>>().join(" "))
}

/// Process-wide hook handler of the history engine: segment cut after N documents, and counters of
/// scheduled / finished merges so that observations can wait until background merges are over.
pub struct HistHandler {
    pub flush: Option<u32>,
}
pub static MERGES_SCHEDULED: std::sync::atomic::AtomicU64 = std::sync::atomic::AtomicU64::new(0);
pub static MERGES_DONE: std::sync::atomic::AtomicU64 = std::sync::atomic::AtomicU64::new(0);
pub static SEGMENTS_ADDED: std::sync::atomic::AtomicU64 = std::sync::atomic::AtomicU64::new(0);

impl tantivy::verif_hooks::VerifHandler for HistHandler {
    fn flush_after_docs(&self) -> Option<u32> {
        self.flush
    }
    fn point(&self, name: &'static str) {
        use std::sync::atomic::Ordering::SeqCst;
        match name {
            "merge:scheduled" => {
                MERGES_SCHEDULED.fetch_add(1, SeqCst);
            }
            "merge:done" => {
                MERGES_DONE.fetch_add(1, SeqCst);
            }
            "worker:added" => {
                SEGMENTS_ADDED.fetch_add(1, SeqCst);
            }
            _ => {}
        }
    }
}

pub fn set_flush_after(n: Option<u32>) {
    tantivy::verif_hooks::set_handler(Some(Arc::new(HistHandler { flush: n }) as Arc<dyn tantivy::verif_hooks::VerifHandler>));
}

/// Wait until the indexing workers have turned `expected` document groups into segments (only meaningful
/// when every group is cut into its own segment by the hook).
pub fn wait_segments_added(expected: u64) {
    use std::sync::atomic::Ordering::SeqCst;
    let t0 = std::time::Instant::now();
    while SEGMENTS_ADDED.load(SeqCst) < expected && t0.elapsed() < std::time::Duration::from_secs(3) {
        std::thread::sleep(std::time::Duration::from_micros(100));
    }
}

/// Wait until every scheduled background merge has finished (bounded; a merge that panicked never reports).
pub fn wait_merges_quiescent() {
    use std::sync::atomic::Ordering::SeqCst;
    let t0 = std::time::Instant::now();
    let mut stable = 0;
    while t0.elapsed() < std::time::Duration::from_secs(5) {
        if MERGES_SCHEDULED.load(SeqCst) == MERGES_DONE.load(SeqCst) {
            stable += 1;
            if stable >= 3 {
                return;
            }
            std::thread::sleep(std::time::Duration::from_micros(300));
        } else {
            stable = 0;
            std::thread::sleep(std::time::Duration::from_micros(200));
        }
    }
}

#[allow(dead_code)]
pub fn by_id(v: &[MDoc]) -> BTreeMap<u64, String> {
    v.iter().map(|d| (d.id, d.key.clone())).collect()
}
