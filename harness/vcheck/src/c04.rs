//! C04 - merging never changes the logical content of the index (E-SEQ part: every merge validated as a
//! translation from the canonical dumps of its sources to the canonical dump of its output).
use std::collections::BTreeMap;
use std::panic::{catch_unwind, AssertUnwindSafe};

use serde::{Deserialize, Serialize};
use serde_json::{json, Value};
use tantivy::directory::RamDirectory;
use tantivy::fastfield::{write_alive_bitset, AliveBitSet};
use tantivy::index::SegmentId;
use tantivy::indexer::{merge_filtered_segments, merge_indices};
use tantivy::schema::*;
use tantivy::store::Compressor;
use tantivy::{Index, IndexSettings, IndexWriter, TantivyDocument, Term};
use tantivy_common::BitSet;

use crate::common::*;
use crate::dump::*;

pub fn make_schema() -> Schema {
    let mut sb = Schema::builder();
    sb.add_u64_field("id", INDEXED | FAST | STORED);
    sb.add_text_field("txt", TEXT | STORED);
    sb.add_text_field("tags", STRING | FAST | STORED);
    sb.add_i64_field("num", INDEXED | FAST | STORED);
    sb.add_f64_field("f", FAST);
    sb.add_date_field("date", FAST | INDEXED);
    sb.add_ip_addr_field("ip", FAST);
    sb.add_bytes_field("bytes", FAST | STORED);
    sb.add_facet_field("facet", FacetOptions::default());
    sb.add_json_field("js", TEXT | FAST | STORED);
    sb.add_bool_field("flag", FAST | INDEXED);
    sb.build()
}

/// document number `i` (deterministic; covers multi-valued fields, missing values, repeated tokens)
pub fn make_doc(schema: &Schema, i: u64) -> TantivyDocument {
    let f = |n: &str| schema.get_field(n).unwrap();
    let mut d = TantivyDocument::default();
    d.add_u64(f("id"), i);
    let words = ["a", "b", "c", "dd", "e"];
    let mut text = String::new();
    for k in 0..(i % 5 + 1) {
        text.push_str(words[((i * 3 + k) % 5) as usize]);
        text.push(' ');
    }
    if i % 7 == 0 {
        text.push_str(&"long ".repeat(140)); // > 128 positions for one term
    }
    d.add_text(f("txt"), &text);
    if i % 3 == 0 {
        d.add_text(f("txt"), "second value a");
    }
    for k in 0..(i % 3) {
        d.add_text(f("tags"), format!("tag{}", (i + k) % 4));
    }
    if i % 4 != 1 {
        d.add_i64(f("num"), i as i64 % 6 - 2);
    }
    if i % 5 == 0 {
        d.add_i64(f("num"), 100);
    }
    d.add_f64(f("f"), i as f64 * 0.5);
    if i % 2 == 0 {
        d.add_date(f("date"), tantivy::DateTime::from_timestamp_secs(1_600_000_000 + (i as i64 % 3) * 86_400));
    }
    d.add_ip_addr(f("ip"), std::net::Ipv6Addr::from(0xffff_0a00_0000u128 + (i as u128 % 5)));
    if i % 3 != 2 {
        d.add_bytes(f("bytes"), &[(i % 4) as u8; 3][..]);
    }
    d.add_facet(f("facet"), Facet::from(["/x/y", "/x/z", "/w"][(i % 3) as usize]));
    let js: BTreeMap<String, OwnedValue> = serde_json::from_value(json!({"t": format!("{} json", words[(i % 5) as usize]), "n": i % 4, "o": {"b": i % 2 == 0}})).unwrap();
    d.add_object(f("js"), js);
    d.add_bool(f("flag"), i % 2 == 1);
    d
}

#[derive(Clone, Debug, Serialize, Deserialize)]
pub struct Case {
    pub sizes: Vec<usize>,
    pub deleted: Vec<usize>,
    /// order in which the source segments are handed to the merge (indexes into `sizes`)
    pub order: Vec<usize>,
    pub blocksize: usize,
    /// compressor per source segment (the last is the merge target)
    pub compressors: Vec<String>,
    /// "writer" = IndexWriter::merge, "indices" = merge_indices, "filtered" = merge_filtered_segments
    pub api: String,
}

fn comp(s: &str) -> Compressor {
    match s {
        "none" => Compressor::None,
        _ => Compressor::Lz4,
    }
}

fn settings(c: &Case, i: usize) -> IndexSettings {
    IndexSettings { docstore_blocksize: c.blocksize, docstore_compression: comp(&c.compressors[i.min(c.compressors.len() - 1)]), docstore_compress_dedicated_thread: false, ..IndexSettings::default() }
}

fn bitset_to_alive(max_doc: u32, deleted: &[u32]) -> AliveBitSet {
    let mut bs = BitSet::with_max_value_and_full(max_doc);
    for &d in deleted {
        bs.remove(d);
    }
    let mut buf = vec![];
    write_alive_bitset(&bs, &mut buf).unwrap();
    AliveBitSet::open(tantivy::directory::OwnedBytes::new(buf))
}

fn dump_all(index: &Index) -> Result<BTreeMap<SegmentId, SegDump>, String> {
    let searcher = index.reader().map_err(|e| e.to_string())?.searcher();
    let schema = index.schema();
    let mut out = BTreeMap::new();
    for seg in searcher.segment_readers() {
        out.insert(seg.segment_id(), dump_segment(seg, &schema)?);
    }
    Ok(out)
}

fn first_difference(got: &[DocRecord], want: &[DocRecord]) -> String {
    if got.len() != want.len() {
        return format!("{} live documents in the merged segment, {} in the sources", got.len(), want.len());
    }
    for (i, (g, w)) in got.iter().zip(want.iter()).enumerate() {
        if g == w {
            continue;
        }
        if g.stored != w.stored {
            return format!("document #{i}: stored fields {} vs {}", trunc(&g.stored), trunc(&w.stored));
        }
        if g.fast != w.fast {
            let k = g.fast.keys().chain(w.fast.keys()).find(|k| g.fast.get(*k) != w.fast.get(*k)).unwrap();
            return format!("document #{i} ({}): fast field {k}: {:?} vs {:?}", trunc(&w.stored), g.fast.get(k), w.fast.get(k));
        }
        if g.fieldnorms != w.fieldnorms {
            return format!("document #{i} ({}): field norms {:?} vs {:?}", trunc(&w.stored), g.fieldnorms, w.fieldnorms);
        }
        for (field, wt) in &w.postings {
            let gt = g.postings.get(field);
            if gt != Some(wt) {
                let empty = BTreeMap::new();
                let gt = gt.unwrap_or(&empty);
                let term = wt.keys().chain(gt.keys()).find(|t| wt.get(*t) != gt.get(*t)).unwrap();
                return format!("document #{i} ({}): field {field} term {:?}: (tf, positions) {:?} vs {:?}", trunc(&w.stored), String::from_utf8_lossy(term), gt.get(term), wt.get(term));
            }
        }
        return format!("document #{i}: postings of a field present only in the merged segment");
    }
    "no difference".into()
}

fn trunc(s: &str) -> String {
    if s.len() > 90 {
        format!("{}..", &s[..90])
    } else {
        s.to_string()
    }
}

pub fn check_case(c: &Case, st: &mut Stats) -> Option<(String, String)> {
    let schema = make_schema();
    let idf = schema.get_field("id").unwrap();
    let total: usize = c.sizes.iter().sum();
    // build: one index (writer api) or one index per source (indices / filtered)
    let separate = c.api != "writer";
    let mut indexes: Vec<Index> = vec![];
    let mut seg_ids: Vec<SegmentId> = vec![];
    let mut k = 0u64;
    let mut index = crate::orv!(Index::builder().schema(schema.clone()).settings(settings(c, 0)).create_in_ram(), "Index::builder().schema(schema.clone()).settings(s");
    for (si, &sz) in c.sizes.iter().enumerate() {
        if separate && si > 0 {
            indexes.push(index);
            index = crate::orv!(Index::builder().schema(schema.clone()).settings(settings(c, 0)).create_in_ram(), "Index::builder().schema(schema.clone()).settings(s");
        }
        *index.settings_mut() = settings(c, if separate { 0 } else { si });
        let mut w: IndexWriter = crate::orv!(index.writer_with_num_threads(1, 30_000_000), "index.writer_with_num_threads(1 30_000_000)");
        w.set_merge_policy(Box::new(tantivy::merge_policy::NoMergePolicy));
        for _ in 0..sz {
            crate::orv!(w.add_document(make_doc(&schema, k)), "w.add_document(make_doc( schema k))");
            k += 1;
        }
        crate::orv!(w.commit(), "w.commit()");
        for id in crate::orv!(index.searchable_segment_ids(), "index.searchable_segment_ids()") {
            if !seg_ids.contains(&id) {
                seg_ids.push(id);
            }
        }
        drop(w);
    }
    indexes.push(index);
    // deletes (by id) committed in the owning index; for "filtered" the deletes become custom alive sets instead
    let filtered = c.api == "filtered";
    if !filtered && !c.deleted.is_empty() {
        for index in &indexes {
            let mut w: IndexWriter = crate::orv!(index.writer_with_num_threads(1, 30_000_000), "index.writer_with_num_threads(1 30_000_000)");
            w.set_merge_policy(Box::new(tantivy::merge_policy::NoMergePolicy));
            for &d in &c.deleted {
                w.delete_term(Term::from_field_u64(idf, d as u64));
            }
            crate::orv!(w.commit(), "w.commit()");
        }
    }
    // source dumps, in source order
    let mut src_records: Vec<Vec<DocRecord>> = vec![];
    let mut src_alive_all: Vec<bool> = vec![];
    let mut base = 0usize;
    for (si, &sz) in c.sizes.iter().enumerate() {
        let index = if separate { &indexes[si] } else { &indexes[0] };
        let dumps = match dump_all(index) {
            Ok(d) => d,
            Err(e) => return Some(("source_dump_error".into(), e)),
        };
        let sid = seg_ids[si];
        let recs = match dumps.get(&sid) {
            Some(d) => {
                let mut d = d.clone();
                if filtered {
                    // custom alive set: positions of the deleted ids inside this source
                    for (j, a) in d.alive.iter_mut().enumerate() {
                        if c.deleted.contains(&(base + j)) {
                            *a = false;
                        }
                    }
                }
                records_of(&d)
            }
            None => vec![], // the source lost all its documents and disappeared with the commit
        };
        src_alive_all.push(!recs.is_empty());
        src_records.push(recs);
        base += sz;
    }
    let want: Vec<DocRecord> = c.order.iter().flat_map(|&s| src_records[s].iter().cloned()).collect();
    if want.is_empty() && c.api == "indices" {
        // nothing is left to merge: merge_indices documents an InvalidArgument error for that
        st.count("empty_merge_results");
        return None;
    }
    // merge
    let merged_index: Index = match c.api.as_str() {
        "writer" => {
            let index = &mut indexes[0];
            *index.settings_mut() = settings(c, c.compressors.len() - 1);
            let ids: Vec<SegmentId> = c.order.iter().filter(|&&s| src_alive_all[s]).map(|&s| seg_ids[s]).collect();
            let mut w: IndexWriter = crate::orv!(index.writer_with_num_threads(1, 30_000_000), "index.writer_with_num_threads(1 30_000_000)");
            w.set_merge_policy(Box::new(tantivy::merge_policy::NoMergePolicy));
            if ids.len() >= 2 || (ids.len() == 1 && !c.deleted.is_empty()) {
                if let Err(e) = w.merge(&ids).wait() {
                    return Some(("merge_failed".into(), format!("{e:?}")));
                }
                st.count("writer_merges");
            }
            crate::orv!(w.wait_merging_threads(), "w.wait_merging_threads()");
            indexes[0].clone()
        }
        "indices" => {
            let ordered: Vec<Index> = c.order.iter().map(|&s| indexes[s].clone()).collect();
            match merge_indices(&ordered, RamDirectory::create()) {
                Ok(i) => {
                    st.count("merge_indices");
                    i
                }
                Err(e) => return Some(("merge_failed".into(), format!("merge_indices: {e:?}"))),
            }
        }
        _ => {
            let mut segs = vec![];
            let mut filters = vec![];
            let mut base_of = vec![0usize; c.sizes.len()];
            let mut b = 0;
            for (i, s) in c.sizes.iter().enumerate() {
                base_of[i] = b;
                b += s;
            }
            for &s in &c.order {
                let seg = crate::orv!(indexes[s].searchable_segments(), "indexes s .searchable_segments()").into_iter().next()?;
                let del: Vec<u32> = c.deleted.iter().filter(|&&d| d >= base_of[s] && d < base_of[s] + c.sizes[s]).map(|&d| (d - base_of[s]) as u32).collect();
                filters.push(if del.is_empty() { None } else { Some(bitset_to_alive(c.sizes[s] as u32, &del)) });
                segs.push(seg);
            }
            match merge_filtered_segments(&segs, settings(c, 0), filters, RamDirectory::create()) {
                Ok(i) => {
                    st.count("merge_filtered");
                    i
                }
                Err(e) => return Some(("merge_failed".into(), format!("merge_filtered_segments: {e:?}"))),
            }
        }
    };
    let dumps = match dump_all(&merged_index) {
        Ok(d) => d,
        Err(e) => return Some(("merged_dump_error".into(), e)),
    };
    if want.is_empty() {
        st.count("empty_merge_results");
        let live: usize = dumps.values().map(|d| d.alive.iter().filter(|a| **a).count()).sum();
        if live != 0 {
            return Some(("empty_merge_not_empty".into(), format!("every source document was deleted but {live} documents are alive after the merge")));
        }
        return None;
    }
    if dumps.len() != 1 {
        return Some(("merge_left_several_segments".into(), format!("{} segments after the merge", dumps.len())));
    }
    let md = dumps.values().next().unwrap();
    // merged segment must not carry deletes, stale terms or wrong doc_freqs
    if md.alive.iter().any(|a| !*a) {
        return Some(("merged_segment_has_deletes".into(), "the merged segment still has deleted documents".into()));
    }
    for (fname, fd) in &md.fields {
        for (i, (term, list)) in fd.terms.iter().enumerate() {
            if list.is_empty() {
                return Some(("stale_term_in_merged_dictionary".into(), format!("field {fname}: term {:?} has no document left", String::from_utf8_lossy(term))));
            }
            if fd.doc_freqs[i] as usize != list.len() {
                return Some(("merged_doc_freq_differs".into(), format!("field {fname} term {:?}: doc_freq {} for {} documents", String::from_utf8_lossy(term), fd.doc_freqs[i], list.len())));
            }
        }
    }
    // the merged segment's token total agrees with its documents (field norms are exact below 40 tokens)
    for (fname, fd) in &md.fields {
        if let Some(norms) = &fd.fieldnorms {
            if !norms.is_empty() && norms.iter().all(|n| *n < 40) && fd.record.is_some() {
                let sum: u64 = norms.iter().map(|n| *n as u64).sum();
                st.count("merged_token_totals");
                if fd.total_num_tokens != sum {
                    return Some(("merged_total_num_tokens_differs".into(), format!("field {fname}: the merged segment reports {} tokens in total, its documents hold {sum}", fd.total_num_tokens)));
                }
            }
        }
    }
    let got = records_of(md);
    if got != want {
        return Some(("merged_content_differs".into(), first_difference(&got, &want)));
    }
    if c.deleted.is_empty() && total > 0 {
        st.count("merges_without_deletes");
    } else {
        st.count("merges_with_deletes");
    }
    None
}

pub fn replay(case: &Value) -> Vec<Violation> {
    quiet_panics();
    let Ok(c) = serde_json::from_value::<Case>(case.clone()) else { return vec![] };
    let mut st = Stats::default();
    match catch_unwind(AssertUnwindSafe(|| check_case(&c, &mut st))) {
        Ok(None) => vec![],
        Ok(Some((r, w))) => vec![Violation::new(&r, w, case.clone())],
        Err(e) => vec![Violation::new("merge_panic", panic_message(e), case.clone())],
    }
}

pub fn replay_any(case: &Value) -> Vec<Violation> {
    if case.get("point").is_some() {
        return crate::preempt_family::replay(case);
    }
    if case.get("history").is_some() {
        return crate::c02::replay(case);
    }
    replay(case)
}

pub fn run(ctx: &Ctx) -> Report {
    quiet_panics();
    let mut rep = Report::new("translation_validation");
    let thorough = ctx.tier.is_thorough();
    let mut cases: Vec<Case> = vec![];
    let shapes: Vec<Vec<usize>> = if thorough { vec![vec![1], vec![2], vec![1, 1], vec![2, 1], vec![1, 2], vec![2, 2], vec![3, 2], vec![1, 1, 1], vec![2, 1, 2], vec![3, 3]] } else { vec![vec![2], vec![1, 1], vec![2, 1], vec![2, 2], vec![1, 1, 1], vec![2, 1, 2]] };
    for sizes in &shapes {
        let n: usize = sizes.iter().sum();
        let orders: Vec<Vec<usize>> = match sizes.len() {
            1 => vec![vec![0]],
            2 => vec![vec![0, 1], vec![1, 0]],
            _ => vec![vec![0, 1, 2], vec![2, 0, 1], vec![1, 2, 0]],
        };
        for mask in 0..(1u32 << n) {
            let deleted: Vec<usize> = (0..n).filter(|i| mask >> i & 1 == 1).collect();
            for order in &orders {
                for (bs, comps) in [(16_384usize, vec!["lz4"]), (16, vec!["lz4"]), (16, vec!["none", "lz4"])] {
                    if !thorough && bs == 16 && comps.len() == 2 && mask % 3 != 0 {
                        continue;
                    }
                    let comps: Vec<String> = comps.iter().map(|s| s.to_string()).collect();
                    cases.push(Case { sizes: sizes.clone(), deleted: deleted.clone(), order: order.clone(), blocksize: bs, compressors: comps.clone(), api: "writer".into() });
                    if sizes.len() >= 2 && bs == 16_384 {
                        cases.push(Case { sizes: sizes.clone(), deleted: deleted.clone(), order: order.clone(), blocksize: bs, compressors: comps.clone(), api: "indices".into() });
                        cases.push(Case { sizes: sizes.clone(), deleted: deleted.clone(), order: order.clone(), blocksize: bs, compressors: comps, api: "filtered".into() });
                    }
                }
            }
        }
    }
    // structured: segments crossing the 128-doc posting block / store-block stacking threshold, patterned deletes
    for sizes in [vec![130usize, 40], vec![40, 130, 7], vec![200]] {
        let n: usize = sizes.iter().sum();
        let pats: Vec<Vec<usize>> = vec![vec![], (0..n).filter(|i| i % 5 == 0).collect(), (0..sizes[0]).collect(), vec![0], vec![n - 1], (0..n).filter(|i| i % 2 == 1).collect()];
        for deleted in pats {
            for bs in [16usize, 16_384] {
                for comps in [vec!["lz4".to_string()], vec!["none".to_string(), "lz4".to_string()]] {
                    let order: Vec<usize> = (0..sizes.len()).collect();
                    let mut rev = order.clone();
                    rev.reverse();
                    cases.push(Case { sizes: sizes.clone(), deleted: deleted.clone(), order, blocksize: bs, compressors: comps.clone(), api: "writer".into() });
                    if sizes.len() > 1 {
                        cases.push(Case { sizes: sizes.clone(), deleted: deleted.clone(), order: rev, blocksize: bs, compressors: comps, api: if bs == 16 { "writer".into() } else { "filtered".into() } });
                    }
                }
            }
        }
    }
    cases.sort_by_key(|c| std::cmp::Reverse(c.sizes.iter().sum::<usize>()));
    let (st, done) = par_for(ctx, cases.len(), |i, st| {
        let c = &cases[i];
        st.eval();
        let n: usize = c.sizes.iter().sum();
        if !c.deleted.is_empty() && c.deleted.len() < n {
            st.nontrivial(&(i, &c.sizes, &c.deleted, &c.order, &c.api, c.blocksize));
        }
        if i % 397 == 0 {
            st.sample(serde_json::to_value(c).unwrap());
        }
        let r = catch_unwind(AssertUnwindSafe(|| check_case(c, st)));
        let (rule, what) = match r {
            Ok(None) => return,
            Ok(Some(x)) => x,
            Err(e) => ("merge_panic".to_string(), format!("{} [{}]", panic_message(e), last_panic())),
        };
        st.violation(Violation::new(&rule, format!("sources {:?} deleted {:?} order {:?} blocksize {} compressors {:?} via {}: {what}", c.sizes, &c.deleted[..c.deleted.len().min(8)], c.order, c.blocksize, c.compressors, c.api), serde_json::to_value(c).unwrap()));
    });
    // history family: merges by policy and on uncommitted segments while adds / deletes / commits / rollbacks
    // proceed (the eager-merge phases of the history engine, see c02.rs), under this property's name
    let (hst, hcomplete, hinfo) = crate::c02::run_phases(ctx, "C04", &[1, 4, 5]);
    let mut st = st;
    let hist_evals = hst.evaluations;
    for v in hst.violations.clone() {
        // delete_all_documents / commit_opstamp deviations are C02's recorded findings, not merge matters
        if v.rule.ends_with("_after_delete_all") || v.rule == "writer_commit_opstamp_stale" {
            continue;
        }
        st.violation(v);
    }
    st.errors.extend(hst.errors.clone());
    st.evaluations += hist_evals;
    for s in hst.samples.iter().take(1) {
        st.samples.push(s.clone());
    }
    rep.set("history_phases", Value::Array(hinfo));
    // preemption family: a merge thread preempted in front of every storage operation by writer operations
    let p = crate::preempt_family::run_family(ctx, "C04");
    let pcomplete = p.complete;
    rep.set("preemption_scenarios", Value::Array(p.info));
    rep.set("schedules", p.st.counters.get("preemptions_fired").copied().unwrap_or(0));
    if p.st.counters.get("preemptions_fired").copied().unwrap_or(0) == 0 {
        rep.machinery_errors.push("vacuous: no merge preemption fired".into());
    }
    st.merge(p.st);
    let hcomplete = hcomplete && pcomplete;
    if hist_evals == 0 {
        rep.machinery_errors.push("vacuous: no merge history ran".into());
    }
    rep.set("exhaustive", done == cases.len() && hcomplete);
    rep.set("programs", cases.len() as u64 + hist_evals);
    rep.set("disagreements_checked", st.evaluations);
    rep.set("rule", "every merge of 1-3 source segments of 1-3 documents (all field types, positions, multi-valued fast fields, stored fields, JSON) x every delete subset (incl. a whole source and everything) x source orders x doc-store block size {default, 16 bytes: >= 6 blocks -> stacking} x compressor change between sources and target, through IndexWriter::merge, merge_indices and merge_filtered_segments (custom alive sets); structured sources of 40 / 130 / 200 documents crossing the 128-document block with patterned deletes. plus the history family: every history of 3 (thorough 4) operations under a merge-everything policy with a segment cut after every document (merges of uncommitted and committed segments between all operations) and with explicit merges, checked against the reference model; plus the preemption family: a merge of two committed segments is preempted in front of EVERY storage operation of its merge thread by each of seven writer-side actions (delete + commit; two delete commits; an uncommitted delete; add + delete + rollback; add + commit + collect; deleting a whole source + commit; delete + add + payload commit + uncommitted tail) and by writer drop + new writer + commit: once the merge has ended - published, reconciled with the newer deletes, or discarded - a fresh open shows exactly the last commit, the next commit shows exactly the replayed calls, and the directory is exact. Oracle (dumps): canonical dump of the merged segment == concatenation in source order of the alive documents of the source dumps (stored fields, fast values, field norms, every term's (tf, positions)); no stale term, doc_freq = list length, no deletes left. Non-trivial: some but not all documents deleted; distinct by case");
    for k in ["writer_merges", "merge_indices", "merge_filtered", "empty_merge_results", "merges_with_deletes", "merges_without_deletes"] {
        if st.counters.get(k).copied().unwrap_or(0) == 0 {
            rep.machinery_errors.push(format!("vacuous: {k} = 0"));
        }
    }
    rep.assume("the canonical dump reads every structure through the public readers (C07 / C08 / C09 check those readers against models)");
    rep.merge_stats(&st);
    rep.violations = st.violations;
    rep.machinery_errors.extend(st.errors);
    rep
}
