//! E-CRASH: crash-image enumeration over a SimDirectory operation log (DESIGN.md 2.3).
use std::collections::{BTreeMap, BTreeSet};

use crate::simdir::{LogEntry, Op};

#[derive(Clone, Debug, PartialEq)]
enum Pending {
    /// (inode, log index)
    Set(usize, usize),
    Unlink(usize),
}

impl Pending {
    fn seq(&self) -> usize {
        match self {
            Pending::Set(_, s) | Pending::Unlink(s) => *s,
        }
    }
}

#[derive(Clone, Debug, Default)]
pub struct FsAt {
    inodes: BTreeMap<usize, (Vec<u8>, usize)>, // data, durable_len
    durable: BTreeMap<String, usize>,
    pending: BTreeMap<String, Vec<Pending>>,
}

/// replay a log prefix (the first `k` entries)
pub fn state_at(log: &[LogEntry], k: usize) -> FsAt {
    let mut fs = FsAt::default();
    for (seq, e) in log[..k].iter().enumerate() {
        if !e.ok {
            continue;
        }
        match &e.op {
            Op::Create { path, ino } => {
                fs.inodes.insert(*ino, (vec![], 0));
                fs.pending.entry(path.clone()).or_default().push(Pending::Set(*ino, seq));
            }
            Op::Write { ino, data, .. } => {
                if let Some(i) = fs.inodes.get_mut(ino) {
                    i.0.extend_from_slice(data);
                }
            }
            Op::Terminate { ino, .. } => {
                if let Some(i) = fs.inodes.get_mut(ino) {
                    i.1 = i.0.len();
                }
            }
            Op::AtomicWrite { path, ino, data } => {
                fs.inodes.insert(*ino, (data.clone(), data.len()));
                fs.pending.entry(path.clone()).or_default().push(Pending::Set(*ino, seq));
            }
            Op::Delete { path } => {
                fs.pending.entry(path.clone()).or_default().push(Pending::Unlink(seq));
            }
            Op::SyncDir => {
                for (path, ops) in std::mem::take(&mut fs.pending) {
                    match ops.last() {
                        Some(Pending::Set(i, _)) => {
                            fs.durable.insert(path, *i);
                        }
                        Some(Pending::Unlink(_)) => {
                            fs.durable.remove(&path);
                        }
                        None => {}
                    }
                }
            }
            _ => {}
        }
    }
    fs
}

/// a choice for one path: how many of its pending entry operations survived (0 = none)
/// a choice for one inode: 0 = durable bytes only, 1 = empty, 2 = half, 3 = all but one byte, 4 = complete
#[derive(Clone, Debug, PartialEq, Eq, Hash, serde::Serialize, serde::Deserialize)]
pub struct ImageChoice {
    pub entries: BTreeMap<String, usize>,
    pub contents: BTreeMap<usize, u8>,
}

impl FsAt {
    pub fn pending_paths(&self) -> Vec<String> {
        self.pending.keys().cloned().collect()
    }
    pub fn pending_len(&self, p: &str) -> usize {
        self.pending.get(p).map(|v| v.len()).unwrap_or(0)
    }

    /// true when the surviving entry operations are a prefix of the issue order of all pending entry
    /// operations (what a file system that journals its metadata operations in order can leave behind)
    pub fn order_preserving(&self, entries: &BTreeMap<String, usize>, default_all: bool) -> bool {
        let (mut max_kept, mut min_lost) = (None::<usize>, None::<usize>);
        for (path, ops) in &self.pending {
            let j = entries.get(path).copied().unwrap_or(if default_all { ops.len() } else { 0 });
            for (i, o) in ops.iter().enumerate() {
                if i < j {
                    max_kept = Some(max_kept.map_or(o.seq(), |m| m.max(o.seq())));
                } else {
                    min_lost = Some(min_lost.map_or(o.seq(), |m| m.min(o.seq())));
                }
            }
        }
        match (max_kept, min_lost) {
            (Some(k), Some(l)) => k < l,
            _ => true,
        }
    }

    /// entry map of an image under `entries` choices (missing path = default given by `all`)
    fn namespace(&self, entries: &BTreeMap<String, usize>, default_all: bool) -> BTreeMap<String, usize> {
        let mut ns = self.durable.clone();
        for (path, ops) in &self.pending {
            let j = entries.get(path).copied().unwrap_or(if default_all { ops.len() } else { 0 });
            if j == 0 {
                continue;
            }
            match &ops[j - 1] {
                Pending::Set(i, _) => {
                    ns.insert(path.clone(), *i);
                }
                Pending::Unlink(_) => {
                    ns.remove(path);
                }
            }
        }
        ns
    }

    fn content_of(&self, ino: usize, choice: u8) -> Vec<u8> {
        let (data, dl) = &self.inodes[&ino];
        let (n, dl) = (data.len(), (*dl).min(data.len()));
        // durable bytes are never lost; beyond them: nothing, half, all but one byte, everything
        let len = match choice {
            0 | 1 => dl,
            2 => dl + (n - dl) / 2,
            3 => dl.max(n.saturating_sub(1)),
            _ => n,
        };
        data[..len].to_vec()
    }

    /// inodes reachable in a namespace that are not fully durable
    pub fn volatile_inodes(&self, ns: &BTreeMap<String, usize>) -> Vec<usize> {
        let mut v: Vec<usize> = ns.values().copied().filter(|i| self.inodes.get(i).map(|(d, dl)| *dl < d.len()).unwrap_or(false)).collect();
        v.sort();
        v.dedup();
        v
    }

    pub fn image(&self, c: &ImageChoice, default_all: bool) -> BTreeMap<String, Vec<u8>> {
        let ns = self.namespace(&c.entries, default_all);
        let mut out = BTreeMap::new();
        for (path, ino) in ns {
            let choice = c.contents.get(&ino).copied().unwrap_or(if default_all { 4 } else { 0 });
            out.insert(path, self.content_of(ino, choice));
        }
        out
    }

    /// all images within `dev` deviations of the two extremes, plus all entry subsets when few paths are pending
    pub fn images(&self, dev: usize, subsets_upto: usize) -> Vec<(ImageChoice, bool)> {
        let mut out: Vec<(ImageChoice, bool)> = vec![];
        let paths = self.pending_paths();
        for default_all in [false, true] {
            let base = ImageChoice { entries: BTreeMap::new(), contents: BTreeMap::new() };
            out.push((base.clone(), default_all));
            // deviations: entry prefix choices and content choices
            let mut singles: Vec<(Option<(String, usize)>, Option<(usize, u8)>)> = vec![];
            for p in &paths {
                let n = self.pending_len(p);
                for j in 0..=n {
                    if j == (if default_all { n } else { 0 }) {
                        continue;
                    }
                    singles.push((Some((p.clone(), j)), None));
                }
            }
            // content deviations over inodes that may appear (any inode referenced by durable or pending entries)
            let mut inos: BTreeSet<usize> = self.durable.values().copied().collect();
            for ops in self.pending.values() {
                for o in ops {
                    if let Pending::Set(i, _) = o {
                        inos.insert(*i);
                    }
                }
            }
            for i in inos {
                let (d, dl) = &self.inodes[&i];
                if *dl < d.len() {
                    for ch in 0..5u8 {
                        if ch == (if default_all { 4 } else { 0 }) {
                            continue;
                        }
                        singles.push((None, Some((i, ch))));
                    }
                }
            }
            if dev >= 1 {
                for s in &singles {
                    let mut c = base.clone();
                    if let Some((p, j)) = &s.0 {
                        c.entries.insert(p.clone(), *j);
                    }
                    if let Some((i, ch)) = &s.1 {
                        c.contents.insert(*i, *ch);
                    }
                    out.push((c, default_all));
                }
            }
            if dev >= 2 {
                for a in 0..singles.len() {
                    for b in (a + 1)..singles.len() {
                        let mut c = base.clone();
                        for s in [&singles[a], &singles[b]] {
                            if let Some((p, j)) = &s.0 {
                                c.entries.insert(p.clone(), *j);
                            }
                            if let Some((i, ch)) = &s.1 {
                                c.contents.insert(*i, *ch);
                            }
                        }
                        out.push((c, default_all));
                    }
                }
            }
        }
        // every issue-order prefix of the pending entry operations (ordered metadata journaling), with minimal
        // and complete contents
        let mut seqs: Vec<usize> = self.pending.values().flat_map(|ops| ops.iter().map(|o| o.seq())).collect();
        seqs.sort();
        for cut in &seqs {
            let mut c = ImageChoice { entries: BTreeMap::new(), contents: BTreeMap::new() };
            for (p, ops) in &self.pending {
                c.entries.insert(p.clone(), ops.iter().filter(|o| o.seq() <= *cut).count());
            }
            out.push((c.clone(), true));
            out.push((c, false));
        }
        // all subsets of pending paths (each path: nothing / everything), complete and minimal contents
        if !paths.is_empty() && paths.len() <= subsets_upto {
            for mask in 0..(1u32 << paths.len()) {
                let mut c = ImageChoice { entries: BTreeMap::new(), contents: BTreeMap::new() };
                for (i, p) in paths.iter().enumerate() {
                    c.entries.insert(p.clone(), if mask >> i & 1 == 1 { self.pending_len(p) } else { 0 });
                }
                out.push((c.clone(), true));
                out.push((c, false));
            }
        }
        out
    }
}
