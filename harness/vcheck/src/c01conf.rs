//! E-CONF: binds SimDirectory's durability model to MmapDirectory. The same workload is run on a real
//! MmapDirectory in a child process under strace; the system-call trace is projected onto the model's
//! durability-relevant events and compared with the projection of SimDirectory's log, and the three facts
//! the model grants durability for are checked on the trace itself:
//!   terminate      -> fdatasync / fsync of the file after its last write
//!   atomic_write   -> fdatasync / fsync of the temporary file after its last write and before the rename
//!   sync_directory -> fsync / fdatasync of a descriptor opened on the directory
use std::collections::BTreeMap;
use std::process::Command;

use serde_json::json;

use crate::common::*;
use crate::simdir::{Op, SimDirectory};
use crate::wl::*;

fn ext_of(name: &str) -> String {
    if name == "meta.json" || name == ".managed.json" {
        return name.to_string();
    }
    if name.ends_with(".del") {
        return "del".to_string();
    }
    if name.ends_with(".store.temp") {
        return "store.temp".to_string();
    }
    name.rsplit('.').next().unwrap_or("").to_string()
}

pub fn conf_workloads() -> Vec<(&'static str, Vec<Step>)> {
    use Step::*;
    vec![
        ("commit_delete_merge_gc", vec![Add(1), Add(2), Commit, DelId(1), Add(3), Commit, Merge, Gc, Add(4), Rollback, DelId(2), CommitPayload]),
        ("restart", vec![Add(1), Commit, DropWriter, NewWriter, Add(2), DelId(1), Commit, Gc]),
    ]
}

/// child: runs workload `w` on a real MmapDirectory at `dir`
pub fn child(dir: &str, w: usize) {
    let cfg = WlConfig { workers: 1, dedicated_compressor: false };
    let mut d = Driver::new(SimDirectory::new(), &cfg);
    d.real_dir = Some(tantivy::directory::MmapDirectory::open(dir).expect("open mmap dir"));
    d.create_index().expect("create");
    d.open_writer().expect("writer");
    for s in &conf_workloads()[w].1 {
        assert!(d.step(*s), "step {s:?} failed: {:?}", d.calls.last());
    }
    d.writer = None;
}

fn sim_events(w: usize) -> Vec<String> {
    let cfg = WlConfig { workers: 1, dedicated_compressor: false };
    let sim = SimDirectory::new();
    let mut d = Driver::new(sim.clone(), &cfg);
    d.create_index().unwrap();
    d.open_writer().unwrap();
    for s in &conf_workloads()[w].1 {
        assert!(d.step(*s));
    }
    d.writer = None;
    let mut ev = vec![];
    for e in sim.log() {
        if !e.ok {
            continue;
        }
        match &e.op {
            Op::Create { path, .. } => ev.push(format!("create {}", ext_of(path))),
            Op::Terminate { path, .. } => ev.push(format!("sync_file {}", ext_of(path))),
            Op::AtomicWrite { path, .. } => ev.push(format!("replace {}", ext_of(path))),
            Op::Delete { path } => ev.push(format!("unlink {}", ext_of(path))),
            Op::SyncDir => ev.push("sync_dir".to_string()),
            _ => {}
        }
    }
    ev
}

struct Sys {
    name: String,
    args: String,
    ret: String,
}

fn parse_trace(text: &str) -> Vec<Sys> {
    let mut pending: BTreeMap<String, (String, String)> = BTreeMap::new();
    let mut out = vec![];
    for line in text.lines() {
        let Some((pid, rest)) = line.split_once(' ') else { continue };
        let rest = rest.trim_start();
        if let Some(r) = rest.strip_prefix("<... ") {
            // "<... name resumed>args) = ret"
            let Some((name, tail)) = r.split_once(" resumed>") else { continue };
            let Some((head_name, head_args)) = pending.remove(pid) else { continue };
            if head_name != name {
                continue;
            }
            let (args_tail, ret) = tail.rsplit_once(" = ").unwrap_or((tail, ""));
            out.push(Sys { name: name.to_string(), args: format!("{head_args}{args_tail}"), ret: ret.to_string() });
        } else if let Some(idx) = rest.find('(') {
            let name = rest[..idx].to_string();
            if !name.chars().all(|c| c.is_ascii_alphanumeric() || c == '_') {
                continue;
            }
            let body = &rest[idx + 1..];
            if let Some(b) = body.strip_suffix(" <unfinished ...>") {
                pending.insert(pid.to_string(), (name, b.to_string()));
            } else {
                let (args, ret) = body.rsplit_once(" = ").unwrap_or((body, ""));
                out.push(Sys { name, args: args.to_string(), ret: ret.to_string() });
            }
        }
    }
    out
}

/// path inside the first <...> of a `fd<path>` argument
fn fd_path(arg: &str) -> Option<String> {
    let a = arg.find('<')?;
    let b = arg[a..].find('>')? + a;
    Some(arg[a + 1..b].to_string())
}

fn quoted(args: &str) -> Vec<String> {
    let mut out = vec![];
    let mut it = args.split('"');
    it.next();
    while let Some(s) = it.next() {
        out.push(s.to_string());
        it.next();
    }
    out
}

pub struct ConfResult {
    pub violations: Vec<(String, String)>,
    pub errors: Vec<String>,
    pub events: usize,
    pub syscalls: usize,
}

pub fn run_one(w: usize) -> ConfResult {
    let mut res = ConfResult { violations: vec![], errors: vec![], events: 0, syscalls: 0 };
    let base = format!("{}/harness/target/conf-{}-{}", verif_root(), std::process::id(), w);
    let _ = std::fs::remove_dir_all(&base);
    let dir = format!("{base}/index");
    std::fs::create_dir_all(&dir).unwrap();
    let trace = format!("{base}/trace.txt");
    let exe = std::env::current_exe().unwrap();
    let st = Command::new("strace")
        .args(["-f", "-y", "-s", "0", "-o", &trace, "-e", "trace=openat,open,creat,write,pwrite64,writev,fsync,fdatasync,rename,renameat,renameat2,unlink,unlinkat"])
        .arg(&exe)
        .args(["conf-child", &dir, &w.to_string()])
        .output();
    let ok = matches!(&st, Ok(o) if o.status.success());
    if !ok {
        res.errors.push(format!("conformance child under strace failed: {:?}", st.map(|o| String::from_utf8_lossy(&o.stderr).chars().take(400).collect::<String>())));
        let _ = std::fs::remove_dir_all(&base);
        return res;
    }
    let text = std::fs::read_to_string(&trace).unwrap_or_default();
    let sys = parse_trace(&text);
    res.syscalls = sys.len();
    let prefix = format!("{dir}/");
    // per path: writes since the last data sync
    let mut dirty: BTreeMap<String, bool> = BTreeMap::new();
    let mut real: Vec<String> = vec![];
    for s in &sys {
        if s.ret.starts_with("-1") {
            continue;
        }
        match s.name.as_str() {
            "openat" | "open" | "creat" => {
                let q = quoted(&s.args);
                let Some(p) = q.first() else { continue };
                let Some(name) = p.strip_prefix(&prefix) else { continue };
                if s.args.contains("O_CREAT") && s.args.contains("O_EXCL") {
                    dirty.insert(name.to_string(), false);
                    if !name.starts_with(".tmp") {
                        real.push(format!("create {}", ext_of(name)));
                    }
                }
            }
            "write" | "pwrite64" | "writev" => {
                if let Some(p) = fd_path(&s.args) {
                    if let Some(name) = p.strip_prefix(&prefix) {
                        dirty.insert(name.to_string(), true);
                    }
                }
            }
            "fsync" | "fdatasync" => {
                let Some(p) = fd_path(&s.args) else { continue };
                if p == dir {
                    real.push("sync_dir".to_string());
                } else if let Some(name) = p.strip_prefix(&prefix) {
                    dirty.insert(name.to_string(), false);
                    if !name.starts_with(".tmp") {
                        real.push(format!("sync_file {}", ext_of(name)));
                    }
                }
            }
            "rename" | "renameat" | "renameat2" => {
                let q = quoted(&s.args);
                if q.len() < 2 {
                    continue;
                }
                let (Some(from), Some(to)) = (q[0].strip_prefix(&prefix), q[1].strip_prefix(&prefix)) else { continue };
                if dirty.get(from).copied().unwrap_or(true) {
                    res.violations.push(("atomic_write_renames_unsynced_data".to_string(), format!("MmapDirectory::atomic_write renamed {from} onto {to} although data written to it had not been synced (or the file was never seen created)")));
                }
                real.push(format!("replace {}", ext_of(to)));
            }
            "unlink" | "unlinkat" => {
                let q = quoted(&s.args);
                let Some(p) = q.first() else { continue };
                if let Some(name) = p.strip_prefix(&prefix) {
                    if !name.starts_with(".tantivy-") {
                        real.push(format!("unlink {}", ext_of(name)));
                    }
                }
            }
            _ => {}
        }
    }
    res.events = real.len();
    // garbage collection unlinks in hash-set order: maximal runs of unlinks are compared as multisets
    fn canon(v: Vec<String>) -> Vec<String> {
        let mut out: Vec<String> = vec![];
        let mut run: Vec<String> = vec![];
        for e in v {
            if e.starts_with("unlink") {
                run.push(e);
            } else {
                run.sort();
                out.append(&mut run);
                out.push(e);
            }
        }
        run.sort();
        out.append(&mut run);
        out
    }
    let sim = canon(sim_events(w));
    let real = canon(real);
    // the model grants durability at `sync_file`: the real run must have one wherever the model has one
    if sim != real {
        // locate the first difference
        let i = sim.iter().zip(real.iter()).position(|(a, b)| a != b).unwrap_or(sim.len().min(real.len()));
        let ctx = |v: &Vec<String>| v[i.saturating_sub(3)..(i + 3).min(v.len())].join(" ; ");
        let missing_sync = sim.get(i).map(|e| e.starts_with("sync_file") || e == "sync_dir").unwrap_or(false);
        let msg = format!("event {i}: SimDirectory log has [{}], the system-call trace of MmapDirectory has [{}] ({} vs {} events)", ctx(&sim), ctx(&real), sim.len(), real.len());
        if missing_sync {
            res.violations.push(("mmap_directory_lacks_sync_the_model_assumes".to_string(), msg));
        } else {
            res.errors.push(format!("SimDirectory / MmapDirectory event sequences differ at {msg}"));
        }
    }
    // files terminated in the model must not be left dirty in the real run
    for (name, d) in &dirty {
        if *d && !name.starts_with(".tmp") && !name.starts_with(".tantivy-") && ext_of(name) != "store.temp" {
            res.violations.push(("file_written_after_last_data_sync".to_string(), format!("{name}: the trace ends with un-synced writes to a {} file", ext_of(name))));
        }
    }
    let _ = std::fs::remove_dir_all(&base);
    res
}

pub fn run_all(st: &mut Stats) -> serde_json::Value {
    let mut info = vec![];
    for (w, (name, steps)) in conf_workloads().iter().enumerate() {
        let r = run_one(w);
        st.count_n("conformance_events_compared", r.events as u64);
        st.count_n("conformance_syscalls", r.syscalls as u64);
        for (rule, what) in r.violations {
            st.violation(Violation::new(&rule, format!("conformance workload {name}: {what}"), json!({"prop":"C01","conformance":w})));
        }
        st.errors.extend(r.errors);
        info.push(json!({"workload":name,"steps":steps,"events":r.events,"syscalls":r.syscalls}));
    }
    json!(info)
}
