//! C15 - term dictionaries behave as ordered maps from byte strings.
//! sstable `Dictionary` (several value types, block lengths), tantivy's fst `TermDictionary`, merges,
//! out-of-order insertions; oracle = BTreeMap filtered by brute force.
use std::collections::{BTreeMap, BTreeSet};
use std::ops::Bound;
use std::panic::{catch_unwind, AssertUnwindSafe};

use serde_json::{json, Value};
use tantivy::directory::FileSlice;
use tantivy::postings::TermInfo;
use tantivy::termdict::{TermDictionary, TermDictionaryBuilder, TermMerger};
use tantivy_fst::Automaton;
use tantivy_sstable::{Dictionary, MonotonicU64SSTable, SSTable, TermOrdHit, VoidSSTable};

use crate::common::*;

pub fn universe() -> Vec<Vec<u8>> {
    let mut u: Vec<Vec<u8>> = vec![
        b"".to_vec(),
        b"\x00".to_vec(),
        b"a".to_vec(),
        b"a\x00".to_vec(),
        b"aa".to_vec(),
        b"ab".to_vec(),
        b"ab\xff".to_vec(),
        b"b".to_vec(),
        b"\xff".to_vec(),
        b"aab".to_vec(),
        b"a\xff".to_vec(),
        b"\xff\xff".to_vec(),
        // thorough only: shared prefix and suffix of >= 16 bytes (the delta encoder's long keep / add forms)
        b"aaaaaaaaaaaaaaaaaa".to_vec(),
        b"aaaaaaaaaaaaaaaaaa\x00bbbbbbbbbbbbbbbbbb".to_vec(),
    ];
    u.truncate(14);
    u
}

fn sorted_universe(n: usize) -> Vec<Vec<u8>> {
    let mut u = universe();
    u.truncate(n);
    u.sort();
    u
}

fn value_of(key: &[u8], idx: usize) -> u64 {
    // strictly increasing with idx (the monotonic sstable requires it)
    (idx as u64) * 1000 + key.len() as u64
}

fn build_sstable(keys: &[Vec<u8>], block_len: Option<usize>) -> Result<Vec<u8>, String> {
    let r = catch_unwind(AssertUnwindSafe(|| -> std::io::Result<Vec<u8>> {
        let mut w = Dictionary::<MonotonicU64SSTable>::builder(Vec::new())?;
        if let Some(b) = block_len {
            w.set_block_len(b);
        }
        for (i, k) in keys.iter().enumerate() {
            w.insert(k, &value_of(k, i))?;
        }
        w.finish()
    }));
    match r {
        Ok(Ok(v)) => Ok(v),
        Ok(Err(e)) => Err(format!("io error {e}")),
        Err(e) => Err(format!("panic {}", panic_message(e))),
    }
}

fn open_sstable(bytes: Vec<u8>) -> Dictionary<MonotonicU64SSTable> {
    Dictionary::<MonotonicU64SSTable>::open(FileSlice::from(bytes)).expect("open sstable")
}

fn bound_model(
    model: &BTreeMap<Vec<u8>, u64>,
    lower: &Bound<Vec<u8>>,
    upper: &Bound<Vec<u8>>,
    limit: Option<u64>,
) -> Vec<(Vec<u8>, u64)> {
    let in_lower = |k: &Vec<u8>| match lower {
        Bound::Unbounded => true,
        Bound::Included(b) => k >= b,
        Bound::Excluded(b) => k > b,
    };
    let in_upper = |k: &Vec<u8>| match upper {
        Bound::Unbounded => true,
        Bound::Included(b) => k <= b,
        Bound::Excluded(b) => k < b,
    };
    let mut out: Vec<(Vec<u8>, u64)> = model
        .iter()
        .filter(|(k, _)| in_lower(k) && in_upper(k))
        .map(|(k, v)| (k.clone(), *v))
        .collect();
    if let Some(l) = limit {
        out.truncate(l as usize);
    }
    out
}

fn bdesc(b: &Bound<Vec<u8>>, lower: bool) -> String {
    match b {
        Bound::Unbounded => "unbounded".to_string(),
        Bound::Included(k) => format!("{}({})", if lower { "ge" } else { "le" }, hex(k)),
        Bound::Excluded(k) => format!("{}({})", if lower { "gt" } else { "lt" }, hex(k)),
    }
}

pub fn hex(k: &[u8]) -> String {
    if k.len() > 24 {
        format!("{}..[{}B]", k[..12].iter().map(|b| format!("{b:02x}")).collect::<String>(), k.len())
    } else {
        k.iter().map(|b| format!("{b:02x}")).collect::<String>()
    }
}

struct Fail(String, String);

/// All lookups / ranges of one sstable dictionary against the model. `probe_keys` are the keys used as
/// lookup targets and range bounds (present and absent).
fn check_sstable_dict(
    dict: &Dictionary<MonotonicU64SSTable>,
    model: &BTreeMap<Vec<u8>, u64>,
    probe_keys: &[Vec<u8>],
    limits: &[Option<u64>],
    full_ranges: bool,
    st: &mut Stats,
) -> Result<(), Fail> {
    let keys: Vec<&Vec<u8>> = model.keys().collect();
    let n = keys.len();
    if dict.num_terms() != n {
        return Err(Fail("num_terms".into(), format!("num_terms {} != {}", dict.num_terms(), n)));
    }
    // full stream
    {
        let mut s = dict.stream().map_err(|e| Fail("stream_error".into(), e.to_string()))?;
        let mut got = vec![];
        while s.advance() {
            got.push((s.key().to_vec(), *s.value(), s.term_ord()));
        }
        let want: Vec<(Vec<u8>, u64, u64)> = model.iter().enumerate().map(|(i, (k, v))| (k.clone(), *v, i as u64)).collect();
        if got != want {
            return Err(Fail("full_stream".into(), format!("full stream yields {} entries, want {}", got.len(), want.len())));
        }
    }
    for k in probe_keys {
        st.count("lookups");
        let want_ord = keys.binary_search(&k).ok().map(|i| i as u64);
        let got = dict.get(k).map_err(|e| Fail("get_error".into(), e.to_string()))?;
        if got != model.get(k).copied() {
            return Err(Fail("get".into(), format!("get({}) = {:?}, want {:?}", hex(k), got, model.get(k))));
        }
        let got = dict.term_ord(k).map_err(|e| Fail("term_ord_error".into(), e.to_string()))?;
        if got != want_ord {
            return Err(Fail("term_ord".into(), format!("term_ord({}) = {:?}, want {:?}", hex(k), got, want_ord)));
        }
        let got = dict.term_ord_or_next(k).map_err(|e| Fail("term_ord_or_next_error".into(), e.to_string()))?;
        let succ = keys.partition_point(|x| *x < k) as u64;
        let ok = match (&got, want_ord) {
            (TermOrdHit::Exact(o), Some(w)) => *o == w,
            // beyond the last key the documented answer is Next(u64::MAX); Next(n) would be as good
            (TermOrdHit::Next(o), None) => *o == succ || (succ == n as u64 && *o == u64::MAX),
            _ => false,
        };
        if !ok {
            return Err(Fail(
                "term_ord_or_next".into(),
                format!("term_ord_or_next({}) = {:?}, want exact {:?} / successor {}", hex(k), got, want_ord, succ),
            ));
        }
    }
    for ord in 0..=(n as u64 + 1) {
        let mut buf = vec![0xEEu8; 3];
        let found = dict.ord_to_term(ord, &mut buf).map_err(|e| Fail("ord_to_term_error".into(), e.to_string()))?;
        let want = keys.get(ord as usize);
        if found != want.is_some() || (found && &buf != *want.unwrap()) {
            return Err(Fail(
                "ord_to_term".into(),
                format!("ord_to_term({ord}) = ({found}, {}), want {:?}", hex(&buf), want.map(|k| hex(k))),
            ));
        }
        let ti = dict.term_info_from_ord(ord).map_err(|e| Fail("term_info_from_ord_error".into(), e.to_string()))?;
        let wantv = want.map(|k| model[*k]);
        if ti != wantv {
            return Err(Fail("term_info_from_ord".into(), format!("term_info_from_ord({ord}) = {ti:?}, want {wantv:?}")));
        }
    }
    // ranges
    let mut lowers: Vec<Bound<Vec<u8>>> = vec![Bound::Unbounded];
    let mut uppers: Vec<Bound<Vec<u8>>> = vec![Bound::Unbounded];
    for k in probe_keys {
        lowers.push(Bound::Included(k.clone()));
        lowers.push(Bound::Excluded(k.clone()));
        uppers.push(Bound::Included(k.clone()));
        uppers.push(Bound::Excluded(k.clone()));
    }
    for (li, lo) in lowers.iter().enumerate() {
        for (ui, up) in uppers.iter().enumerate() {
            if !full_ranges && li != 0 && ui != 0 && (li + ui) % 3 != 0 {
                continue;
            }
            for lim in limits {
                st.count("ranges");
                let mut b = dict.range();
                b = match lo {
                    Bound::Included(k) => b.ge(k),
                    Bound::Excluded(k) => b.gt(k),
                    Bound::Unbounded => b,
                };
                b = match up {
                    Bound::Included(k) => b.le(k),
                    Bound::Excluded(k) => b.lt(k),
                    Bound::Unbounded => b,
                };
                if let Some(l) = lim {
                    b = b.limit(*l);
                }
                let got = catch_unwind(AssertUnwindSafe(move || -> Result<Vec<(Vec<u8>, u64)>, Fail> {
                    let mut s = b.into_stream().map_err(|e| Fail("range_error".into(), e.to_string()))?;
                    let mut got = vec![];
                    while s.advance() {
                        got.push((s.key().to_vec(), *s.value()));
                        if got.len() > n + 2 {
                            break;
                        }
                    }
                    Ok(got)
                }));
                let got = match got {
                    Ok(g) => g?,
                    Err(_) => {
                        let inverted = match (lo, up) {
                            (Bound::Included(a) | Bound::Excluded(a), Bound::Included(b) | Bound::Excluded(b)) => a > b,
                            _ => false,
                        };
                        return Err(Fail(
                            if inverted { "inverted_range_panic".into() } else { "range_panic".into() },
                            format!("range {} {} limit {:?} panicked: {}", bdesc(lo, true), bdesc(up, false), lim, last_panic()),
                        ));
                    }
                };
                // `limit` is documented as "load no more data than required to get `limit` matching entries;
                // the streamer can still return marginally more": the answer must be a prefix of the
                // unlimited answer holding at least min(limit, all) entries.
                let full = bound_model(model, lo, up, None);
                let want = bound_model(model, lo, up, *lim);
                let ok = match lim {
                    None => got == full,
                    Some(_) => got.len() >= want.len() && got.len() <= full.len() && got[..] == full[..got.len()],
                };
                if !ok {
                    return Err(Fail(
                        "range".into(),
                        format!(
                            "range {} {} limit {:?}: got {} keys [{}], want {} keys [{}]",
                            bdesc(lo, true),
                            bdesc(up, false),
                            lim,
                            got.len(),
                            got.iter().take(6).map(|x| hex(&x.0)).collect::<Vec<_>>().join(","),
                            want.len(),
                            want.iter().take(6).map(|x| hex(&x.0)).collect::<Vec<_>>().join(",")
                        ),
                    ));
                }
                if !want.is_empty() && want.len() < n {
                    st.count("ranges_nontrivial");
                }
            }
            // ordinal bounds
            let (lo_o, up_o) = dict
                .term_bounds_to_ord(lo.clone(), up.clone())
                .map_err(|e| Fail("term_bounds_to_ord_error".into(), e.to_string()))?;
            let want = bound_model(model, lo, up, None);
            let in_ord = |o: u64| -> bool {
                (match lo_o {
                    Bound::Unbounded => true,
                    Bound::Included(x) => o >= x,
                    Bound::Excluded(x) => o > x,
                }) && (match up_o {
                    Bound::Unbounded => true,
                    Bound::Included(x) => o <= x,
                    Bound::Excluded(x) => o < x,
                })
            };
            let got_set: Vec<u64> = (0..n as u64).filter(|o| in_ord(*o)).collect();
            let want_set: Vec<u64> = want.iter().map(|(k, _)| keys.binary_search(&k).unwrap() as u64).collect();
            if got_set != want_set {
                return Err(Fail(
                    "term_bounds_to_ord".into(),
                    format!("term_bounds_to_ord({}, {}) = ({lo_o:?}, {up_o:?}) selects {got_set:?}, want {want_set:?}", bdesc(lo, true), bdesc(up, false)),
                ));
            }
        }
    }
    // prefix ranges + prefix automaton
    for p in probe_keys {
        st.count("prefix");
        let mut s = dict.prefix_range(p).into_stream().map_err(|e| Fail("prefix_error".into(), e.to_string()))?;
        let mut got = vec![];
        while s.advance() {
            got.push(s.key().to_vec());
        }
        let want: Vec<Vec<u8>> = keys.iter().filter(|k| k.starts_with(p)).map(|k| (*k).clone()).collect();
        if got != want {
            return Err(Fail("prefix_range".into(), format!("prefix_range({}) yields {} keys, want {}", hex(p), got.len(), want.len())));
        }
    }
    Ok(())
}

/// exact-match byte automaton (harness side)
#[derive(Clone)]
pub struct Str(Vec<u8>, bool);
impl Str {
    pub fn new(s: &str) -> Str {
        Str(s.as_bytes().to_vec(), false)
    }
    /// matches every key starting with the string
    pub fn starts_with(self) -> Str {
        Str(self.0, true)
    }
}
impl Automaton for Str {
    type State = Option<usize>;
    fn start(&self) -> Option<usize> {
        Some(0)
    }
    fn is_match(&self, s: &Option<usize>) -> bool {
        *s == Some(self.0.len())
    }
    fn can_match(&self, s: &Option<usize>) -> bool {
        s.is_some()
    }
    fn accept(&self, s: &Option<usize>, b: u8) -> Option<usize> {
        match s {
            Some(i) if *i < self.0.len() && self.0[*i] == b => Some(i + 1),
            Some(i) if *i == self.0.len() && self.1 => Some(*i),
            _ => None,
        }
    }
}

fn run_automaton<A: Automaton>(a: &A, key: &[u8]) -> bool {
    let mut s = a.start();
    for &b in key {
        s = a.accept(&s, b);
    }
    a.is_match(&s)
}

fn check_automata(
    dict: &Dictionary<MonotonicU64SSTable>,
    model: &BTreeMap<Vec<u8>, u64>,
    st: &mut Stats,
) -> Result<(), Fail> {
    // prefix automata, exact, and regex automata; the automaton itself is the oracle's filter
    let strs = ["", "a", "ab", "b", "aa"];
    for s in strs {
        for mode in 0..2 {
            st.count("automata");
            let want: Vec<Vec<u8>>;
            let mut got = vec![];
            if mode == 0 {
                let a = Str::new(s).starts_with();
                want = model.keys().filter(|k| run_automaton(&a, k)).cloned().collect();
                let mut stream = dict.search(a).into_stream().map_err(|e| Fail("search_error".into(), e.to_string()))?;
                while stream.advance() {
                    got.push(stream.key().to_vec());
                }
            } else {
                let a = Str::new(s);
                want = model.keys().filter(|k| run_automaton(&a, k)).cloned().collect();
                let mut stream = dict.search(a).into_stream().map_err(|e| Fail("search_error".into(), e.to_string()))?;
                while stream.advance() {
                    got.push(stream.key().to_vec());
                }
            }
            if got != want {
                return Err(Fail("automaton".into(), format!("search(Str({s:?}) mode {mode}) yields {} keys, want {}", got.len(), want.len())));
            }
        }
    }
    for pat in ["a.*", ".*b", "a?b?", "(a|b)+", ".?"] {
        st.count("automata");
        let a = tantivy_fst::Regex::new(pat).map_err(|e| Fail("machinery".into(), format!("{e:?}")))?;
        let want: Vec<Vec<u8>> = model.keys().filter(|k| run_automaton(&a, k)).cloned().collect();
        // with range bounds as well: every key of the dictionary (and its successor-ish neighbours) as an
        // inclusive / exclusive lower bound x a few upper bounds
        let mut bounds: Vec<Vec<u8>> = model.keys().cloned().collect();
        bounds.push(b"a".to_vec());
        bounds.push(b"ab".to_vec());
        bounds.sort();
        bounds.dedup();
        let mut los: Vec<(u8, Vec<u8>)> = vec![(0, vec![])];
        for k in &bounds {
            los.push((1, k.clone()));
            los.push((2, k.clone()));
        }
        let mut his: Vec<(u8, Vec<u8>)> = vec![(0, vec![])];
        if let Some(last) = bounds.last() {
            his.push((1, last.clone()));
            his.push((2, last.clone()));
        }
        if bounds.len() >= 2 {
            his.push((1, bounds[bounds.len() / 2].clone()));
        }
        for (lk, lo) in &los {
            for (hk, hi) in &his {
                st.count("automata_with_bounds");
                let mut b = dict.search(&a);
                let mut w2 = want.clone();
                match lk {
                    1 => {
                        b = b.ge(lo);
                        w2.retain(|k| k >= lo);
                    }
                    2 => {
                        b = b.gt(lo);
                        w2.retain(|k| k > lo);
                    }
                    _ => {}
                }
                match hk {
                    1 => {
                        b = b.le(hi);
                        w2.retain(|k| k <= hi);
                    }
                    2 => {
                        b = b.lt(hi);
                        w2.retain(|k| k < hi);
                    }
                    _ => {}
                }
                let mut stream = b.into_stream().map_err(|e| Fail("search_error".into(), e.to_string()))?;
                let mut got = vec![];
                while stream.advance() {
                    got.push(stream.key().to_vec());
                }
                if got != w2 {
                    return Err(Fail("automaton".into(), format!("search(regex {pat:?}) with lower bound kind {lk} {:?} upper bound kind {hk} {:?} (1 = inclusive, 2 = exclusive) yields {:?}, want {:?}", hex(lo), hex(hi), got.iter().map(|k| hex(k)).collect::<Vec<_>>(), w2.iter().map(|k| hex(k)).collect::<Vec<_>>())));
                }
            }
        }
    }
    Ok(())
}

/// tiny family: one (subset mask, block length) case
pub fn check_tiny(mask: u32, nuni: usize, block_len: Option<usize>, st: &mut Stats) -> Option<Violation> {
    let uni = sorted_universe(nuni);
    let keys: Vec<Vec<u8>> = uni.iter().enumerate().filter(|(i, _)| mask >> i & 1 == 1).map(|(_, k)| k.clone()).collect();
    let case = json!({"kind":"tiny","mask":mask,"universe":nuni,"block_len":block_len});
    let desc = format!("keys [{}] block_len {:?}", keys.iter().map(|k| hex(k)).collect::<Vec<_>>().join(","), block_len);
    let bytes = match build_sstable(&keys, block_len) {
        Ok(b) => b,
        Err(e) => return Some(Violation::new("build_failed", format!("{desc}: building from increasing keys failed: {e}"), case)),
    };
    let model: BTreeMap<Vec<u8>, u64> = keys.iter().enumerate().map(|(i, k)| (k.clone(), value_of(k, i))).collect();
    let r = catch_unwind(AssertUnwindSafe(|| {
        let dict = open_sstable(bytes);
        check_sstable_dict(&dict, &model, &uni, &[None, Some(0), Some(1), Some(2)], true, st)?;
        check_automata(&dict, &model, st)
    }));
    match r {
        Ok(Ok(())) => None,
        Ok(Err(Fail(rule, what))) => Some(Violation::new(&format!("sstable_{rule}"), format!("{desc}: {what}"), case)),
        Err(e) => Some(Violation::new("sstable_panic", format!("{desc}: panic {} [{}]", panic_message(e), last_panic()), case)),
    }
}

fn structured_keys(n: usize, long_prefix: bool) -> Vec<Vec<u8>> {
    // counters in base 3 over {00, 61, ff} with an optional 300-byte common prefix; strictly increasing
    let digits = [0x00u8, 0x61, 0xff];
    let width = 11;
    let mut out = Vec::with_capacity(n);
    for i in 0..n {
        let mut k = if long_prefix { vec![0x62u8; 300] } else { vec![] };
        let mut x = i * 2 + 1; // leave gaps (absent keys between)
        let mut d = vec![0u8; width];
        for j in (0..width).rev() {
            d[j] = digits[x % 3];
            x /= 3;
        }
        k.extend_from_slice(&d);
        out.push(k);
    }
    out
}

pub fn check_structured(n: usize, long_prefix: bool, block_len: usize, st: &mut Stats) -> Option<Violation> {
    let case = json!({"kind":"structured","n":n,"long_prefix":long_prefix,"block_len":block_len});
    let mut keys = structured_keys(n, long_prefix);
    if n >= 128 && long_prefix {
        // one very long key at the end
        let mut k = vec![0x63u8; 20_000];
        k[0] = 0x7a;
        keys.push(k);
    }
    let desc = format!("structured n={} long_prefix={long_prefix} block_len={block_len}", keys.len());
    let bytes = match build_sstable(&keys, Some(block_len)) {
        Ok(b) => b,
        Err(e) => return Some(Violation::new("build_failed", format!("{desc}: {e}"), case)),
    };
    let model: BTreeMap<Vec<u8>, u64> = keys.iter().enumerate().map(|(i, k)| (k.clone(), value_of(k, i))).collect();
    // probes: designated positions and absent neighbours
    let nk = keys.len();
    let mut pos: BTreeSet<usize> = [0, 1, 2, 10, 63, 64, 65, 99, 100, 127, 128, 129, nk / 2, nk.saturating_sub(2), nk.saturating_sub(1)]
        .into_iter()
        .filter(|&p| p < nk)
        .collect();
    pos.insert(0);
    let mut probes: Vec<Vec<u8>> = vec![];
    for p in pos {
        probes.push(keys[p].clone());
        let mut absent = keys[p].clone();
        absent.push(0x00); // strictly between keys[p] and keys[p+1]
        probes.push(absent);
    }
    probes.push(vec![]);
    probes.push(vec![0xff; 4]);
    let r = catch_unwind(AssertUnwindSafe(|| {
        let dict = open_sstable(bytes);
        check_sstable_dict(&dict, &model, &probes, &[None, Some(1), Some(2), Some(3), Some(7), Some(100)], false, st)?;
        // every key: get / term_ord ; every ordinal: ord_to_term
        for (i, k) in keys.iter().enumerate() {
            if dict.get(k).ok().flatten() != Some(model[k]) {
                return Err(Fail("get".into(), format!("get(key #{i}) wrong")));
            }
            if dict.term_ord(k).ok().flatten() != Some(i as u64) {
                return Err(Fail("term_ord".into(), format!("term_ord(key #{i}) wrong")));
            }
            let mut buf = vec![];
            if !dict.ord_to_term(i as u64, &mut buf).unwrap_or(false) || &buf != k {
                return Err(Fail("ord_to_term".into(), format!("ord_to_term({i}) wrong")));
            }
        }
        // ranges ge(key i).limit(l) for every i in the first blocks and l crossing block boundaries
        for i in 0..nk.min(200) {
            for l in [1u64, 2, 3, 5, 8, 13, 50, 100, 101] {
                let mut s = dict.range().ge(&keys[i]).limit(l).into_stream().map_err(|e| Fail("range_error".into(), e.to_string()))?;
                let mut cnt = 0u64;
                let mut ok = true;
                while s.advance() {
                    if keys.get(i + cnt as usize).map(|k| k.as_slice()) != Some(s.key()) {
                        ok = false;
                    }
                    cnt += 1;
                }
                let want = l.min((nk - i) as u64);
                if cnt < want || !ok {
                    return Err(Fail("range".into(), format!("range ge(key #{i}) limit {l}: got {cnt} keys, want {want}")));
                }
                st.count("ranges");
            }
        }
        Ok(())
    }));
    match r {
        Ok(Ok(())) => None,
        Ok(Err(Fail(rule, what))) => Some(Violation::new(&format!("sstable_{rule}"), format!("{desc}: {what}"), case)),
        Err(e) => Some(Violation::new("sstable_panic", format!("{desc}: panic {} [{}]", panic_message(e), last_panic()), case)),
    }
}

/// out-of-order / duplicate insertion sequences: must be rejected (panic or Err), never accepted silently
pub fn check_insertion_order(seq: &[usize], nuni: usize, block_len: Option<usize>, void: bool) -> Option<Violation> {
    let uni = sorted_universe(nuni);
    let keys: Vec<Vec<u8>> = seq.iter().map(|&i| uni[i].clone()).collect();
    let increasing = keys.windows(2).all(|w| w[0] < w[1]);
    let case = json!({"kind":"order","seq":seq,"universe":nuni,"block_len":block_len,"void":void});
    let r = catch_unwind(AssertUnwindSafe(|| -> std::io::Result<usize> {
        if void {
            let mut w = Dictionary::<VoidSSTable>::builder(Vec::new())?;
            if let Some(b) = block_len {
                w.set_block_len(b);
            }
            for k in &keys {
                w.insert(k, &())?;
            }
            Ok(w.finish()?.len())
        } else {
            let mut w = Dictionary::<MonotonicU64SSTable>::builder(Vec::new())?;
            if let Some(b) = block_len {
                w.set_block_len(b);
            }
            for (i, k) in keys.iter().enumerate() {
                w.insert(k, &(i as u64 * 10))?;
            }
            Ok(w.finish()?.len())
        }
    }));
    let accepted = matches!(r, Ok(Ok(_)));
    let desc = format!("insert [{}] block_len {:?} void={void}", keys.iter().map(|k| hex(k)).collect::<Vec<_>>().join(","), block_len);
    if increasing && !accepted {
        return Some(Violation::new("sstable_increasing_keys_rejected", format!("{desc}: strictly increasing keys were rejected"), case));
    }
    if !increasing && accepted {
        // narrow signatures of the recorded finding
        let first_bad = keys.windows(2).position(|w| w[0] >= w[1]).unwrap();
        let rule = if keys[first_bad].is_empty() {
            "sstable_out_of_order_accepted_after_empty_key"
        } else if block_len.map(|b| b <= 16).unwrap_or(false) {
            "sstable_out_of_order_accepted_at_block_start"
        } else {
            "sstable_out_of_order_accepted"
        };
        return Some(Violation::new(rule, format!("{desc}: keys that are not strictly increasing were accepted silently"), case));
    }
    None
}

// ---------------------------------------------------------------------------------------------
// tantivy::termdict (fst) + TermMerger

fn term_info(i: usize) -> TermInfo {
    TermInfo {
        doc_freq: (i as u32 % 7) + 1,
        postings_range: i * 10..(i + 1) * 10,
        positions_range: i * 3..(i + 1) * 3,
    }
}

fn build_termdict(keys: &[Vec<u8>]) -> Result<TermDictionary, String> {
    let r = catch_unwind(AssertUnwindSafe(|| -> std::io::Result<TermDictionary> {
        let mut b = TermDictionaryBuilder::create(Vec::new())?;
        for (i, k) in keys.iter().enumerate() {
            b.insert(k, &term_info(i))?;
        }
        let bytes = b.finish()?;
        TermDictionary::open(FileSlice::from(bytes))
    }));
    match r {
        Ok(Ok(d)) => Ok(d),
        Ok(Err(e)) => Err(format!("io error {e}")),
        Err(e) => Err(format!("panic {}", panic_message(e))),
    }
}

pub fn check_termdict(mask: u32, nuni: usize, st: &mut Stats) -> Option<Violation> {
    let uni = sorted_universe(nuni);
    let keys: Vec<Vec<u8>> = uni.iter().enumerate().filter(|(i, _)| mask >> i & 1 == 1).map(|(_, k)| k.clone()).collect();
    let case = json!({"kind":"termdict","mask":mask,"universe":nuni});
    let desc = format!("termdict keys [{}]", keys.iter().map(|k| hex(k)).collect::<Vec<_>>().join(","));
    let dict = match build_termdict(&keys) {
        Ok(d) => d,
        Err(e) => return Some(Violation::new("termdict_build_failed", format!("{desc}: {e}"), case)),
    };
    let r = catch_unwind(AssertUnwindSafe(|| -> Result<(), Fail> {
        if dict.num_terms() != keys.len() {
            return Err(Fail("num_terms".into(), format!("num_terms {}", dict.num_terms())));
        }
        for k in &uni {
            st.count("lookups");
            let idx = keys.binary_search(k).ok();
            let got = dict.get(k).map_err(|e| Fail("get_error".into(), e.to_string()))?;
            if got != idx.map(term_info) {
                return Err(Fail("get".into(), format!("get({}) = {:?}", hex(k), got)));
            }
            let o = dict.term_ord(k).map_err(|e| Fail("term_ord_error".into(), e.to_string()))?;
            if o != idx.map(|i| i as u64) {
                return Err(Fail("term_ord".into(), format!("term_ord({}) = {:?}", hex(k), o)));
            }
        }
        for ord in 0..keys.len() as u64 {
            let mut buf = vec![];
            let f = dict.ord_to_term(ord, &mut buf).map_err(|e| Fail("ord_to_term_error".into(), e.to_string()))?;
            if !f || buf != keys[ord as usize] {
                return Err(Fail("ord_to_term".into(), format!("ord_to_term({ord}) = ({f}, {})", hex(&buf))));
            }
        }
        let mut lowers: Vec<Bound<Vec<u8>>> = vec![Bound::Unbounded];
        let mut uppers: Vec<Bound<Vec<u8>>> = vec![Bound::Unbounded];
        for k in &uni {
            lowers.push(Bound::Included(k.clone()));
            lowers.push(Bound::Excluded(k.clone()));
            uppers.push(Bound::Included(k.clone()));
            uppers.push(Bound::Excluded(k.clone()));
        }
        let model: BTreeMap<Vec<u8>, u64> = keys.iter().enumerate().map(|(i, k)| (k.clone(), i as u64)).collect();
        for lo in &lowers {
            for up in &uppers {
                st.count("ranges");
                let mut b = dict.range();
                b = match lo {
                    Bound::Included(k) => b.ge(k),
                    Bound::Excluded(k) => b.gt(k),
                    Bound::Unbounded => b,
                };
                b = match up {
                    Bound::Included(k) => b.le(k),
                    Bound::Excluded(k) => b.lt(k),
                    Bound::Unbounded => b,
                };
                let mut s = b.into_stream().map_err(|e| Fail("range_error".into(), e.to_string()))?;
                let mut got = vec![];
                while s.advance() {
                    got.push((s.key().to_vec(), s.term_ord(), s.value().clone()));
                }
                let want: Vec<(Vec<u8>, u64, TermInfo)> =
                    bound_model(&model, lo, up, None).into_iter().map(|(k, o)| (k, o, term_info(o as usize))).collect();
                if got != want {
                    return Err(Fail(
                        "range".into(),
                        format!("range {} {}: got {} keys, want {}", bdesc(lo, true), bdesc(up, false), got.len(), want.len()),
                    ));
                }
            }
        }
        for pat in ["a.*", ".*b", "(a|b)+"] {
            let a = tantivy_fst::Regex::new(pat).unwrap();
            let want: Vec<Vec<u8>> = keys.iter().filter(|k| run_automaton(&a, k)).cloned().collect();
            let mut s = dict.search(&a).into_stream().map_err(|e| Fail("search_error".into(), e.to_string()))?;
            let mut got = vec![];
            while s.advance() {
                got.push(s.key().to_vec());
            }
            if got != want {
                return Err(Fail("automaton".into(), format!("search({pat}) got {} want {}", got.len(), want.len())));
            }
        }
        Ok(())
    }));
    match r {
        Ok(Ok(())) => None,
        Ok(Err(Fail(rule, what))) => Some(Violation::new(&format!("termdict_{rule}"), format!("{desc}: {what}"), case)),
        Err(e) => Some(Violation::new("termdict_panic", format!("{desc}: panic {}", panic_message(e)), case)),
    }
}

/// merge of 2-3 dictionaries: sstable merge (values kept from the first input) and TermMerger ordinal maps
pub fn check_merge(masks: &[u32], nuni: usize, block_len: Option<usize>, st: &mut Stats) -> Option<Violation> {
    let uni = sorted_universe(nuni);
    let case = json!({"kind":"merge","masks":masks,"universe":nuni,"block_len":block_len});
    let sets: Vec<Vec<Vec<u8>>> = masks
        .iter()
        .map(|m| uni.iter().enumerate().filter(|(i, _)| m >> i & 1 == 1).map(|(_, k)| k.clone()).collect())
        .collect();
    let desc = format!("merge of key sets {masks:?} over universe {nuni} block_len {block_len:?}");
    let union: BTreeSet<Vec<u8>> = sets.iter().flatten().cloned().collect();
    let r = catch_unwind(AssertUnwindSafe(|| -> Result<(), Fail> {
        // sstable level (void values)
        let mut inputs = vec![];
        for s in &sets {
            let mut w = Dictionary::<VoidSSTable>::builder(Vec::new()).unwrap();
            if let Some(b) = block_len {
                w.set_block_len(b);
            }
            for k in s {
                w.insert(k, &()).unwrap();
            }
            let bytes = w.finish().unwrap();
            // the merge works on the raw sstable part: re-open through Dictionary and stream instead
            inputs.push(bytes);
        }
        // merge via streams of opened dictionaries through the public merge API
        let dicts: Vec<Dictionary<VoidSSTable>> =
            inputs.iter().map(|b| Dictionary::<VoidSSTable>::open(FileSlice::from(b.clone())).unwrap()).collect();
        let mut merged_keys: Vec<Vec<u8>> = vec![];
        {
            // k-way merge through tantivy_sstable::merge is exercised through VoidSSTable::merge on raw readers
            let raw: Vec<tantivy_common::OwnedBytes> = dicts
                .iter()
                .map(|d| {
                    // raw sstable bytes = file without index/footer: use file_slice_for_range over everything
                    d.file_slice_for_range((Bound::<&[u8]>::Unbounded, Bound::Unbounded), None).read_bytes().unwrap()
                })
                .collect();
            let mut out = Vec::new();
            VoidSSTable::merge(raw, &mut out, tantivy_sstable::merge::VoidMerge).map_err(|e| Fail("merge_error".into(), e.to_string()))?;
            let d = Dictionary::<VoidSSTable>::open(FileSlice::from(out)).map_err(|e| Fail("merge_open_error".into(), e.to_string()))?;
            let mut s = d.stream().unwrap();
            while s.advance() {
                merged_keys.push(s.key().to_vec());
            }
        }
        let want: Vec<Vec<u8>> = union.iter().cloned().collect();
        if merged_keys != want {
            return Err(Fail("merge".into(), format!("merged keys {} want {}", merged_keys.len(), want.len())));
        }
        st.count("sstable_merges");
        // TermMerger ordinal maps (fst termdict)
        let tds: Vec<TermDictionary> = sets.iter().map(|s| build_termdict(s).unwrap()).collect();
        let streams = tds.iter().map(|d| d.stream().unwrap()).collect();
        let mut m = TermMerger::new(streams);
        let mut i = 0usize;
        while m.advance() {
            let Some(wk) = want.get(i) else {
                return Err(Fail("term_merger".into(), "TermMerger yields more keys than the union".into()));
            };
            if m.key() != wk.as_slice() {
                return Err(Fail("term_merger".into(), format!("TermMerger key #{i} = {}, want {}", hex(m.key()), hex(wk))));
            }
            let mut got: Vec<(usize, u64)> = m.matching_segments().collect();
            got.sort();
            let mut wantm = vec![];
            for (si, s) in sets.iter().enumerate() {
                if let Ok(o) = s.binary_search(wk) {
                    wantm.push((si, o as u64));
                }
            }
            if got != wantm {
                return Err(Fail(
                    "term_merger_ordinals".into(),
                    format!("TermMerger key {}: old ordinals {got:?}, want {wantm:?}", hex(wk)),
                ));
            }
            i += 1;
        }
        if i != want.len() {
            return Err(Fail("term_merger".into(), format!("TermMerger yields {i} keys, want {}", want.len())));
        }
        st.count("term_mergers");
        Ok(())
    }));
    match r {
        Ok(Ok(())) => None,
        Ok(Err(Fail(rule, what))) => Some(Violation::new(&format!("dict_{rule}"), format!("{desc}: {what}"), case)),
        Err(e) => Some(Violation::new("dict_merge_panic", format!("{desc}: panic {}", panic_message(e)), case)),
    }
}

pub fn replay(case: &Value) -> Vec<Violation> {
    quiet_panics();
    let mut st = Stats::default();
    let bl = case["block_len"].as_u64().map(|x| x as usize);
    let nuni = case["universe"].as_u64().unwrap_or(9) as usize;
    let v = match case["kind"].as_str().unwrap_or("") {
        "tiny" => check_tiny(case["mask"].as_u64().unwrap() as u32, nuni, bl, &mut st),
        "structured" => check_structured(
            case["n"].as_u64().unwrap() as usize,
            case["long_prefix"].as_bool().unwrap(),
            bl.unwrap_or(16),
            &mut st,
        ),
        "order" => {
            let seq: Vec<usize> = case["seq"].as_array().unwrap().iter().map(|x| x.as_u64().unwrap() as usize).collect();
            check_insertion_order(&seq, nuni, bl, case["void"].as_bool().unwrap_or(false))
        }
        "termdict" => check_termdict(case["mask"].as_u64().unwrap() as u32, nuni, &mut st),
        "merge" => {
            let masks: Vec<u32> = case["masks"].as_array().unwrap().iter().map(|x| x.as_u64().unwrap() as u32).collect();
            check_merge(&masks, nuni, bl, &mut st)
        }
        _ => None,
    };
    v.into_iter().collect()
}

pub fn run(ctx: &Ctx) -> Report {
    quiet_panics();
    let mut rep = Report::new("model_checking");
    let thorough = ctx.tier.is_thorough();
    let nuni = if thorough { 14 } else { 9 };
    let block_lens: [Option<usize>; 3] = [Some(1), Some(16), None];
    #[derive(Clone)]
    enum W {
        Tiny(u32, Option<usize>),
        Struct(usize, bool, usize),
        Order(Vec<usize>, Option<usize>, bool),
        TermDict(u32),
        Merge(Vec<u32>, Option<usize>),
    }
    let mut work: Vec<W> = vec![];
    for mask in 0..(1u32 << nuni) {
        for bl in block_lens {
            work.push(W::Tiny(mask, bl));
        }
        work.push(W::TermDict(mask));
    }
    let sizes: Vec<usize> = if thorough { vec![1, 127, 128, 129, 600, 4000, 40_000] } else { vec![1, 127, 128, 129, 600, 4000] };
    for n in sizes {
        for lp in [false, true] {
            for bl in [16usize, 64, 4096] {
                if n >= 40_000 && lp && bl == 4096 {
                    continue;
                }
                work.push(W::Struct(n, lp, bl));
            }
        }
    }
    // insertion orders: all sequences of length <= 3 over the universe (quick: over a 6-key sub-universe)
    let ou = if thorough { 9 } else { 6 };
    for a in 0..ou {
        for b in 0..ou {
            for bl in block_lens {
                for void in [false, true] {
                    work.push(W::Order(vec![a, b], bl, void));
                    for c in 0..ou {
                        work.push(W::Order(vec![a, b, c], bl, void));
                    }
                }
            }
        }
    }
    // merges: all pairs of subsets of a 5-key universe (thorough 8), all triples of a 4-key universe
    let mu = if thorough { 8 } else { 5 };
    for a in 0..(1u32 << mu) {
        for b in 0..(1u32 << mu) {
            for bl in [Some(1), None] {
                work.push(W::Merge(vec![a, b], bl));
            }
        }
    }
    for a in 0..16u32 {
        for b in 0..16u32 {
            for c in 0..16u32 {
                work.push(W::Merge(vec![a, b, c], Some(16)));
            }
        }
    }
    let (st, done) = par_for(ctx, work.len(), |i, st| {
        st.eval();
        let v = match &work[i] {
            W::Tiny(mask, bl) => {
                if mask.count_ones() >= 2 {
                    st.nontrivial(&("tiny", mask, bl));
                }
                if i % 501 == 0 {
                    st.sample(json!({"kind":"tiny","mask":mask,"universe":nuni,"block_len":bl}));
                }
                check_tiny(*mask, nuni, *bl, st)
            }
            W::TermDict(mask) => {
                if mask.count_ones() >= 2 {
                    st.nontrivial(&("termdict", mask));
                }
                check_termdict(*mask, nuni, st)
            }
            W::Struct(n, lp, bl) => {
                st.nontrivial(&("struct", n, lp, bl));
                st.sample(json!({"kind":"structured","n":n,"long_prefix":lp,"block_len":bl}));
                check_structured(*n, *lp, *bl, st)
            }
            W::Order(seq, bl, void) => {
                st.nontrivial(&("order", seq, bl, void));
                st.count("insertion_orders");
                check_insertion_order(seq, nuni, *bl, *void)
            }
            W::Merge(masks, bl) => {
                if masks.iter().filter(|m| **m != 0).count() >= 2 {
                    st.nontrivial(&("merge", masks, bl));
                }
                check_merge(masks, if masks.len() == 2 { mu } else { 4 }, *bl, st)
            }
        };
        if let Some(v) = v {
            st.violation(v);
        }
    });
    rep.set("exhaustive", done == work.len());
    rep.set("universe_keys", nuni as u64);
    rep.set("rule", "every subset of the key universe x block length {1,16,default} (sstable) and fst termdict: get / term_ord / term_ord_or_next / ord_to_term / every range (ge,gt,unbounded) x (le,lt,unbounded) x limit {none,0,1,2} / term_bounds_to_ord / prefix / automata against a BTreeMap; structured sets up to 40000 keys with small blocks (multi-layer index); every insertion sequence of <= 3 keys (must be rejected iff not strictly increasing); every pair / triple of subsets merged (sstable merge, TermMerger ordinal maps). Non-trivial: >= 2 keys / >= 2 non-empty inputs; distinct by case descriptor");
    for k in ["ranges", "ranges_nontrivial", "lookups", "automata", "insertion_orders", "sstable_merges", "term_mergers"] {
        if st.counters.get(k).copied().unwrap_or(0) == 0 {
            rep.machinery_errors.push(format!("vacuous: counter {k} is zero"));
        }
    }
    let transitions: u64 = ["ranges", "lookups", "automata", "prefix", "insertion_orders", "sstable_merges", "term_mergers"]
        .iter()
        .map(|k| st.counters.get(*k).copied().unwrap_or(0))
        .sum();
    rep.set("states", st.nontrivial.len() as u64);
    rep.set("transitions", transitions);
    rep.set("traces_validated_against_impl", st.evaluations);
    rep.assume("automaton-filtered streaming is compared with the same automaton run by brute force over every key (the automaton is a black box here; fuzzy / regex semantics belong to C03)");
    rep.assume("term_ord_or_next beyond the last key: Next(u64::MAX) is accepted as 'no successor' (documented)");
    rep.merge_stats(&st);
    rep.violations = st.violations;
    rep.machinery_errors.extend(st.errors);
    rep
}
