//! C06 - Top-K collection returns exactly the best K, with deterministic ties.
use std::collections::BTreeMap;
use std::panic::{catch_unwind, AssertUnwindSafe};

use serde_json::{json, Value};
use tantivy::collector::{Collector, SegmentCollector, TopDocs};
use tantivy::query::{AllQuery, Query};
use tantivy::schema::*;
use tantivy::{DocAddress, DocId, Index, IndexWriter, Order, Score, Searcher, SegmentOrdinal, SegmentReader, TantivyDocument};

use crate::common::*;
use crate::qmodel::{lower, Occ, Q};

// ---------------------------------------------------------------------------------------------
// exhaustive (non pruning) collector

pub struct AllScores;
pub struct AllScoresSeg {
    ord: SegmentOrdinal,
    out: Vec<(Score, DocAddress)>,
}
impl Collector for AllScores {
    type Fruit = Vec<(Score, DocAddress)>;
    type Child = AllScoresSeg;
    fn for_segment(&self, ord: SegmentOrdinal, _r: &SegmentReader) -> tantivy::Result<AllScoresSeg> {
        Ok(AllScoresSeg { ord, out: vec![] })
    }
    fn requires_scoring(&self) -> bool {
        true
    }
    fn merge_fruits(&self, f: Vec<Vec<(Score, DocAddress)>>) -> tantivy::Result<Self::Fruit> {
        Ok(f.into_iter().flatten().collect())
    }
}
impl SegmentCollector for AllScoresSeg {
    type Fruit = Vec<(Score, DocAddress)>;
    fn collect(&mut self, doc: DocId, score: Score) {
        self.out.push((score, DocAddress::new(self.ord, doc)));
    }
    fn harvest(self) -> Self::Fruit {
        self.out
    }
}

fn addr_key(a: &DocAddress) -> (u32, u32) {
    (a.segment_ord, a.doc_id)
}

// ---------------------------------------------------------------------------------------------
// tie family

pub struct TieIndex {
    index: Index,
    n: usize,
}

/// docs all contain the same text; `num` = key (missing when key == 2 and with_missing)
pub fn build_tie_index(sizes: &[usize], keys: Option<&[u8]>) -> TieIndex {
    let mut sb = Schema::builder();
    let id = sb.add_u64_field("id", INDEXED | FAST | STORED);
    let body = sb.add_text_field("body", TEXT);
    let num = sb.add_u64_field("num", FAST | INDEXED);
    let inum = sb.add_i64_field("inum", FAST);
    let fnum = sb.add_f64_field("fnum", FAST);
    let date = sb.add_date_field("date", FAST);
    let k = sb.add_text_field("k", STRING | FAST);
    let index = Index::create_in_ram(sb.build());
    let mut w: IndexWriter = index.writer_with_num_threads(1, 15_000_000).unwrap();
    w.set_merge_policy(Box::new(tantivy::merge_policy::NoMergePolicy));
    let mut i = 0usize;
    for &sz in sizes {
        for _ in 0..sz {
            let mut d = TantivyDocument::default();
            d.add_u64(id, i as u64);
            d.add_text(body, "a");
            if let Some(ks) = keys {
                let key = ks[i];
                if key != 2 {
                    d.add_u64(num, key as u64);
                    d.add_i64(inum, key as i64 - 1);
                    d.add_f64(fnum, key as f64 * 0.5 - 0.25);
                    d.add_date(date, tantivy::DateTime::from_timestamp_secs(1_000_000 + key as i64));
                    d.add_text(k, ["x", "y"][key as usize]);
                }
            }
            w.add_document(d).unwrap();
            i += 1;
        }
        w.commit().unwrap();
    }
    TieIndex { index, n: i }
}

fn id_of(searcher: &Searcher, a: DocAddress) -> u64 {
    searcher.segment_reader(a.segment_ord).fast_fields().u64("id").unwrap().first(a.doc_id).unwrap()
}

/// every K / O window of a ranked list must equal the slice of the complete list
fn check_windows<T: PartialEq + std::fmt::Debug + Clone>(
    full: &[(T, DocAddress)],
    get: &dyn Fn(usize, usize) -> Vec<(T, DocAddress)>,
    kmax: usize,
    omax: usize,
) -> Result<(), String> {
    for k in 1..=kmax {
        for o in 0..=omax {
            let got = get(k, o);
            let lo = o.min(full.len());
            let hi = (o + k).min(full.len());
            if got[..] != full[lo..hi] {
                return Err(format!(
                    "limit {k} offset {o}: got {:?}, entries {lo}..{hi} of the complete list are {:?}",
                    got.iter().map(|x| (&x.0, addr_key(&x.1))).collect::<Vec<_>>(),
                    full[lo..hi].iter().map(|x| (&x.0, addr_key(&x.1))).collect::<Vec<_>>()
                ));
            }
        }
    }
    Ok(())
}

/// custom keys through tweak_score: all key assignments on one index
pub fn tie_searcher(sizes: &[usize], threads: usize) -> (Searcher, usize) {
    let ti = build_tie_index(sizes, None);
    let mut index = ti.index.clone();
    if threads > 1 {
        index.set_multithread_executor(threads).unwrap();
    }
    (index.reader().unwrap().searcher(), ti.n)
}

pub fn check_tie_custom(sizes: &[usize], keys: &[u8], threads: usize) -> Option<(String, String)> {
    let (searcher, n) = tie_searcher(sizes, threads);
    check_tie_custom_on(&searcher, n, keys)
}

pub fn check_tie_custom_on(searcher: &Searcher, n: usize, keys: &[u8]) -> Option<(String, String)> {
    struct N {
        n: usize,
    }
    let ti = N { n };
    let table: Vec<u8> = keys.to_vec();
    let mk = |k: usize, o: usize| {
        let table = table.clone();
        TopDocs::with_limit(k).and_offset(o).tweak_score(move |seg: &SegmentReader| {
            let ids = seg.fast_fields().u64("id").unwrap();
            let table = table.clone();
            move |doc: DocId, _score: Score| table[ids.first(doc).unwrap() as usize] as u64
        })
    };
    // expected complete list: key desc, address asc
    let mut all: Vec<(u64, DocAddress)> = vec![];
    for (ord, seg) in searcher.segment_readers().iter().enumerate() {
        for doc in 0..seg.max_doc() {
            if seg.is_deleted(doc) {
                continue;
            }
            let a = DocAddress::new(ord as u32, doc);
            all.push((table[id_of(searcher, a) as usize] as u64, a));
        }
    }
    all.sort_by(|x, y| y.0.cmp(&x.0).then(addr_key(&x.1).cmp(&addr_key(&y.1))));
    let get = |k: usize, o: usize| searcher.search(&AllQuery, &mk(k, o)).unwrap();
    let full = get(ti.n + 3, 0);
    if full != all {
        return Some((
            "custom_key_order".into(),
            format!("complete list {:?}, expected (key desc, address asc) {:?}", full.iter().map(|x| (x.0, addr_key(&x.1))).collect::<Vec<_>>(), all.iter().map(|x| (x.0, addr_key(&x.1))).collect::<Vec<_>>()),
        ));
    }
    if let Err(e) = check_windows(&all, &get, (ti.n + 1).min(5), (ti.n + 1).min(5)) {
        return Some(("custom_key_window".into(), e));
    }
    // the same windows when TopDocs is not the top-level collector: inside a tuple, a MultiCollector, a FilterCollector
    let get_tuple = |k: usize, o: usize| searcher.search(&AllQuery, &(mk(k, o), tantivy::collector::Count)).unwrap().0;
    if let Err(e) = check_windows(&all, &get_tuple, (ti.n + 1).min(4), (ti.n + 1).min(4)) {
        return Some(("custom_key_window_in_tuple_collector".into(), e));
    }
    let get_multi = |k: usize, o: usize| {
        let mut mc = tantivy::collector::MultiCollector::new();
        let h = mc.add_collector(mk(k, o));
        let _c = mc.add_collector(tantivy::collector::Count);
        let mut fruits = searcher.search(&AllQuery, &mc).unwrap();
        h.extract(&mut fruits)
    };
    if let Err(e) = check_windows(&all, &get_multi, (ti.n + 1).min(4), (ti.n + 1).min(4)) {
        return Some(("custom_key_window_in_multi_collector".into(), e));
    }
    let get_filter = |k: usize, o: usize| searcher.search(&AllQuery, &tantivy::collector::FilterCollector::new("id".to_string(), |_v: u64| true, mk(k, o))).unwrap();
    if let Err(e) = check_windows(&all, &get_filter, (ti.n + 1).min(3), (ti.n + 1).min(3)) {
        return Some(("custom_key_window_in_filter_collector".into(), e));
    }
    None
}

/// tie index with deleted documents (ids), so that the alive-document order of the segments differs from their
/// max_doc order; searched single- and multi-threaded
pub fn tie_searcher_del(sizes: &[usize], deleted: &[usize], threads: usize) -> (Searcher, usize) {
    let ti = build_tie_index(sizes, None);
    let id = ti.index.schema().get_field("id").unwrap();
    if !deleted.is_empty() {
        let mut w: IndexWriter = ti.index.writer_with_num_threads(1, 15_000_000).unwrap();
        w.set_merge_policy(Box::new(tantivy::merge_policy::NoMergePolicy));
        for d in deleted {
            w.delete_term(tantivy::Term::from_field_u64(id, *d as u64));
        }
        w.commit().unwrap();
    }
    let mut index = ti.index.clone();
    if threads > 1 {
        index.set_multithread_executor(threads).unwrap();
    }
    (index.reader().unwrap().searcher(), ti.n)
}

/// scores that are zero or negative: every limit / offset window of order_by_score equals the slice of the
/// exhaustive ranking (a heap that is not full yet must accept any score)
pub fn check_nonpositive_scores(sizes: &[usize], variant: usize) -> Option<(String, String)> {
    use tantivy::query::{BooleanQuery, BoostQuery, ConstScoreQuery, Occur, Query, TermQuery};
    let n: usize = sizes.iter().sum();
    let keys: Vec<u8> = (0..n).map(|i| (i % 2) as u8).collect();
    let ti = build_tie_index(sizes, Some(&keys));
    let searcher = ti.index.reader().unwrap().searcher();
    let body = ti.index.schema().get_field("body").unwrap();
    let num = ti.index.schema().get_field("num").unwrap();
    let term = || Box::new(TermQuery::new(tantivy::Term::from_field_text(body, "a"), IndexRecordOption::WithFreqs)) as Box<dyn Query>;
    let one = || Box::new(TermQuery::new(tantivy::Term::from_field_u64(num, 1), IndexRecordOption::Basic)) as Box<dyn Query>;
    let q: Box<dyn Query> = match variant {
        0 => Box::new(ConstScoreQuery::new(Box::new(AllQuery), 0.0)),
        1 => Box::new(BoostQuery::new(term(), 0.0)),
        2 => Box::new(BoostQuery::new(term(), -1.0)),
        3 => Box::new(ConstScoreQuery::new(term(), -2.5)),
        // half of the documents demoted below zero, the others at zero
        4 => Box::new(BooleanQuery::new(vec![(Occur::Should, Box::new(ConstScoreQuery::new(Box::new(AllQuery), 0.0)) as Box<dyn Query>), (Occur::Should, Box::new(ConstScoreQuery::new(one(), -1.0)))])),
        // positive, zero
        _ => Box::new(BooleanQuery::new(vec![(Occur::Should, Box::new(ConstScoreQuery::new(Box::new(AllQuery), 0.0)) as Box<dyn Query>), (Occur::Should, Box::new(ConstScoreQuery::new(one(), 1.0)))])),
    };
    let get = |k: usize, o: usize| searcher.search(&q, &TopDocs::with_limit(k).and_offset(o).order_by_score()).unwrap();
    let mut want = searcher.search(&q, &AllScores).unwrap();
    want.sort_by(|x, y| y.0.partial_cmp(&x.0).unwrap().then(addr_key(&x.1).cmp(&addr_key(&y.1))));
    if want.len() != n {
        return Some(("machinery".into(), format!("variant {variant}: {} of {n} documents match", want.len())));
    }
    let full = get(n + 3, 0);
    if full != want {
        return Some(("nonpositive_score_order".into(), format!("query variant {variant}: order_by_score complete list {:?}, exhaustive ranking {:?}", full.iter().map(|x| (x.0, addr_key(&x.1))).collect::<Vec<_>>(), want.iter().map(|x| (x.0, addr_key(&x.1))).collect::<Vec<_>>())));
    }
    if let Err(e) = check_windows(&want, &get, (n + 1).min(5), (n + 1).min(4)) {
        return Some(("nonpositive_score_window".into(), format!("query variant {variant}: {e}")));
    }
    None
}

/// score ties (all documents have the same score) and fast-field keys with missing values
pub fn check_tie_fast(sizes: &[usize], keys: &[u8]) -> Option<(String, String)> {
    let ti = build_tie_index(sizes, Some(keys));
    let searcher = ti.index.reader().unwrap().searcher();
    let n = ti.n;
    let body = ti.index.schema().get_field("body").unwrap();
    let tq = tantivy::query::TermQuery::new(tantivy::Term::from_field_text(body, "a"), IndexRecordOption::WithFreqs);
    // 1. relevance: massive ties -> ascending address
    {
        let get = |k: usize, o: usize| searcher.search(&tq, &TopDocs::with_limit(k).and_offset(o).order_by_score()).unwrap();
        let full = get(n + 3, 0);
        let mut want = searcher.search(&tq, &AllScores).unwrap();
        want.sort_by(|x, y| y.0.partial_cmp(&x.0).unwrap().then(addr_key(&x.1).cmp(&addr_key(&y.1))));
        if full != want {
            return Some(("score_tie_order".into(), format!("order_by_score complete list {:?}, expected {:?}", full.iter().map(|x| (x.0, addr_key(&x.1))).collect::<Vec<_>>(), want.iter().map(|x| (x.0, addr_key(&x.1))).collect::<Vec<_>>())));
        }
        if let Err(e) = check_windows(&want, &get, (n + 1).min(4), (n + 1).min(4)) {
            return Some(("score_tie_window".into(), e));
        }
    }
    // 2. fast-field keys, both orders; None placement must be consistent (all first or all last)
    fn check_sorted<T: PartialOrd + Clone + std::fmt::Debug>(full: &[(Option<T>, DocAddress)], desc: bool, model: &dyn Fn(DocAddress) -> Option<T>, n: usize) -> Result<(), String> {
        if full.len() != n {
            return Err(format!("complete list has {} entries, {} documents match", full.len(), n));
        }
        for (k, a) in full {
            if *k != model(*a) {
                return Err(format!("key of {:?} reported as {:?}, the document holds {:?}", addr_key(a), k, model(*a)));
            }
        }
        let somes: Vec<&(Option<T>, DocAddress)> = full.iter().filter(|x| x.0.is_some()).collect();
        for w in somes.windows(2) {
            let (a, b) = (w[0].0.as_ref().unwrap(), w[1].0.as_ref().unwrap());
            let ok = if desc { a > b } else { a < b } || (a == b && addr_key(&w[0].1) < addr_key(&w[1].1));
            if !ok {
                return Err(format!("entries {:?} then {:?} violate the {} order with ascending-address ties", (a, addr_key(&w[0].1)), (b, addr_key(&w[1].1)), if desc { "descending" } else { "ascending" }));
            }
        }
        // Nones contiguous at one end, ascending address among themselves
        let first_none = full.iter().position(|x| x.0.is_none());
        if let Some(fnone) = first_none {
            let nn = full.iter().filter(|x| x.0.is_none()).count();
            let contiguous_start = full[..nn].iter().all(|x| x.0.is_none());
            let contiguous_end = full[full.len() - nn..].iter().all(|x| x.0.is_none());
            if !(contiguous_start || contiguous_end) {
                return Err(format!("documents without a value are neither all first nor all last (first at {fnone})"));
            }
            let nones: Vec<(u32, u32)> = full.iter().filter(|x| x.0.is_none()).map(|x| addr_key(&x.1)).collect();
            if nones.windows(2).any(|w| w[0] >= w[1]) {
                return Err("documents without a value are not in ascending address order".to_string());
            }
        }
        Ok(())
    }
    let keyof = |a: DocAddress| keys[id_of(&searcher, a) as usize];
    for order in [Order::Desc, Order::Asc] {
        let desc = order == Order::Desc;
        // u64
        {
            let get = |k: usize, o: usize| searcher.search(&tq, &TopDocs::with_limit(k).and_offset(o).order_by_fast_field::<u64>("num", order)).unwrap();
            let full = get(n + 3, 0);
            let model = |a: DocAddress| { let k = keyof(a); if k == 2 { None } else { Some(k as u64) } };
            if let Err(e) = check_sorted(&full, desc, &model, n) {
                return Some(("fast_u64_order".into(), format!("order_by_fast_field u64 {order:?}: {e}")));
            }
            if let Err(e) = check_windows(&full, &get, (n + 1).min(4), (n + 1).min(4)) {
                return Some(("fast_u64_window".into(), format!("order_by_fast_field u64 {order:?}: {e}")));
            }
        }
        // i64 / f64 / date
        {
            let get = |k: usize, o: usize| searcher.search(&tq, &TopDocs::with_limit(k).and_offset(o).order_by_fast_field::<i64>("inum", order)).unwrap();
            let full = get(n + 3, 0);
            let model = |a: DocAddress| { let k = keyof(a); if k == 2 { None } else { Some(k as i64 - 1) } };
            if let Err(e) = check_sorted(&full, desc, &model, n) {
                return Some(("fast_i64_order".into(), format!("order_by_fast_field i64 {order:?}: {e}")));
            }
            if let Err(e) = check_windows(&full, &get, (n + 1).min(3), (n + 1).min(3)) {
                return Some(("fast_i64_window".into(), format!("order_by_fast_field i64 {order:?}: {e}")));
            }
        }
        {
            let get = |k: usize, o: usize| searcher.search(&tq, &TopDocs::with_limit(k).and_offset(o).order_by_fast_field::<f64>("fnum", order)).unwrap();
            let full = get(n + 3, 0);
            let model = |a: DocAddress| { let k = keyof(a); if k == 2 { None } else { Some(k as f64 * 0.5 - 0.25) } };
            if let Err(e) = check_sorted(&full, desc, &model, n) {
                return Some(("fast_f64_order".into(), format!("order_by_fast_field f64 {order:?}: {e}")));
            }
            if let Err(e) = check_windows(&full, &get, (n + 1).min(3), (n + 1).min(3)) {
                return Some(("fast_f64_window".into(), format!("order_by_fast_field f64 {order:?}: {e}")));
            }
        }
        {
            let get = |k: usize, o: usize| searcher.search(&tq, &TopDocs::with_limit(k).and_offset(o).order_by_fast_field::<tantivy::DateTime>("date", order)).unwrap();
            let full = get(n + 3, 0);
            let model = |a: DocAddress| { let k = keyof(a); if k == 2 { None } else { Some(tantivy::DateTime::from_timestamp_secs(1_000_000 + k as i64)) } };
            if let Err(e) = check_sorted(&full, desc, &model, n) {
                return Some(("fast_date_order".into(), format!("order_by_fast_field date {order:?}: {e}")));
            }
            if let Err(e) = check_windows(&full, &get, (n + 1).min(3), (n + 1).min(3)) {
                return Some(("fast_date_window".into(), format!("order_by_fast_field date {order:?}: {e}")));
            }
        }
        // string
        {
            let get = |k: usize, o: usize| searcher.search(&tq, &TopDocs::with_limit(k).and_offset(o).order_by_string_fast_field("k", order)).unwrap();
            let full = get(n + 3, 0);
            let model = |a: DocAddress| { let k = keyof(a); if k == 2 { None } else { Some(["x", "y"][k as usize].to_string()) } };
            if let Err(e) = check_sorted(&full, desc, &model, n) {
                return Some(("fast_str_order".into(), format!("order_by_string_fast_field {order:?}: {e}")));
            }
            if let Err(e) = check_windows(&full, &get, (n + 1).min(4), (n + 1).min(4)) {
                return Some(("fast_str_window".into(), format!("order_by_string_fast_field {order:?}: {e}")));
            }
        }
    }
    None
}

// ---------------------------------------------------------------------------------------------
// composite sort keys

/// TopDocs::order_by with tuples of 2, 3 and 4 key components - fast fields `g`, `r`, `h` and the relevance
/// score in every position, natural and explicitly ascending components: every limit x offset window equals the
/// slice of the model ranking (component by component, ties by ascending address), and every returned
/// component is the document's true value (the score bit-exact: one scoring clause).
pub fn check_composite_keys(sizes: &[usize], keys: &[u8], threads: usize) -> Option<(String, String)> {
    use tantivy::collector::sort_key::{SortBySimilarityScore, SortByStaticFastValue};
    let mut sb = Schema::builder();
    let id = sb.add_u64_field("id", INDEXED | FAST | STORED);
    let body = sb.add_text_field("body", TEXT);
    let g = sb.add_u64_field("g", FAST);
    let r = sb.add_u64_field("r", FAST);
    let h = sb.add_u64_field("h", FAST);
    let mut index = Index::create_in_ram(sb.build());
    let mut w: IndexWriter = index.writer_with_num_threads(1, 15_000_000).unwrap();
    w.set_merge_policy(Box::new(tantivy::merge_policy::NoMergePolicy));
    let mut i = 0usize;
    for &sz in sizes {
        for _ in 0..sz {
            let mut d = TantivyDocument::default();
            d.add_u64(id, i as u64);
            // relevance differs between documents (term frequency and length), with some exact ties
            d.add_text(body, format!("{}{}", "a ".repeat(1 + i % 3), "x ".repeat(i % 2)));
            d.add_u64(g, keys[i] as u64);
            d.add_u64(r, (i / 2 % 2) as u64);
            d.add_u64(h, (i % 3) as u64);
            w.add_document(d).unwrap();
            i += 1;
        }
        w.commit().unwrap();
    }
    let n = i;
    if threads > 1 {
        index.set_multithread_executor(threads).unwrap();
    }
    let searcher = index.reader().unwrap().searcher();
    let tq = tantivy::query::TermQuery::new(tantivy::Term::from_field_text(body, "a"), IndexRecordOption::WithFreqs);
    let scores: BTreeMap<(u32, u32), f32> = searcher.search(&tq, &AllScores).unwrap().into_iter().map(|(s, a)| (addr_key(&a), s)).collect();
    if scores.len() != n {
        return Some(("machinery".into(), format!("{} of {n} documents match", scores.len())));
    }
    // model components of a document: 0 = g, 1 = r, 2 = h, 3 = score
    let comp = |a: &DocAddress, c: usize| -> f64 {
        let idv = id_of(&searcher, *a) as usize;
        match c {
            0 => keys[idv] as f64,
            1 => (idv / 2 % 2) as f64,
            2 => (idv % 3) as f64,
            _ => scores[&addr_key(a)] as f64,
        }
    };
    let addrs: Vec<DocAddress> = scores.keys().map(|(s, d)| DocAddress::new(*s, *d)).collect();
    let model = |spec: &[(usize, bool)]| -> Vec<(Vec<f64>, DocAddress)> {
        let mut v: Vec<(Vec<f64>, DocAddress)> = addrs.iter().map(|a| (spec.iter().map(|(c, _)| comp(a, *c)).collect(), *a)).collect();
        v.sort_by(|x, y| {
            for (k, (_, asc)) in spec.iter().enumerate() {
                let o = x.0[k].partial_cmp(&y.0[k]).unwrap();
                let o = if *asc { o } else { o.reverse() };
                if o != std::cmp::Ordering::Equal {
                    return o;
                }
            }
            addr_key(&x.1).cmp(&addr_key(&y.1))
        });
        v
    };
    let fu = |x: Option<u64>| x.map(|v| v as f64).unwrap_or(-1.0);
    let fg = || SortByStaticFastValue::<u64>::for_field("g");
    let fr = || SortByStaticFastValue::<u64>::for_field("r");
    let fh = || SortByStaticFastValue::<u64>::for_field("h");
    let sc = || SortBySimilarityScore;
    let asc = Order::Asc;
    macro_rules! case {
        ($name:expr, $spec:expr, $mk:expr, $conv:expr) => {{
            let spec: Vec<(usize, bool)> = $spec;
            let want = model(&spec);
            let get = |k: usize, o: usize| -> Vec<(Vec<f64>, DocAddress)> {
                let hits = searcher.search(&tq, &TopDocs::with_limit(k).and_offset(o).order_by($mk)).unwrap();
                hits.into_iter().map(|(key, a)| ($conv(key), a)).collect()
            };
            let full = get(n + 3, 0);
            if full != want {
                let first = full.iter().zip(want.iter()).position(|(a, b)| a != b).unwrap_or(full.len().min(want.len()));
                return Some((format!("composite_key_order:{}", $name), format!("key {} (components 0 = g, 1 = r, 2 = h, 3 = score; true = ascending) {spec:?}: complete list has {} entries, entry {first} is {:?}, the model ranking has {:?}", $name, full.len(), full.get(first).map(|x| (&x.0, addr_key(&x.1))), want.get(first).map(|x| (&x.0, addr_key(&x.1))))));
            }
            if let Err(e) = check_windows(&want, &get, (n + 1).min(4), (n + 1).min(4)) {
                return Some((format!("composite_key_window:{}", $name), format!("key {} {spec:?}: {e}", $name)));
            }
        }};
    }
    case!("(g,score)", vec![(0, false), (3, false)], (fg(), sc()), |k: (Option<u64>, f32)| vec![fu(k.0), k.1 as f64]);
    case!("(score,g)", vec![(3, false), (0, false)], (sc(), fg()), |k: (f32, Option<u64>)| vec![k.0 as f64, fu(k.1)]);
    case!("(g asc,score)", vec![(0, true), (3, false)], ((fg(), asc), sc()), |k: (Option<u64>, f32)| vec![fu(k.0), k.1 as f64]);
    case!("(g,score asc)", vec![(0, false), (3, true)], (fg(), (sc(), asc)), |k: (Option<u64>, f32)| vec![fu(k.0), k.1 as f64]);
    case!("(g,r,score)", vec![(0, false), (1, false), (3, false)], (fg(), fr(), sc()), |k: (Option<u64>, Option<u64>, f32)| vec![fu(k.0), fu(k.1), k.2 as f64]);
    case!("(g,score,r)", vec![(0, false), (3, false), (1, false)], (fg(), sc(), fr()), |k: (Option<u64>, f32, Option<u64>)| vec![fu(k.0), k.1 as f64, fu(k.2)]);
    case!("(score,g,r)", vec![(3, false), (0, false), (1, false)], (sc(), fg(), fr()), |k: (f32, Option<u64>, Option<u64>)| vec![k.0 as f64, fu(k.1), fu(k.2)]);
    case!("(g asc,r,score asc)", vec![(0, true), (1, false), (3, true)], ((fg(), asc), fr(), (sc(), asc)), |k: (Option<u64>, Option<u64>, f32)| vec![fu(k.0), fu(k.1), k.2 as f64]);
    case!("(g,r,h,score)", vec![(0, false), (1, false), (2, false), (3, false)], (fg(), fr(), fh(), sc()), |k: (Option<u64>, Option<u64>, Option<u64>, f32)| vec![fu(k.0), fu(k.1), fu(k.2), k.3 as f64]);
    case!("(score,g,r,h)", vec![(3, false), (0, false), (1, false), (2, false)], (sc(), fg(), fr(), fh()), |k: (f32, Option<u64>, Option<u64>, Option<u64>)| vec![k.0 as f64, fu(k.1), fu(k.2), fu(k.3)]);
    case!("(g asc,r,h asc,score)", vec![(0, true), (1, false), (2, true), (3, false)], ((fg(), asc), fr(), (fh(), asc), sc()), |k: (Option<u64>, Option<u64>, Option<u64>, f32)| vec![fu(k.0), fu(k.1), fu(k.2), k.3 as f64]);
    None
}

// ---------------------------------------------------------------------------------------------
// pruning family

#[derive(Clone, Debug, serde::Serialize, serde::Deserialize, PartialEq)]
pub struct PruneCorpus {
    pub n: usize,
    /// position of the "hot" document and which term is boosted there
    pub hot_pos: usize,
    pub hot_term: usize,
    pub hot_tf: usize,
    /// 0: one segment; 1: two segments split at n/2; 2: extra segment with one very long document
    pub layout: u8,
    pub period_shift: usize,
    /// rotation of the term roles (which term is the most frequent / the most boosted one)
    #[serde(default)]
    pub perm: usize,
}

const TERMS: [&str; 4] = ["a", "b", "c", "d"];

fn prune_doc_text(c: &PruneCorpus, i: usize) -> String {
    let j = i + c.period_shift;
    // roles: role r has a periodic boost and an absence pattern; term TERMS[(r + perm) % 4] plays role r,
    // and with perm >= 4 the absence patterns are reversed (the most boosted term is the most frequent)
    let mut role_tf = [1 + usize::from(j % 3 == 0), 1 + 2 * usize::from(j % 5 == 0), 1 + 3 * usize::from(j % 7 == 0), 1 + 4 * usize::from(j % 11 == 0)];
    // some documents lack some terms (so that unions and intersections differ)
    let absent = if c.perm < 4 { [usize::MAX, 4, 6, 9] } else { [3, 4, 6, usize::MAX] };
    let rem = [0usize, 1, 2, 4];
    for r in 0..4 {
        if absent[r] != usize::MAX && j % absent[r] == rem[r] % absent[r] {
            role_tf[r] = 0;
        }
    }
    let mut tf = [0usize; 4];
    for r in 0..4 {
        tf[(r + c.perm) % 4] = role_tf[r];
    }
    // perm 8: flat corpus (every document holds every term once, same length) so that the hot document's
    // advantage comes from exactly one term, whichever position it has in the intersection's term order
    if c.perm == 8 {
        tf = [1, 1, 1, 1];
    }
    if i == c.hot_pos {
        tf = [1, 1, 1, 1];
        tf[c.hot_term] = c.hot_tf;
    }
    let filler = if c.perm == 8 { 8 - tf.iter().sum::<usize>().min(8) } else { [0usize, 5, 20, 1, 60][j % 5] };
    let mut toks: Vec<&str> = vec![];
    for (t, &n) in tf.iter().enumerate() {
        for _ in 0..n {
            toks.push(TERMS[t]);
        }
    }
    for _ in 0..filler {
        toks.push("x");
    }
    toks.join(" ")
}

/// layout 3: term frequencies beyond what one byte of block-max metadata can hold. Block 0 (documents 0..127)
/// holds short rivals made of the term only (tf 1..16: a spectrum of high scores), block 1 (128..255) ordinary
/// documents and, at `hot_pos`, one document repeating the term `hot_tf` (256 .. 5000) times - the best match
/// of the segment, inside a full block whose block-max entry saturates.
fn high_tf_doc_text(c: &PruneCorpus, i: usize) -> String {
    let mut toks: Vec<&str> = vec![];
    if i == c.hot_pos {
        for _ in 0..c.hot_tf {
            toks.push(TERMS[c.hot_term]);
        }
    } else if i < 128 {
        for _ in 0..(1 + i % 16) {
            toks.push(TERMS[c.hot_term]);
        }
    } else if i < 256 {
        toks.extend([TERMS[c.hot_term], "x", "x", "x", "x"]);
    } else {
        toks.extend([TERMS[c.hot_term], "x"]);
    }
    if i % 3 == 0 {
        toks.push(TERMS[(c.hot_term + 1) % 4]);
    }
    if i % 4 == 1 {
        toks.push(TERMS[(c.hot_term + 2) % 4]);
    }
    toks.join(" ")
}

pub fn build_prune_index(c: &PruneCorpus) -> Index {
    let mut sb = Schema::builder();
    let _id = sb.add_u64_field("id", INDEXED | FAST | STORED);
    let body = sb.add_text_field("body", TEXT);
    // a second text field whose lengths and frequencies differ from body's, and a field without frequencies
    let title = sb.add_text_field("title", TEXT);
    let tag = sb.add_text_field("tag", STRING);
    let index = Index::create_in_ram(sb.build());
    let id = index.schema().get_field("id").unwrap();
    let mut w: IndexWriter = index.writer_with_num_threads(1, 50_000_000).unwrap();
    w.set_merge_policy(Box::new(tantivy::merge_policy::NoMergePolicy));
    for i in 0..c.n {
        let mut d = TantivyDocument::default();
        d.add_u64(id, i as u64);
        d.add_text(body, if c.layout == 3 { high_tf_doc_text(c, i) } else { prune_doc_text(c, i) });
        d.add_text(title, prune_doc_text(c, (i * 7 + 3) % c.n));
        d.add_text(tag, ["u", "v", "w"][i % 3]);
        w.add_document(d).unwrap();
        if c.layout == 1 && i + 1 == c.n / 2 {
            w.commit().unwrap();
        }
    }
    w.commit().unwrap();
    if c.layout == 2 {
        let mut d = TantivyDocument::default();
        d.add_u64(id, c.n as u64);
        d.add_text(body, "x ".repeat(20_000));
        w.add_document(d).unwrap();
        w.commit().unwrap();
    }
    index
}

/// avgdl-shift family: (tf, field length) of designated documents drawn from a 4-element alphabet,
/// fillers (1,2); optional extra segment whose only role is to move the searcher-wide average length
#[derive(Clone, Debug, serde::Serialize, serde::Deserialize, PartialEq)]
pub struct AlphaCorpus {
    pub s1: usize,
    pub s2: usize,
    pub s2b: usize,
    pub extra_len: usize,
}
pub const ALPHA: [(usize, usize); 4] = [(1, 1), (1, 2), (2, 10), (2, 20)];

pub fn build_alpha_index(c: &AlphaCorpus) -> Index {
    let mut sb = Schema::builder();
    let _id = sb.add_u64_field("id", INDEXED | FAST | STORED);
    let body = sb.add_text_field("body", TEXT);
    let index = Index::create_in_ram(sb.build());
    let id = index.schema().get_field("id").unwrap();
    let mut w: IndexWriter = index.writer_with_num_threads(1, 50_000_000).unwrap();
    w.set_merge_policy(Box::new(tantivy::merge_policy::NoMergePolicy));
    for i in 0..257usize {
        let (tf, len) = match i {
            0 => ALPHA[c.s1],
            128 => ALPHA[c.s2],
            129 => ALPHA[c.s2b],
            _ => (1, 2),
        };
        let mut d = TantivyDocument::default();
        d.add_u64(id, i as u64);
        d.add_text(body, format!("{}{}", "a ".repeat(tf), "x ".repeat(len - tf)));
        w.add_document(d).unwrap();
    }
    w.commit().unwrap();
    if c.extra_len > 0 {
        let mut d = TantivyDocument::default();
        d.add_u64(id, 1000);
        d.add_text(body, "x ".repeat(c.extra_len));
        w.add_document(d).unwrap();
        w.commit().unwrap();
    }
    index
}

fn tq(s: &str) -> Q {
    Q::Term(s.to_string())
}

pub fn prune_queries() -> Vec<(&'static str, Q, usize)> {
    let m = Occ::Must;
    let s = Occ::Should;
    let n = Occ::MustNot;
    vec![
        ("term_a", tq("a"), 1),
        ("term_d", tq("d"), 1),
        ("union_ab", Q::Bool(vec![(s, tq("a")), (s, tq("b"))], None), 2),
        ("union_abc", Q::Bool(vec![(s, tq("a")), (s, tq("b")), (s, tq("c"))], None), 3),
        ("union_abcd", Q::Bool(vec![(s, tq("a")), (s, tq("b")), (s, tq("c")), (s, tq("d"))], None), 4),
        ("inter_ab", Q::Bool(vec![(m, tq("a")), (m, tq("b"))], None), 2),
        ("inter_abc", Q::Bool(vec![(m, tq("a")), (m, tq("b")), (m, tq("c"))], None), 3),
        ("inter_abcd", Q::Bool(vec![(m, tq("a")), (m, tq("b")), (m, tq("c")), (m, tq("d"))], None), 4),
        ("reqopt", Q::Bool(vec![(m, tq("a")), (s, tq("d"))], None), 2),
        ("generic", Q::Bool(vec![(m, tq("a")), (m, tq("b")), (s, tq("c")), (n, tq("d"))], None), 3),
        ("union_msm2", Q::Bool(vec![(s, tq("a")), (s, tq("c")), (s, tq("d"))], Some(2)), 3),
        ("boosted_union", Q::Bool(vec![(s, Q::Boost(Box::new(tq("a")), 2.0)), (s, tq("d"))], None), 2),
    ]
}

fn ulps(a: f32, b: f32) -> u32 {
    if a == b {
        return 0;
    }
    let (x, y) = (a.to_bits() as i64, b.to_bits() as i64);
    (x - y).unsigned_abs() as u32
}

/// Compare TopDocs(K) by score with the exhaustive list.
pub fn check_prune(index: &Index, q: &Q, clauses: usize, ks: &[usize], threads: usize) -> Option<(String, String)> {
    let fields = crate::qmodel::Fields { schema: index.schema(), id: index.schema().get_field("id").unwrap(), body: index.schema().get_field("body").unwrap() };
    let tquery: Box<dyn Query> = lower(q, &fields);
    check_prune_query(index, tquery, clauses, ks, threads)
}

/// queries mixing fields: a second text field with other lengths, and a field indexed without frequencies
pub fn cross_field_queries(index: &Index) -> Vec<(&'static str, Box<dyn Query>, usize)> {
    use tantivy::query::{BooleanQuery, Occur, TermQuery};
    let s = index.schema();
    let (body, title, tag) = (s.get_field("body").unwrap(), s.get_field("title").unwrap(), s.get_field("tag").unwrap());
    let t = |f: Field, x: &str, o: IndexRecordOption| Box::new(TermQuery::new(tantivy::Term::from_field_text(f, x), o)) as Box<dyn Query>;
    let wf = IndexRecordOption::WithFreqs;
    let b = |v: Vec<(Occur, Box<dyn Query>)>| Box::new(BooleanQuery::new(v)) as Box<dyn Query>;
    vec![
        ("union_body_tag", b(vec![(Occur::Should, t(body, "a", wf)), (Occur::Should, t(tag, "u", IndexRecordOption::Basic))]), 2),
        ("union_tag_body_body", b(vec![(Occur::Should, t(tag, "v", IndexRecordOption::Basic)), (Occur::Should, t(body, "a", wf)), (Occur::Should, t(body, "d", wf))]), 3),
        ("union_title_body", b(vec![(Occur::Should, t(title, "a", wf)), (Occur::Should, t(body, "b", wf))]), 2),
        ("inter_title_body", b(vec![(Occur::Must, t(title, "a", wf)), (Occur::Must, t(body, "d", wf))]), 2),
        ("inter_body_title", b(vec![(Occur::Must, t(body, "a", wf)), (Occur::Must, t(title, "d", wf))]), 2),
        ("inter_body_title_tag", b(vec![(Occur::Must, t(body, "a", wf)), (Occur::Must, t(title, "b", wf)), (Occur::Must, t(tag, "u", IndexRecordOption::Basic))]), 3),
        ("reqopt_title_body", b(vec![(Occur::Must, t(title, "c", wf)), (Occur::Should, t(body, "a", wf))]), 2),
    ]
}

pub fn check_prune_query(index: &Index, tquery: Box<dyn Query>, clauses: usize, ks: &[usize], threads: usize) -> Option<(String, String)> {
    let mut index = index.clone();
    if threads > 1 {
        index.set_multithread_executor(threads).unwrap();
    }
    let searcher = index.reader().unwrap().searcher();
    let mut all = searcher.search(&tquery, &AllScores).unwrap();
    all.sort_by(|x, y| y.0.partial_cmp(&x.0).unwrap().then(addr_key(&x.1).cmp(&addr_key(&y.1))));
    let exact = clauses == 1;
    let tol_ulps = 4 * clauses as u32;
    let by_addr: BTreeMap<(u32, u32), f32> = all.iter().map(|x| (addr_key(&x.1), x.0)).collect();
    for &k in ks {
        let top = searcher.search(&tquery, &TopDocs::with_limit(k).order_by_score()).unwrap();
        let want_len = k.min(all.len());
        if top.len() != want_len {
            return Some(("topk_length".into(), format!("K={k}: {} results, {} documents match", top.len(), all.len())));
        }
        if exact {
            let want = &all[..want_len];
            if top[..] != want[..] {
                let firstdiff = top.iter().zip(want.iter()).position(|(a, b)| a != b).unwrap_or(0);
                return Some((
                    "topk_not_the_best_exact".into(),
                    format!("K={k}: entry {firstdiff} is {:?}, the exhaustive ranking has {:?}", (top[firstdiff].0, addr_key(&top[firstdiff].1)), (want[firstdiff].0, addr_key(&want[firstdiff].1))),
                ));
            }
        } else {
            // each returned score is the document's true score (up to rounding of the sum)
            for (s, a) in &top {
                let Some(t) = by_addr.get(&addr_key(a)) else {
                    return Some(("topk_returns_non_matching".into(), format!("K={k}: {:?} is not matched by the query", addr_key(a))));
                };
                if ulps(*s, *t) > tol_ulps {
                    return Some(("topk_wrong_score".into(), format!("K={k}: {:?} returned with score {s}, exhaustive score {t}", addr_key(a))));
                }
            }
            // sorted: non-increasing, exact ties by ascending address
            for w in top.windows(2) {
                if w[0].0 < w[1].0 || (w[0].0 == w[1].0 && addr_key(&w[0].1) >= addr_key(&w[1].1)) {
                    return Some(("topk_not_sorted".into(), format!("K={k}: {:?} before {:?}", (w[0].0, addr_key(&w[0].1)), (w[1].0, addr_key(&w[1].1)))));
                }
            }
            // no omitted document beats a returned one by more than the tolerance
            if let Some(min_ret) = top.last() {
                let returned: std::collections::BTreeSet<(u32, u32)> = top.iter().map(|x| addr_key(&x.1)).collect();
                for (s, a) in &all {
                    if !returned.contains(&addr_key(a)) && *s > min_ret.0 && ulps(*s, min_ret.0) > tol_ulps {
                        return Some((
                            "topk_not_the_best".into(),
                            format!("K={k}: omitted {:?} scores {s}, returned {:?} scores {}", addr_key(a), addr_key(&min_ret.1), min_ret.0),
                        ));
                    }
                }
            }
        }
    }
    None
}

fn prune_corpora(thorough: bool) -> Vec<PruneCorpus> {
    let mut v = vec![];
    let hot_positions: Vec<usize> = if thorough { vec![0, 1, 126, 127, 128, 129, 254, 255, 256, 257, 383, 384, 449] } else { vec![0, 127, 128, 255, 256, 449] };
    for &hp in &hot_positions {
        for ht in 0..4 {
            for (htf, shift) in [(6usize, 0usize), (300, 1)] {
                if !thorough && htf == 300 && ht != 3 {
                    continue;
                }
                for layout in 0..3u8 {
                    for perm in 0..9usize {
                        if perm == 8 && htf != 6 {
                            continue;
                        }
                        if !thorough && perm != 8 && (perm + hp + ht) % 4 != 0 {
                            continue;
                        }
                        v.push(PruneCorpus { n: 450, hot_pos: hp, hot_term: ht, hot_tf: htf, layout, period_shift: shift, perm });
                    }
                }
            }
        }
    }
    // term frequencies above 255 inside a full block (saturating block-max metadata)
    for hp in [128usize, 200, 255] {
        for htf in [256usize, 300, 1000, 5000] {
            for ht in [0usize, 3] {
                if !thorough && (ht == 3 && hp != 200) {
                    continue;
                }
                v.push(PruneCorpus { n: 300, hot_pos: hp, hot_term: ht, hot_tf: htf, layout: 3, period_shift: 0, perm: 0 });
            }
        }
    }
    v
}

/// the recorded finding: block-max metadata is computed under segment-local statistics
pub fn classify_prune(rule: &str, c: &PruneCorpus) -> String {
    if (rule == "topk_not_the_best_exact" || rule == "topk_not_the_best") && c.layout == 2 {
        return format!("{rule}_avgdl_shift");
    }
    rule.to_string()
}

pub fn replay(case: &Value) -> Vec<Violation> {
    quiet_panics();
    let r = catch_unwind(AssertUnwindSafe(|| -> Option<(String, String)> {
        match case["kind"].as_str().unwrap_or("") {
            "tie_custom" => {
                let sizes: Vec<usize> = serde_json::from_value(case["sizes"].clone()).unwrap();
                let keys: Vec<u8> = serde_json::from_value(case["keys"].clone()).unwrap();
                check_tie_custom(&sizes, &keys, case["threads"].as_u64().unwrap_or(1) as usize)
            }
            "tie_fast" => {
                let sizes: Vec<usize> = serde_json::from_value(case["sizes"].clone()).unwrap();
                let keys: Vec<u8> = serde_json::from_value(case["keys"].clone()).unwrap();
                check_tie_fast(&sizes, &keys)
            }
            "composite" => {
                let sizes: Vec<usize> = serde_json::from_value(case["sizes"].clone()).unwrap();
                let keys: Vec<u8> = serde_json::from_value(case["keys"].clone()).unwrap();
                check_composite_keys(&sizes, &keys, case["threads"].as_u64().unwrap_or(1) as usize)
            }
            "tie_deleted" => {
                let sizes: Vec<usize> = serde_json::from_value(case["sizes"].clone()).unwrap();
                let deleted: Vec<usize> = serde_json::from_value(case["deleted"].clone()).unwrap();
                let keys: Vec<u8> = serde_json::from_value(case["keys"].clone()).unwrap();
                let threads = case["threads"].as_u64().unwrap_or(1) as usize;
                // with a thread pool the arrival order of the segments' results can vary: a replay gets several attempts
                let mut r = None;
                for _ in 0..(if threads > 1 { 40 } else { 1 }) {
                    let (searcher, nn) = tie_searcher_del(&sizes, &deleted, threads);
                    r = check_tie_custom_on(&searcher, nn, &keys);
                    if r.is_some() {
                        break;
                    }
                }
                r
            }
            "nonpositive" => {
                let sizes: Vec<usize> = serde_json::from_value(case["sizes"].clone()).unwrap();
                check_nonpositive_scores(&sizes, case["variant"].as_u64().unwrap_or(0) as usize)
            }
            "alpha" => {
                let c: AlphaCorpus = serde_json::from_value(case["corpus"].clone()).unwrap();
                let index = build_alpha_index(&c);
                check_prune(&index, &tq("a"), 1, &[1, 2, 3], 1).map(|(r, w)| (if c.extra_len > 0 { format!("{r}_avgdl_shift") } else { r }, w))
            }
            "prune_cross" => {
                let c: PruneCorpus = serde_json::from_value(case["corpus"].clone()).unwrap();
                let index = build_prune_index(&c);
                let (_, q, clauses) = cross_field_queries(&index).remove(case["query_index"].as_u64().unwrap_or(0) as usize);
                check_prune_query(&index, q, clauses, &[1, 2, 3, 10, 500], case["threads"].as_u64().unwrap_or(1) as usize).map(|(r, w)| (classify_prune(&r, &c), w))
            }
            "prune" => {
                let c: PruneCorpus = serde_json::from_value(case["corpus"].clone()).unwrap();
                let q: Q = serde_json::from_value(case["query"].clone()).unwrap();
                let index = build_prune_index(&c);
                check_prune(&index, &q, case["clauses"].as_u64().unwrap_or(1) as usize, &[1, 2, 3, 10, 500], case["threads"].as_u64().unwrap_or(1) as usize)
                    .map(|(r, w)| (classify_prune(&r, &c), w))
            }
            _ => None,
        }
    }));
    match r {
        Ok(Some((rule, what))) => vec![Violation::new(&rule, what, case.clone())],
        Ok(None) => vec![],
        Err(e) => vec![Violation::new("topk_panic", panic_message(e), case.clone())],
    }
}

fn shapes(max_segs: usize, max_docs: usize, max_total: usize) -> Vec<Vec<usize>> {
    let mut out = vec![];
    fn rec(cur: &mut Vec<usize>, max_segs: usize, max_docs: usize, max_total: usize, out: &mut Vec<Vec<usize>>) {
        if !cur.is_empty() {
            out.push(cur.clone());
        }
        if cur.len() == max_segs {
            return;
        }
        for d in 1..=max_docs {
            if cur.iter().sum::<usize>() + d > max_total {
                break;
            }
            cur.push(d);
            rec(cur, max_segs, max_docs, max_total, out);
            cur.pop();
        }
    }
    rec(&mut vec![], max_segs, max_docs, max_total, &mut out);
    out
}

fn key_assignments(n: usize, base: u8) -> Vec<Vec<u8>> {
    let mut out = vec![];
    let total = (base as usize).pow(n as u32);
    for mut x in 0..total {
        let mut v = vec![0u8; n];
        for slot in v.iter_mut() {
            *slot = (x % base as usize) as u8;
            x /= base as usize;
        }
        out.push(v);
    }
    out
}

pub fn run(ctx: &Ctx) -> Report {
    quiet_panics();
    let mut rep = Report::new("model_checking");
    let thorough = ctx.tier.is_thorough();
    #[derive(Clone)]
    enum W {
        Custom(Vec<usize>, usize),
        Fast(Vec<usize>),
        Prune(PruneCorpus),
        Alpha(AlphaCorpus),
        /// (sizes, deleted ids): custom keys, single- and multi-threaded
        Deleted(Vec<usize>, Vec<usize>),
        NonPositive(Vec<usize>),
        /// (sizes, threads): tuple sort keys mixing fast fields and the score
        Composite(Vec<usize>, usize),
    }
    let mut work: Vec<W> = vec![];
    let (ms, md, mt) = if thorough { (4, 5, 10) } else { (3, 3, 8) };
    for s in shapes(ms, md, mt) {
        work.push(W::Custom(s.clone(), 1));
        if s.len() > 1 {
            work.push(W::Custom(s.clone(), 3));
        }
    }
    for s in shapes(3, 3, if thorough { 5 } else { 4 }) {
        work.push(W::Fast(s));
    }
    for s in shapes(3, if thorough { 4 } else { 3 }, if thorough { 7 } else { 6 }) {
        work.push(W::Composite(s.clone(), 1));
        if s.len() > 1 && thorough {
            work.push(W::Composite(s, 3));
        }
    }
    for c in prune_corpora(thorough) {
        work.push(W::Prune(c));
    }
    // three segments whose alive-document order differs from their size order after deletes
    let tri: Vec<Vec<usize>> = if thorough { shapes(3, 4, 10).into_iter().filter(|s| s.len() == 3).collect() } else { shapes(3, 3, 9).into_iter().filter(|s| s.len() == 3).collect() };
    for sizes in tri {
        let n: usize = sizes.iter().sum();
        let maxdel = if thorough { 3 } else { 2 };
        for mask in 1u32..(1 << n) {
            if mask.count_ones() as usize > maxdel {
                continue;
            }
            let deleted: Vec<usize> = (0..n).filter(|i| mask >> i & 1 == 1).collect();
            // keep at least one alive document per segment
            let mut start = 0;
            let mut ok = true;
            for sz in &sizes {
                if (start..start + sz).all(|i| deleted.contains(&i)) {
                    ok = false;
                }
                start += sz;
            }
            if ok {
                work.push(W::Deleted(sizes.clone(), deleted));
            }
        }
    }
    for s in shapes(3, 3, 6) {
        work.push(W::NonPositive(s));
    }
    for s1 in 0..4 {
        for s2 in 0..4 {
            for s2b in 0..4 {
                for extra_len in [0usize, 2_000, 20_000] {
                    work.push(W::Alpha(AlphaCorpus { s1, s2, s2b, extra_len }));
                }
            }
        }
    }
    let pq = prune_queries();
    let (st, done) = par_for(ctx, work.len(), |i, st| match &work[i] {
        W::Custom(sizes, threads) => {
            let n: usize = sizes.iter().sum();
            let mut assigns = key_assignments(n, 2);
            if n <= 6 {
                assigns.extend(key_assignments(n, 3));
            }
            let (searcher, nn) = tie_searcher(sizes, *threads);
            for keys in assigns {
                st.eval();
                st.count("tie_custom_cases");
                let distinct: std::collections::BTreeSet<u8> = keys.iter().copied().collect();
                if distinct.len() < keys.len() && keys.len() >= 2 {
                    st.nontrivial(&("custom", sizes, threads, &keys));
                }
                let r = catch_unwind(AssertUnwindSafe(|| check_tie_custom_on(&searcher, nn, &keys)));
                let v = match r {
                    Ok(None) => continue,
                    Ok(Some((rule, what))) => (rule, what),
                    Err(e) => ("topk_panic".to_string(), panic_message(e)),
                };
                st.violation(Violation::new(&v.0, format!("segments {sizes:?} keys {keys:?} threads {threads}: {}", v.1), json!({"kind":"tie_custom","sizes":sizes,"keys":keys,"threads":threads})));
                break;
            }
            if i % 17 == 0 {
                st.sample(json!({"kind":"tie_custom","sizes":sizes,"threads":threads,"keys":"all assignments over {0,1} (and {0,1,2} when <= 6 docs)"}));
            }
        }
        W::Deleted(sizes, deleted) => {
            let n: usize = sizes.iter().sum();
            let keysets: Vec<Vec<u8>> = vec![vec![0; n], (0..n).map(|i| (i % 2) as u8).collect(), (0..n).map(|i| ((i / 2) % 2) as u8).collect()];
            for threads in [1usize, 3] {
                let (searcher, nn) = tie_searcher_del(sizes, deleted, threads);
                for keys in &keysets {
                    st.eval();
                    st.count("tie_deleted_cases");
                    st.nontrivial(&("deleted", sizes, deleted, threads, keys));
                    let r = catch_unwind(AssertUnwindSafe(|| check_tie_custom_on(&searcher, nn, keys)));
                    let v = match r {
                        Ok(None) => continue,
                        Ok(Some((rule, what))) => (rule, what),
                        Err(e) => ("topk_panic".to_string(), panic_message(e)),
                    };
                    st.violation(Violation::new(&v.0, format!("segments {sizes:?} deleted ids {deleted:?} keys {keys:?} threads {threads}: {}", v.1), json!({"kind":"tie_deleted","sizes":sizes,"deleted":deleted,"keys":keys,"threads":threads})));
                    return;
                }
            }
        }
        W::NonPositive(sizes) => {
            for variant in 0..6usize {
                st.eval();
                st.count("nonpositive_score_cases");
                st.nontrivial(&("nonpositive", sizes, variant));
                let r = catch_unwind(AssertUnwindSafe(|| check_nonpositive_scores(sizes, variant)));
                let v = match r {
                    Ok(None) => continue,
                    Ok(Some((rule, what))) if rule == "machinery" => {
                        st.errors.push(what);
                        continue;
                    }
                    Ok(Some((rule, what))) => (rule, what),
                    Err(e) => ("topk_panic".to_string(), format!("{} [{}]", panic_message(e), last_panic())),
                };
                st.violation(Violation::new(&v.0, format!("segments {sizes:?}: {}", v.1), json!({"kind":"nonpositive","sizes":sizes,"variant":variant})));
                break;
            }
        }
        W::Fast(sizes) => {
            let n: usize = sizes.iter().sum();
            for keys in key_assignments(n, 3) {
                st.eval();
                st.count("tie_fast_cases");
                st.nontrivial(&("fast", sizes, &keys));
                let r = catch_unwind(AssertUnwindSafe(|| check_tie_fast(sizes, &keys)));
                let v = match r {
                    Ok(None) => continue,
                    Ok(Some((rule, what))) => (rule, what),
                    Err(e) => ("topk_panic".to_string(), format!("{} [{}]", panic_message(e), last_panic())),
                };
                st.violation(Violation::new(&v.0, format!("segments {sizes:?} keys {keys:?} (2 = missing): {}", v.1), json!({"kind":"tie_fast","sizes":sizes,"keys":keys})));
                break;
            }
        }
        W::Composite(sizes, threads) => {
            let n: usize = sizes.iter().sum();
            for keys in key_assignments(n, 2) {
                st.eval();
                st.count("composite_key_cases");
                st.nontrivial(&("composite", sizes, &keys, threads));
                let r = catch_unwind(AssertUnwindSafe(|| check_composite_keys(sizes, &keys, *threads)));
                let v = match r {
                    Ok(None) => continue,
                    Ok(Some((rule, what))) => (rule, what),
                    Err(e) => ("topk_panic".to_string(), format!("{} [{}]", panic_message(e), last_panic())),
                };
                st.violation(Violation::new(&v.0, format!("segments {sizes:?} g keys {keys:?} threads {threads}: {}", v.1), json!({"kind":"composite","sizes":sizes,"keys":keys,"threads":threads})));
                break;
            }
        }
        W::Alpha(c) => {
            st.eval();
            st.count("alpha_cases");
            st.nontrivial(&("alpha", format!("{c:?}")));
            let index = build_alpha_index(c);
            let r = catch_unwind(AssertUnwindSafe(|| check_prune(&index, &tq("a"), 1, &[1, 2, 3], 1)));
            let v = match r {
                Ok(None) => return,
                Ok(Some((rule, what))) => (if c.extra_len > 0 { format!("{rule}_avgdl_shift") } else { rule }, what),
                Err(e) => ("topk_panic".to_string(), format!("{} [{}]", panic_message(e), last_panic())),
            };
            st.violation(Violation::new(&v.0, format!("alpha corpus {c:?} (doc 0 = {:?}, doc 128 = {:?}, doc 129 = {:?}, fillers (1,2), extra segment of {} tokens) term query: {}", ALPHA[c.s1], ALPHA[c.s2], ALPHA[c.s2b], c.extra_len, v.1), json!({"kind":"alpha","corpus":c})));
        }
        W::Prune(c) => {
            let index = build_prune_index(c);
            for (name, q, clauses) in &pq {
                for threads in [1usize, 3] {
                    if threads == 3 && c.layout == 0 {
                        continue;
                    }
                    st.eval();
                    st.count("prune_cases");
                    st.nontrivial(&("prune", format!("{c:?}"), name, threads));
                    let r = catch_unwind(AssertUnwindSafe(|| check_prune(&index, q, *clauses, &[1, 2, 3, 10, 500], threads)));
                    let v = match r {
                        Ok(None) => continue,
                        Ok(Some((rule, what))) => (classify_prune(&rule, c), what),
                        Err(e) => ("topk_panic".to_string(), format!("{} [{}]", panic_message(e), last_panic())),
                    };
                    st.violation(Violation::new(
                        &v.0,
                        format!("corpus {c:?} query {name} threads {threads}: {}", v.1),
                        json!({"kind":"prune","corpus":c,"query":q,"clauses":clauses,"threads":threads,"name":name}),
                    ));
                }
            }
            for (qi, (name, _, clauses)) in cross_field_queries(&index).iter().enumerate() {
                for threads in [1usize, 3] {
                    if threads == 3 && c.layout == 0 {
                        continue;
                    }
                    st.eval();
                    st.count("prune_cross_field_cases");
                    let tq2 = cross_field_queries(&index).remove(qi).1;
                    let r = catch_unwind(AssertUnwindSafe(|| check_prune_query(&index, tq2, *clauses, &[1, 2, 3, 10, 500], threads)));
                    let v = match r {
                        Ok(None) => continue,
                        Ok(Some((rule, what))) => (classify_prune(&rule, c), what),
                        Err(e) => ("topk_panic".to_string(), format!("{} [{}]", panic_message(e), last_panic())),
                    };
                    st.violation(Violation::new(&v.0, format!("corpus {c:?} cross-field query {name} threads {threads}: {}", v.1), json!({"kind":"prune_cross","corpus":c,"query_index":qi,"clauses":clauses,"threads":threads,"name":name})));
                }
            }
            if i % 13 == 0 {
                st.sample(json!({"kind":"prune","corpus":c,"queries":pq.iter().map(|x| x.0).collect::<Vec<_>>()}));
            }
        }
    });
    rep.set("exhaustive", done == work.len());
    rep.set("rule", "tie family with deletes: every shape of exactly 3 segments (<= 3 docs each; thorough 4) x every set of <= 2 (thorough 3) deleted documents leaving each segment alive x 3 key patterns x {1, 3} search threads, custom keys: every window equals the slice of the ranking by (key desc, address asc) of the alive documents. Non-positive scores: every shape of <= 3 segments x 6 queries whose scores are zero, negative or mixed (const 0, boost 0, boost -1, const -2.5, demotion clause, promotion clause): every limit x offset window of order_by_score equals the slice of the exhaustive ranking. tie family: every segment shape (<= 3 segments x <= 3 docs; thorough 4 x 5) x every key assignment over {0,1} (and {0,1,2}) through tweak_score, single and multi-threaded; score ties and u64 / i64 / f64 / date / string fast-field keys with missing values, ascending and descending; every limit 1..5 x offset 0..5 window must equal the slice of the complete list ordered (key, ascending address), also when TopDocs sits inside a tuple collector, a MultiCollector or a FilterCollector. composite keys: every segment shape (<= 3 segments x <= 3 docs, <= 6 docs; thorough 4 / 7, also 3 search threads) x every assignment of the first component over {0,1} x 11 tuple keys of 2, 3 and 4 components (fast fields and the relevance score in every position, natural and explicitly ascending components): every limit x offset window equals the model ranking and carries the documents' true component values. pruning family: term frequencies of 256 - 5000 inside a full block (saturating block-max metadata) with a spectrum of short rivals in the preceding block; 450-document corpora with periodic (tf, length) patterns, a hot document at each block-boundary position, tf 300, 1-2 segments and an avgdl-shifting segment x 12 queries (term, unions and intersections of 2-4 terms, required-optional, generic, msm, boosted) and 7 cross-field queries (a second text field with other lengths, a field indexed without frequencies; unions, intersections in both clause orders, required-optional) x K in {1,2,3,10,500}: TopDocs by score vs the exhaustive ranking from a non-pruning collector (exact for one clause, 4 ulp per clause otherwise). Non-trivial: assignment with a tie / every pruning case; distinct by case descriptor");
    for k in ["tie_custom_cases", "tie_fast_cases", "prune_cases", "composite_key_cases"] {
        if st.counters.get(k).copied().unwrap_or(0) == 0 {
            rep.machinery_errors.push(format!("vacuous: {k} = 0"));
        }
    }
    rep.set("states", st.nontrivial.len() as u64);
    rep.set("transitions", st.evaluations);
    rep.set("traces_validated_against_impl", st.evaluations);
    rep.assume("placement of documents without a sort value is only required to be consistent (all first or all last, ascending address among themselves)");
    rep.assume("multi-clause relevance scores are compared within 4 ulp per clause");
    rep.merge_stats(&st);
    rep.violations = st.violations;
    rep.machinery_errors.extend(st.errors);
    rep
}
