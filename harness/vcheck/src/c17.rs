//! C17 - a sorted index keeps every segment in sort order, with unchanged semantics.
use std::panic::{catch_unwind, AssertUnwindSafe};

use serde::{Deserialize, Serialize};
use serde_json::{json, Value};
use tantivy::directory::RamDirectory;
use tantivy::index::SegmentId;
use tantivy::schema::*;
use tantivy::{Index, IndexSettings, IndexSortByField, IndexWriter, Order, Searcher, TantivyDocument, Term};

use crate::common::*;
use crate::hist::*;

pub const SORT_FIELDS: [&str; 6] = ["sv", "su", "sf", "sd", "ss", "sb"];

/// sort key of every document of a segment in doc-id order (None = missing), as an order-comparable i64
fn segment_sort_keys(searcher: &Searcher, ord: usize, field: &str) -> Result<Vec<Option<i64>>, String> {
    let seg = searcher.segment_reader(ord as u32);
    let ff = seg.fast_fields();
    let n = seg.max_doc();
    let mut out = vec![];
    match field {
        "sv" => {
            let c = ff.i64(field).map_err(|e| format!("{e:?}"))?;
            for d in 0..n {
                out.push(c.first(d));
            }
        }
        "su" => {
            let c = ff.u64(field).map_err(|e| format!("{e:?}"))?;
            for d in 0..n {
                out.push(c.first(d).map(|v| v as i64));
            }
        }
        "sf" => {
            let c = ff.f64(field).map_err(|e| format!("{e:?}"))?;
            for d in 0..n {
                out.push(c.first(d).map(|v| (v * 2.0) as i64));
            }
        }
        "sd" => {
            let c = ff.date(field).map_err(|e| format!("{e:?}"))?;
            for d in 0..n {
                out.push(c.first(d).map(|v| v.into_timestamp_secs()));
            }
        }
        "ss" => {
            let c = ff.str(field).map_err(|e| format!("{e:?}"))?.ok_or("no ss column")?;
            for d in 0..n {
                let mut s = String::new();
                let v = match c.term_ords(d).next() {
                    Some(o) => {
                        c.ord_to_str(o, &mut s).map_err(|e| e.to_string())?;
                        Some(s.as_bytes().first().copied().unwrap_or(0) as i64)
                    }
                    None => None,
                };
                out.push(v);
            }
        }
        _ => {
            let c = ff.bytes(field).map_err(|e| format!("{e:?}"))?.ok_or("no sb column")?;
            for d in 0..n {
                let mut b = vec![];
                let v = match c.term_ords(d).next() {
                    Some(o) => {
                        c.ord_to_bytes(o, &mut b).map_err(|e| e.to_string())?;
                        Some(b.first().copied().unwrap_or(0) as i64)
                    }
                    None => None,
                };
                out.push(v);
            }
        }
    }
    Ok(out)
}

/// ascending: missing first then non-decreasing; descending: non-increasing then missing last
pub fn check_order(keys: &[Option<i64>], asc: bool) -> Result<(), String> {
    for w in keys.windows(2) {
        let ok = match (w[0], w[1]) {
            (None, None) => true,
            (None, Some(_)) => asc,
            (Some(_), None) => !asc,
            (Some(a), Some(b)) => {
                if asc {
                    a <= b
                } else {
                    a >= b
                }
            }
        };
        if !ok {
            return Err(format!("sort keys in doc-id order {keys:?} are not {} with missing values {}", if asc { "ascending" } else { "descending" }, if asc { "first" } else { "last" }));
        }
    }
    Ok(())
}

fn check_all_segments(searcher: &Searcher, field: &str, asc: bool, st: &mut Stats) -> Result<(), (String, String)> {
    for ord in 0..searcher.segment_readers().len() {
        let keys = segment_sort_keys(searcher, ord, field).map_err(|e| ("sort_key_read_error".to_string(), e))?;
        st.count("segments_order_checked");
        if keys.len() >= 2 {
            st.count("segments_with_two_docs");
        }
        check_order(&keys, asc).map_err(|e| ("segment_not_in_sort_order".to_string(), format!("segment {ord}: {e}")))?;
    }
    Ok(())
}

/// history family: the C02 oracle under a sorted index + per-segment order after every observation
pub fn run_history(prefix: &[Op], hist: &[Op], cfg: &Config, st: &mut Stats) -> Option<(String, String)> {
    let (field, asc) = cfg.sort.clone()?;
    let mut h = match Harness::create(Box::new(RamDirectory::create()), cfg) {
        Ok(h) => h,
        Err(e) => return Some(("machinery".into(), format!("{e:?}"))),
    };
    let mut model = RefIndex::new();
    for (i, op) in prefix.iter().chain(hist.iter()).enumerate() {
        st.count("transitions");
        let r = h.exec(*op, &model);
        model.apply(*op);
        match r {
            Ok(()) => {}
            Err((rule, _)) if rule == "writer_commit_opstamp_stale" => {}
            Err((rule, what)) => return Some((rule, format!("step {i} {op:?}: {what}"))),
        }
        if op.observes() {
            st.count("observations");
            let got = match h.observe() {
                Ok(g) => g,
                Err((rule, what)) => return Some((rule, format!("after step {i} {op:?}: {what}"))),
            };
            if got != model.committed {
                return Some(("committed_content_differs".into(), format!("after step {i} {op:?}: a fresh searcher holds {} but the model has {}", show_docs(&got), show_docs(&model.committed))));
            }
            let searcher = crate::orv!(h.index.reader(), "h.index.reader()").searcher();
            if let Err((r, w)) = check_all_segments(&searcher, &field, asc, st) {
                return Some((r, format!("after step {i} {op:?}: {w}")));
            }
            // sort values stay attached to the right document
            for (ord, seg) in searcher.segment_readers().iter().enumerate() {
                let ids = crate::orv!(seg.fast_fields().u64("id"), "seg.fast_fields().u64( id )");
                let sv = crate::orv!(seg.fast_fields().i64("sv"), "seg.fast_fields().i64( sv )");
                for d in seg.doc_ids_alive() {
                    let id = ids.first(d)?;
                    if sv.first(d) != sort_base(id) {
                        return Some(("sort_value_attached_to_wrong_document".into(), format!("segment {ord} doc id {id}: sv = {:?}, the document was added with {:?}", sv.first(d), sort_base(id))));
                    }
                }
            }
        }
    }
    None
}

// ---------------------------------------------------------------------------------------------
// merge family: explicit sort values per document

#[derive(Clone, Debug, Serialize, Deserialize)]
pub struct MergeCase {
    /// sort value per document of each segment: 0 = missing, 1..3 = v1 < v2 < v3
    pub segs: Vec<Vec<u8>>,
    pub deleted: Vec<usize>,
    pub field: String,
    pub asc: bool,
}

fn value_of(sym: u8) -> Option<i64> {
    match sym {
        0 => None,
        1 => Some(-2),
        2 => Some(0),
        _ => Some(3),
    }
}

pub fn check_merge_case(c: &MergeCase, st: &mut Stats) -> Option<(String, String)> {
    let mut sb = Schema::builder();
    let id = sb.add_u64_field("id", INDEXED | FAST | STORED);
    let txt = sb.add_text_field("txt", TEXT | STORED);
    let sv = sb.add_i64_field("sv", FAST | STORED);
    let su = sb.add_u64_field("su", FAST);
    let sf = sb.add_f64_field("sf", FAST);
    let sd = sb.add_date_field("sd", FAST);
    let ss = sb.add_text_field("ss", STRING | FAST);
    let sbf = sb.add_bytes_field("sb", FAST);
    let schema = sb.build();
    let settings = IndexSettings { sort_by_field: Some(IndexSortByField { field: c.field.clone(), order: if c.asc { Order::Asc } else { Order::Desc } }), ..IndexSettings::default() };
    let index = crate::orv!(Index::builder().schema(schema.clone()).settings(settings).create_in_ram(), "Index::builder().schema(schema.clone()).settings(s");
    let mut w: IndexWriter = crate::orv!(index.writer_with_num_threads(1, 15_000_000), "index.writer_with_num_threads(1 15_000_000)");
    w.set_merge_policy(Box::new(tantivy::merge_policy::NoMergePolicy));
    let mut k = 0u64;
    let mut all_vals: Vec<Option<i64>> = vec![];
    for seg in &c.segs {
        for &sym in seg {
            let mut d = TantivyDocument::default();
            d.add_u64(id, k);
            d.add_text(txt, format!("t{k} common"));
            if let Some(v) = value_of(sym) {
                d.add_i64(sv, v);
                d.add_u64(su, (v + 2) as u64);
                d.add_f64(sf, v as f64 * 0.5);
                d.add_date(sd, tantivy::DateTime::from_timestamp_secs(v * 86_400));
                d.add_text(ss, ["a", "", "c", "", "", "f"][(v + 2) as usize]);
                d.add_bytes(sbf, &[(v + 2) as u8][..]);
            }
            all_vals.push(value_of(sym));
            crate::orv!(w.add_document(d), "w.add_document(d)");
            k += 1;
        }
        if !seg.is_empty() {
            crate::orv!(w.commit(), "w.commit()");
        }
    }
    if !c.deleted.is_empty() {
        for &d in &c.deleted {
            w.delete_term(Term::from_field_u64(id, d as u64));
        }
        crate::orv!(w.commit(), "w.commit()");
    }
    let check_on = |index: &Index, stage: &str, st: &mut Stats| -> Option<(String, String)> {
        let searcher = match index.reader() {
            Ok(r) => r.searcher(),
            Err(e) => return Some(("sorted_index_unreadable".into(), format!("{stage}: reader: {e:?}"))),
        };
        if let Err((r, w)) = check_all_segments(&searcher, &c.field, c.asc, st) {
            return Some((r, format!("{stage}: {w}")));
        }
        // content: alive ids, stored text, sort value and postings attached to the right id
        let mut seen = vec![];
        for (ord, seg) in searcher.segment_readers().iter().enumerate() {
            let ids = match seg.fast_fields().u64("id") {
                Ok(c) => c,
                Err(e) => return Some(("sorted_index_unreadable".into(), format!("{stage}: fast field id: {e:?}"))),
            };
            let svc = match seg.fast_fields().i64("sv") {
                Ok(c) => c,
                Err(e) => return Some(("sorted_index_unreadable".into(), format!("{stage}: fast field sv: {e:?}"))),
            };
            for d in seg.doc_ids_alive() {
                use tantivy::schema::document::Value as _;
                let i = ids.first(d)? as usize;
                seen.push(i);
                if svc.first(d) != all_vals[i] {
                    return Some(("sort_value_attached_to_wrong_document".into(), format!("{stage}: doc id {i} has sv {:?}, added with {:?}", svc.first(d), all_vals[i])));
                }
                let stored: TantivyDocument = match searcher.doc(tantivy::DocAddress::new(ord as u32, d)) {
                    Ok(x) => x,
                    Err(e) => return Some(("sorted_index_unreadable".into(), format!("{stage}: stored document of doc id {i}: {e:?}"))),
                };
                let t = stored.get_first(txt).and_then(|v| v.as_str().map(|s| s.to_string()));
                if t.as_deref() != Some(format!("t{i} common").as_str()) {
                    return Some(("stored_field_attached_to_wrong_document".into(), format!("{stage}: doc id {i} has stored text {t:?}")));
                }
                let q = tantivy::query::TermQuery::new(Term::from_field_text(txt, &format!("t{i}")), IndexRecordOption::Basic);
                let hits = match searcher.search(&q, &tantivy::collector::DocSetCollector) {
                    Ok(x) => x,
                    Err(e) => return Some(("sorted_index_unreadable".into(), format!("{stage}: search: {e:?}"))),
                };
                if hits.len() != 1 || !hits.contains(&tantivy::DocAddress::new(ord as u32, d)) {
                    return Some(("postings_attached_to_wrong_document".into(), format!("{stage}: term t{i} matches {hits:?}, the document is at ({ord}, {d})")));
                }
            }
        }
        seen.sort();
        let want: Vec<usize> = (0..all_vals.len()).filter(|i| !c.deleted.contains(i)).collect();
        if seen != want {
            return Some(("live_documents_differ".into(), format!("{stage}: live ids {seen:?}, expected {want:?}")));
        }
        None
    };
    let check = |stage: &str, st: &mut Stats| check_on(&index, stage, st);
    if let Some(v) = check("before the merge", st) {
        return Some(v);
    }
    let ids: Vec<SegmentId> = crate::orv!(index.searchable_segment_ids(), "index.searchable_segment_ids()");
    // the same segments merged into a new index by merge_indices (another call site of the merger)
    if ids.len() >= 2 {
        match tantivy::indexer::merge_indices(&[index.clone()], tantivy::directory::RamDirectory::create()) {
            Ok(merged) => {
                st.count("sorted_merge_indices");
                if let Some((r, w)) = check_on(&merged, "merge_indices into a new index", st) {
                    return Some((r, w));
                }
            }
            Err(e) => return Some(("merge_failed".into(), format!("merge_indices: {e:?}"))),
        }
    }
    if ids.len() >= 2 {
        if let Err(e) = w.merge(&ids).wait() {
            return Some(("merge_failed".into(), format!("{e:?}")));
        }
        st.count("sorted_merges");
        if let Some(v) = check("after the merge", st) {
            return Some(v);
        }
    }
    crate::orv!(w.wait_merging_threads(), "w.wait_merging_threads()");
    None
}

pub fn replay(case: &Value) -> Vec<Violation> {
    quiet_panics();
    let mut st = Stats::default();
    let r = if case.get("segs").is_some() {
        let Ok(c) = serde_json::from_value::<MergeCase>(case.clone()) else { return vec![] };
        catch_unwind(AssertUnwindSafe(|| check_merge_case(&c, &mut st)))
    } else {
        let prefix: Vec<Op> = serde_json::from_value(case["prefix"].clone()).unwrap_or_default();
        let hist: Vec<Op> = serde_json::from_value(case["history"].clone()).unwrap_or_default();
        let Ok(cfg) = serde_json::from_value::<Config>(case["config"].clone()) else { return vec![] };
        set_flush_after(case["flush_after"].as_u64().map(|x| x as u32));
        let r = catch_unwind(AssertUnwindSafe(|| run_history(&prefix, &hist, &cfg, &mut st)));
        set_flush_after(None);
        r
    };
    match r {
        Ok(None) => vec![],
        Ok(Some((r, w))) => vec![Violation::new(&r, w, case.clone())],
        Err(e) => vec![Violation::new("sorted_index_panic", panic_message(e), case.clone())],
    }
}

fn sequences(maxlen: usize) -> Vec<Vec<u8>> {
    let mut out: Vec<Vec<u8>> = vec![];
    let mut frontier: Vec<Vec<u8>> = vec![vec![]];
    for _ in 0..maxlen {
        let mut next = vec![];
        for s in &frontier {
            for sym in 0..4u8 {
                let mut t = s.clone();
                t.push(sym);
                next.push(t);
            }
        }
        out.extend(next.iter().cloned());
        frontier = next;
    }
    out
}

const HIST_OPS: [Op; 8] = [Op::AddA, Op::AddB, Op::DelA, Op::DelLastId, Op::RunBatch, Op::Commit, Op::Rollback, Op::MergeAll];

pub fn run(ctx: &Ctx) -> Report {
    quiet_panics();
    let mut rep = Report::new("model_checking");
    let thorough = ctx.tier.is_thorough();
    enum W {
        H(usize, Vec<Op>, Config),
        M(MergeCase),
    }
    let prefixes: Vec<Vec<Op>> = vec![
        vec![],
        vec![Op::AddA, Op::AddB, Op::AddA, Op::AddB, Op::Commit],
        // (the writer, and the Index itself, are re-opened from the directory after the first commit: the sort
        // settings of everything written afterwards come from meta.json)
        vec![Op::AddA, Op::AddB, Op::AddA, Op::Commit, Op::Reopen, Op::AddB, Op::AddA, Op::AddA, Op::AddB, Op::Commit],
    ];
    let mut work: Vec<W> = vec![];
    let fields: Vec<&str> = if thorough { SORT_FIELDS.to_vec() } else { vec!["sv", "ss"] };
    let depth = if thorough { 4 } else { 3 };
    // histories of exactly `depth` operations ending with an observing one
    let mut hists: Vec<Vec<Op>> = vec![];
    fn rec(cur: &mut Vec<Op>, depth: usize, out: &mut Vec<Vec<Op>>) {
        if cur.len() == depth {
            if cur.last().map(|o| o.observes()).unwrap_or(false) {
                out.push(cur.clone());
            }
            return;
        }
        for &o in &HIST_OPS {
            cur.push(o);
            rec(cur, depth, out);
            cur.pop();
        }
    }
    rec(&mut vec![], depth, &mut hists);
    for f in &fields {
        for asc in [true, false] {
            let cfg = Config { workers: 1, sort: Some((f.to_string(), asc)), eager_merges: false };
            for pi in 0..prefixes.len() {
                if !thorough && pi == 1 {
                    continue;
                }
                for h in &hists {
                    work.push(W::H(pi, h.clone(), cfg.clone()));
                }
            }
        }
    }
    // merge family
    let seqs = sequences(if thorough { 3 } else { 2 });
    let mfields: Vec<&str> = if thorough { SORT_FIELDS.to_vec() } else { vec!["sv", "ss", "sd"] };
    for a in &seqs {
        for b in &seqs {
            if thorough && a.len() + b.len() > 5 {
                continue;
            }
            let n = a.len() + b.len();
            for mask in 0..(1u32 << n) {
                let deleted: Vec<usize> = (0..n).filter(|i| mask >> i & 1 == 1).collect();
                if deleted.len() == n {
                    continue;
                }
                for (fi, f) in mfields.iter().enumerate() {
                    if (thorough || n >= 4) && (mask as usize + fi + a.len()) % mfields.len() != 0 {
                        continue;
                    }
                    for asc in [true, false] {
                        work.push(W::M(MergeCase { segs: vec![a.clone(), b.clone()], deleted: deleted.clone(), field: f.to_string(), asc }));
                    }
                }
            }
        }
    }
    // three segments, one designated shape per field
    for f in SORT_FIELDS {
        for asc in [true, false] {
            work.push(W::M(MergeCase { segs: vec![vec![3, 0, 1], vec![2, 2, 0], vec![1, 3]], deleted: vec![0, 4], field: f.to_string(), asc }));
            work.push(W::M(MergeCase { segs: vec![vec![3, 3], vec![2, 0], vec![1, 1]], deleted: vec![2], field: f.to_string(), asc }));
        }
    }
    let (st, done) = par_for(ctx, work.len(), |i, st| {
        st.eval();
        let (r, casej, desc) = match &work[i] {
            W::H(pi, h, cfg) => {
                st.nontrivial(&("h", pi, h, format!("{:?}", cfg.sort)));
                st.count("history_cases");
                if i % 2003 == 0 {
                    st.sample(json!({"prefix":prefixes[*pi],"history":h,"config":cfg}));
                }
                (
                    catch_unwind(AssertUnwindSafe(|| run_history(&prefixes[*pi], h, cfg, st))),
                    json!({"prefix":prefixes[*pi],"history":h,"config":cfg}),
                    format!("sort {:?} prefix {:?} history {:?}", cfg.sort, prefixes[*pi], h),
                )
            }
            W::M(mc) => {
                st.nontrivial(&("m", &mc.segs, &mc.deleted, &mc.field, mc.asc));
                st.count("merge_cases");
                if i % 3001 == 0 {
                    st.sample(serde_json::to_value(mc).unwrap());
                }
                (catch_unwind(AssertUnwindSafe(|| check_merge_case(mc, st))), serde_json::to_value(mc).unwrap(), format!("sort values per segment {:?} (0 = missing) deleted {:?} sorted by {} {}", mc.segs, mc.deleted, mc.field, if mc.asc { "asc" } else { "desc" }))
            }
        };
        let (rule, what) = match r {
            Ok(None) => return,
            Ok(Some(x)) => x,
            Err(e) => ("sorted_index_panic".to_string(), format!("{} [{}]", panic_message(e), last_panic())),
        };
        st.violation(Violation::new(&rule, format!("{desc}: {what}"), casej));
    });
    rep.set("exhaustive", done == work.len());
    rep.set("work_items", work.len() as u64);
    rep.set("rule", "history family: every history of 3 (thorough 4) operations over {add a, add b, delete a, delete last id, batch, commit, rollback, merge all} ending with an observing one, from the empty index and from one / two committed multi-document segments, for sort field type {i64, str} (thorough: u64, i64, f64, date, str, bytes) x {asc, desc}: content equals the reference model, every segment (alive and deleted documents) is in sort order with missing values first (asc) / last (desc), sort values / stored fields / postings stay attached to their document; merge family: every pair of segments whose documents carry sort values from {missing, v1 < v2 < v3} in every order (length <= 2 each; thorough 3) x every delete subset x type x direction, merged (disjoint ranges -> stacking, overlapping -> k-way, live nulls), plus three-segment shapes. Non-trivial: every case; distinct by descriptor");
    for k in ["history_cases", "merge_cases", "sorted_merges", "segments_with_two_docs"] {
        if st.counters.get(k).copied().unwrap_or(0) == 0 {
            rep.machinery_errors.push(format!("vacuous: {k} = 0"));
        }
    }
    rep.set("states", st.counters.get("segments_order_checked").copied().unwrap_or(1).max(1));
    rep.set("transitions", (st.counters.get("transitions").copied().unwrap_or(0) + st.counters.get("sorted_merges").copied().unwrap_or(0)).max(1));
    rep.set("traces_validated_against_impl", st.evaluations);
    rep.merge_stats(&st);
    rep.violations = st.violations;
    rep.machinery_errors.extend(st.errors);
    rep
}
