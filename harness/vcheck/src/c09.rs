//! C09 - stored documents are returned exactly as they were added.
use std::collections::BTreeMap;
use std::panic::{catch_unwind, AssertUnwindSafe};

use serde::{Deserialize, Serialize};
use serde_json::{json, Value};
use tantivy::schema::*;
use tantivy::store::{Compressor, ZstdCompressor};
use tantivy::index::SegmentId;
use tantivy::{DocAddress, Index, IndexSettings, IndexWriter, TantivyDocument, Term};

use crate::common::*;

/// a document of the alphabet, by name (replayable)
pub const ALPHABET: [&str; 21] = [
    "empty", "text", "text2", "u64", "i64", "f64", "date", "bool", "bytes", "ip", "facet", "json_nested", "json_edge", "unicode", "text40k", "stored_and_not", "mixed_all", "len127", "len128", "len16384", "interleaved120",
];

pub fn make_schema() -> Schema {
    let mut sb = Schema::builder();
    sb.add_u64_field("id", INDEXED | FAST | STORED);
    sb.add_text_field("t", TEXT | STORED);
    sb.add_text_field("ns", TEXT);
    sb.add_u64_field("u", STORED);
    sb.add_i64_field("i", STORED);
    sb.add_f64_field("f", STORED);
    sb.add_date_field("d", STORED);
    sb.add_bool_field("b", STORED);
    sb.add_bytes_field("y", STORED);
    sb.add_ip_addr_field("p", STORED);
    sb.add_facet_field("c", FacetOptions::default().set_stored());
    sb.add_json_field("j", STORED);
    sb.build()
}

fn jobj(v: Value) -> OwnedValue {
    let obj: BTreeMap<String, OwnedValue> = serde_json::from_value(v).unwrap();
    OwnedValue::Object(obj.into_iter().collect())
}

/// field values of an alphabet document (without the id field)
pub fn alphabet_doc(name: &str) -> Vec<(&'static str, OwnedValue)> {
    let s = |x: &str| OwnedValue::Str(x.to_string());
    match name {
        "empty" => vec![],
        "text" => vec![("t", s("hello world"))],
        "text2" => vec![("t", s("first")), ("t", s("")), ("t", s("third value"))],
        "u64" => vec![("u", OwnedValue::U64(u64::MAX)), ("u", OwnedValue::U64(0))],
        "i64" => vec![("i", OwnedValue::I64(i64::MIN)), ("i", OwnedValue::I64(-1))],
        "f64" => vec![("f", OwnedValue::F64(-0.0)), ("f", OwnedValue::F64(f64::MAX)), ("f", OwnedValue::F64(1.5e-300))],
        "date" => vec![("d", OwnedValue::Date(tantivy::DateTime::from_timestamp_nanos(1_600_000_000_123_456_789))), ("d", OwnedValue::Date(tantivy::DateTime::from_timestamp_nanos(-1)))],
        "bool" => vec![("b", OwnedValue::Bool(true)), ("b", OwnedValue::Bool(false))],
        "bytes" => vec![("y", OwnedValue::Bytes(vec![])), ("y", OwnedValue::Bytes((0..=255u8).collect()))],
        "ip" => vec![("p", OwnedValue::IpAddr("::ffff:10.0.0.1".parse().unwrap())), ("p", OwnedValue::IpAddr("2001:db8::1".parse().unwrap()))],
        "facet" => vec![("c", OwnedValue::Facet(Facet::from("/a/b/c"))), ("c", OwnedValue::Facet(Facet::from("/")))],
        "json_nested" => vec![("j", jobj(json!({"a": {"b": [{"c": 1, "d": [1, 2, {"e": "x"}]}, "s"], "n": null}, "f": 1.5, "neg": -3, "big": 18_000_000_000_000_000_000u64, "t": true})))],
        "json_edge" => vec![("j", jobj(json!({}))), ("j", jobj(json!({"empty_arr": [], "empty_obj": {}, "": "empty key", "s": ""})))],
        "unicode" => vec![("t", s("h\u{e9}llo \u{4e2d}\u{6587} \u{1f600} \u{0}nul \u{301}combining"))],
        "text40k" => vec![("t", OwnedValue::Str("lorem ipsum dolor ".repeat(2300)))],
        // 24 kB that do not compress: a stored block larger than the 8 kB buffer of the file writer
        "noise24k" => {
            let mut x = 0x9e3779b97f4a7c15u64;
            let mut v = String::with_capacity(24_000);
            while v.len() < 24_000 {
                x ^= x << 13;
                x ^= x >> 7;
                x ^= x << 17;
                v.push_str(&format!("{x:016x}"));
            }
            vec![("t", OwnedValue::Str(v))]
        }
        "stored_and_not" => vec![("ns", s("not stored text")), ("t", s("stored text")), ("ns", s("again not stored"))],
        "mixed_all" => vec![
            ("t", s("a")),
            ("u", OwnedValue::U64(7)),
            ("t", s("b")),
            ("j", jobj(json!({"k": "v"}))),
            ("i", OwnedValue::I64(-7)),
            ("b", OwnedValue::Bool(true)),
            ("y", OwnedValue::Bytes(vec![1, 2, 3])),
            ("f", OwnedValue::F64(2.5)),
        ],
        // 120 values of three fields, interleaved, highest field first (the named / JSON views group them by
        // field and must keep the order of the values of each field)
        "interleaved120" => (0..40u64).flat_map(|k| vec![("i", OwnedValue::I64(-(k as i64))), ("u", OwnedValue::U64(1000 + k)), ("t", OwnedValue::Str(format!("v{k:03}")))]).collect(),
        "len127" => vec![("t", OwnedValue::Str("x".repeat(127)))],
        "len128" => vec![("t", OwnedValue::Str("x".repeat(128)))],
        "len16384" => vec![("t", OwnedValue::Str("y".repeat(16_384))), ("y", OwnedValue::Bytes(vec![9u8; 16_383]))],
        // vint length-prefix boundaries (2^21): thorough tier and one designated quick case
        "len2m_minus1" => vec![("t", OwnedValue::Str("z".repeat((1 << 21) - 1)))],
        "len2m" => vec![("t", OwnedValue::Str("z".repeat(1 << 21)))],
        "len2m_plus1" => vec![("y", OwnedValue::Bytes(vec![7u8; (1 << 21) + 1]))],
        "len4m" => vec![("t", OwnedValue::Str("w".repeat(1 << 22)))],
        other => {
            // patterned small document: "pat<k>"
            let k: usize = other.trim_start_matches("pat").parse().unwrap_or(0);
            vec![("t", OwnedValue::Str(format!("doc {k} {}", "p".repeat(k % 40)))), ("u", OwnedValue::U64(k as u64))]
        }
    }
}

#[derive(Clone, Debug, Serialize, Deserialize, PartialEq)]
pub struct StoreCfg {
    pub compressor: String, // none | lz4 | zstd
    pub blocksize: usize,
    pub dedicated_thread: bool,
}

fn compressor_of(s: &str) -> Compressor {
    match s {
        "none" => Compressor::None,
        "zstd" => Compressor::Zstd(ZstdCompressor::default()),
        _ => Compressor::Lz4,
    }
}

fn settings_of(c: &StoreCfg) -> IndexSettings {
    IndexSettings { docstore_compression: compressor_of(&c.compressor), docstore_blocksize: c.blocksize, docstore_compress_dedicated_thread: c.dedicated_thread, ..IndexSettings::default() }
}

#[derive(Clone, Debug, Serialize, Deserialize, PartialEq)]
pub struct Case {
    pub docs: Vec<String>,
    /// segment sizes
    pub segments: Vec<usize>,
    /// store configuration per segment (the last one is also the merge target)
    pub cfgs: Vec<StoreCfg>,
    pub deleted: Vec<usize>,
    /// 0 no merge; 1 merge (segments in creation order); 2 merge (reverse order)
    pub merge: u8,
    /// 0: RamDirectory; 1 / 2: a directory whose writers accept half of / one byte of every write
    #[serde(default)]
    pub short_writes: u8,
}

type Expected = Vec<(u32, OwnedValue)>;

fn expected_of(schema: &Schema, id: u64, name: &str) -> Expected {
    let mut v: Expected = vec![(schema.get_field("id").unwrap().field_id(), OwnedValue::U64(id))];
    for (f, val) in alphabet_doc(name) {
        let field = schema.get_field(f).unwrap();
        if schema.get_field_entry(field).is_stored() {
            v.push((field.field_id(), val));
        }
    }
    v
}

fn values_of(doc: &TantivyDocument) -> Expected {
    doc.field_values().map(|(f, v)| (f.field_id(), OwnedValue::from(v))).collect()
}

fn short(v: &Expected) -> String {
    let s = format!("{v:?}");
    if s.len() > 300 {
        format!("{}..[{} chars]", &s[..200], s.len())
    } else {
        s
    }
}

pub fn check_case(c: &Case, st: &mut Stats) -> Option<(String, String)> {
    let schema = make_schema();
    let mut index = if c.short_writes == 0 {
        crate::orv!(Index::builder().schema(schema.clone()).settings(settings_of(&c.cfgs[0])).create_in_ram(), "Index::builder().schema(schema.clone()).settings(s")
    } else {
        let sim = crate::simdir::SimDirectory::new();
        sim.set_log_enabled(false);
        sim.set_short_write(if c.short_writes == 1 { crate::simdir::ShortWrite::Half } else { crate::simdir::ShortWrite::OneByte });
        st.count("short_write_cases");
        crate::orv!(Index::builder().schema(schema.clone()).settings(settings_of(&c.cfgs[0])).open_or_create(sim), "Index::builder().schema(schema.clone()).settings(s")
    };
    let idf = schema.get_field("id").unwrap();
    let mut seg_ids: Vec<SegmentId> = vec![];
    let mut k = 0usize;
    for (si, &sz) in c.segments.iter().enumerate() {
        *index.settings_mut() = settings_of(&c.cfgs[si.min(c.cfgs.len() - 1)]);
        let mut w: IndexWriter = crate::orv!(index.writer_with_num_threads(1, 60_000_000), "index.writer_with_num_threads(1 60_000_000)");
        w.set_merge_policy(Box::new(tantivy::merge_policy::NoMergePolicy));
        for _ in 0..sz {
            let mut d = TantivyDocument::default();
            d.add_u64(idf, k as u64);
            for (f, val) in alphabet_doc(&c.docs[k]) {
                d.add_field_value(schema.get_field(f).unwrap(), &val);
            }
            crate::orv!(w.add_document(d), "w.add_document(d)");
            k += 1;
        }
        crate::orv!(w.commit(), "w.commit()");
        let now: Vec<SegmentId> = crate::orv!(index.searchable_segment_ids(), "index.searchable_segment_ids()");
        for id in now {
            if !seg_ids.contains(&id) {
                seg_ids.push(id);
            }
        }
        drop(w);
    }
    *index.settings_mut() = settings_of(c.cfgs.last().unwrap());
    {
        let mut w: IndexWriter = crate::orv!(index.writer_with_num_threads(1, 60_000_000), "index.writer_with_num_threads(1 60_000_000)");
        w.set_merge_policy(Box::new(tantivy::merge_policy::NoMergePolicy));
        if !c.deleted.is_empty() {
            for &i in &c.deleted {
                w.delete_term(Term::from_field_u64(idf, i as u64));
            }
            crate::orv!(w.commit(), "w.commit()");
        }
        // a segment whose documents were all deleted disappears with the commit
        let still: Vec<SegmentId> = crate::orv!(index.searchable_segment_ids(), "index.searchable_segment_ids()");
        seg_ids.retain(|s| still.contains(s));
        if c.merge > 0 && seg_ids.len() > 1 {
            let mut ids = seg_ids.clone();
            if c.merge == 2 {
                ids.reverse();
            }
            if let Err(e) = w.merge(&ids).wait() {
                return Some(("merge_error".into(), format!("{e:?}")));
            }
            st.count("merges");
        }
        crate::orv!(w.wait_merging_threads(), "w.wait_merging_threads()");
    }
    let searcher = crate::orv!(index.reader(), "index.reader()").searcher();
    let alive_ids: Vec<usize> = (0..c.docs.len()).filter(|i| !c.deleted.contains(i)).collect();
    let mut seen: Vec<usize> = vec![];
    for (ord, seg) in searcher.segment_readers().iter().enumerate() {
        let ids = crate::orv!(seg.fast_fields().u64("id"), "seg.fast_fields().u64( id )");
        let alive_docs: Vec<u32> = seg.doc_ids_alive().collect();
        // 1. Searcher::doc for every alive doc
        for &d in &alive_docs {
            let id = ids.first(d)? as usize;
            seen.push(id);
            let got: TantivyDocument = match searcher.doc(DocAddress::new(ord as u32, d)) {
                Ok(x) => x,
                Err(e) => return Some(("doc_fetch_error".into(), format!("doc id {id} ({}): {e:?}", c.docs[id]))),
            };
            st.count("docs_fetched");
            let want = expected_of(&schema, id as u64, &c.docs[id]);
            let gv = values_of(&got);
            if gv != want {
                return Some(("stored_doc_differs".into(), format!("doc id {id} ({}): fetched {} expected {}", c.docs[id], short(&gv), short(&want))));
            }
            // the named view (and the JSON encoding made from it) groups the values by field and keeps the
            // order of the values of each field
            {
                use tantivy::schema::document::Document;
                let named = got.to_named_doc(&schema);
                let mut by_field: BTreeMap<String, Vec<OwnedValue>> = BTreeMap::new();
                for (fid, v) in &want {
                    by_field.entry(schema.get_field_name(Field::from_field_id(*fid)).to_string()).or_default().push(v.clone());
                }
                if named.0 != by_field {
                    let bad = by_field.iter().find(|(k, v)| named.0.get(*k) != Some(v)).map(|(k, _)| k.clone()).unwrap_or_default();
                    return Some(("named_doc_differs".into(), format!("doc id {id} ({}): to_named_doc field {bad:?} = {:?}, the values were added as {:?}", c.docs[id], named.0.get(&bad).map(|v| format!("{v:?}").chars().take(200).collect::<String>()), by_field.get(&bad).map(|v| format!("{v:?}").chars().take(200).collect::<String>()))));
                }
                let js: Value = match serde_json::from_str(&got.to_json(&schema)) {
                    Ok(v) => v,
                    Err(e) => return Some(("doc_json_invalid".into(), format!("doc id {id}: to_json is not JSON: {e}"))),
                };
                for (k, vals) in &by_field {
                    let arr = js.get(k).and_then(|a| a.as_array()).cloned().unwrap_or_default();
                    if arr.len() != vals.len() {
                        return Some(("doc_json_differs".into(), format!("doc id {id}: to_json field {k:?} holds {} values, {} were added", arr.len(), vals.len())));
                    }
                    for (a, v) in arr.iter().zip(vals.iter()) {
                        if let OwnedValue::Str(sv) = v {
                            if a.as_str() != Some(sv.as_str()) {
                                return Some(("doc_json_differs".into(), format!("doc id {id}: to_json field {k:?} holds {:?} where {:?} was added", a.as_str().map(|x| x.chars().take(40).collect::<String>()), sv.chars().take(40).collect::<String>())));
                            }
                        }
                    }
                }
                st.count("named_views");
            }
        }
        // 2. store reader with several cache sizes and access orders
        for cache in [0usize, 1, 10] {
            let store = match seg.get_store_reader(cache) {
                Ok(s) => s,
                Err(e) => return Some(("store_open_error".into(), format!("{e:?}"))),
            };
            let n = alive_docs.len();
            let mut orders: Vec<Vec<usize>> = vec![(0..n).collect(), (0..n).rev().collect()];
            if n >= 2 {
                orders.push(vec![0, n - 1, 0, n - 1, n / 2, 0]);
                orders.push((0..n).flat_map(|i| [i, i]).collect());
                orders.push((0..n).step_by(2).chain((1..n).step_by(2)).collect());
            }
            if n > 64 {
                orders.truncate(3);
            }
            for order in orders {
                st.count("access_orders");
                for &pos in &order {
                    let d = alive_docs[pos];
                    let id = ids.first(d)? as usize;
                    let got: TantivyDocument = match store.get(d) {
                        Ok(x) => x,
                        Err(e) => return Some(("doc_fetch_error".into(), format!("cache {cache}: doc id {id}: {e:?}"))),
                    };
                    if values_of(&got) != expected_of(&schema, id as u64, &c.docs[id]) {
                        return Some(("stored_doc_differs_with_cache".into(), format!("cache size {cache}, access order {:?}..: doc id {id} ({}) differs", &order[..order.len().min(8)], c.docs[id])));
                    }
                }
            }
            // 3. iteration yields the live documents in doc-id order
            let mut it_ids = vec![];
            for r in store.iter::<TantivyDocument>(seg.alive_bitset()) {
                match r {
                    Ok(doc) => {
                        let v = values_of(&doc);
                        let id = match v.first() {
                            Some((_, OwnedValue::U64(x))) => *x as usize,
                            _ => return Some(("iter_doc_malformed".into(), "iterated document has no id".into())),
                        };
                        if v != expected_of(&schema, id as u64, &c.docs[id]) {
                            return Some(("iter_doc_differs".into(), format!("iteration: doc id {id} ({}) differs", c.docs[id])));
                        }
                        it_ids.push(id);
                    }
                    Err(e) => return Some(("iter_error".into(), format!("{e:?}"))),
                }
            }
            let want_ids: Vec<usize> = alive_docs.iter().map(|&d| ids.first(d).unwrap() as usize).collect();
            if it_ids != want_ids {
                return Some(("iter_order_differs".into(), format!("store iteration yields ids {:?}.., live documents in doc-id order are {:?}..", &it_ids[..it_ids.len().min(10)], &want_ids[..want_ids.len().min(10)])));
            }
        }
    }
    seen.sort();
    if seen != alive_ids {
        return Some(("live_docs_differ".into(), format!("{} live documents found, {} expected", seen.len(), alive_ids.len())));
    }
    None
}

pub fn replay(case: &Value) -> Vec<Violation> {
    quiet_panics();
    let Ok(c) = serde_json::from_value::<Case>(case.clone()) else { return vec![] };
    let mut st = Stats::default();
    match catch_unwind(AssertUnwindSafe(|| check_case(&c, &mut st))) {
        Ok(None) => vec![],
        Ok(Some((r, w))) => vec![Violation::new(&r, w, case.clone())],
        Err(e) => vec![Violation::new("store_panic", panic_message(e), case.clone())],
    }
}

fn cfg(comp: &str, bs: usize, thread: bool) -> StoreCfg {
    StoreCfg { compressor: comp.into(), blocksize: bs, dedicated_thread: thread }
}

pub fn run(ctx: &Ctx) -> Report {
    quiet_panics();
    let mut rep = Report::new("model_checking");
    let thorough = ctx.tier.is_thorough();
    let mut cases: Vec<Case> = vec![];
    let names: Vec<String> = ALPHABET.iter().map(|s| s.to_string()).collect();
    let cfgs_small: Vec<StoreCfg> = if thorough {
        let mut v = vec![];
        for comp in ["none", "lz4", "zstd"] {
            for bs in [1usize, 64, 16_384] {
                for th in [false, true] {
                    v.push(cfg(comp, bs, th));
                }
            }
        }
        v
    } else {
        vec![cfg("none", 64, false), cfg("lz4", 16_384, true), cfg("lz4", 1, false), cfg("zstd", 64, true)]
    };
    // every sequence of <= 2 (thorough 3) alphabet documents
    let maxlen = if thorough { 3 } else { 2 };
    let mut seqs: Vec<Vec<String>> = names.iter().map(|n| vec![n.clone()]).collect();
    let mut frontier = seqs.clone();
    for _ in 1..maxlen {
        let mut next = vec![];
        for s in &frontier {
            for n in &names {
                if s.len() == 2 && (n == "text40k" || s.iter().any(|x| x == "text40k")) && n != "empty" {
                    continue;
                }
                let mut t = s.clone();
                t.push(n.clone());
                next.push(t);
            }
        }
        seqs.extend(next.iter().cloned());
        frontier = next;
    }
    for (i, s) in seqs.iter().enumerate() {
        for (ci, c) in cfgs_small.iter().enumerate() {
            if !thorough && s.len() == 2 && (i + ci) % 2 == 1 {
                continue;
            }
            cases.push(Case { docs: s.clone(), segments: vec![s.len()], cfgs: vec![c.clone()], deleted: vec![], merge: 0, short_writes: 0 });
        }
    }
    // patterned stores: skip-index layers (8-way) with tiny blocks
    for n in [7usize, 8, 9, 63, 64, 65, 513] {
        if !thorough && n == 513 {
            continue;
        }
        let docs: Vec<String> = (0..n).map(|k| if k % 50 == 49 { "json_nested".to_string() } else { format!("pat{k}") }).collect();
        for c in [cfg("lz4", 1, false), cfg("none", 64, true), cfg("zstd", 16_384, false)] {
            cases.push(Case { docs: docs.clone(), segments: vec![n], cfgs: vec![c.clone()], deleted: vec![], merge: 0, short_writes: 0 });
            cases.push(Case { docs: docs.clone(), segments: vec![n], cfgs: vec![c.clone()], deleted: (0..n).filter(|i| i % 3 == 1).collect(), merge: 0, short_writes: 0 });
        }
    }
    // merges: stacking (>= 6 blocks, no deletes, same compressor) vs re-compression (deletes / compressor change)
    let comps = ["none", "lz4", "zstd"];
    for n in [3usize, 40, 200] {
        if !thorough && n == 200 {
            continue;
        }
        let docs: Vec<String> = (0..2 * n).map(|k| if k % 7 == 3 { "mixed_all".to_string() } else { format!("pat{k}") }).collect();
        for ca in comps {
            for cb in comps {
                for bs in [1usize, 64] {
                    for (di, deleted) in [vec![], vec![0usize], (0..2 * n).filter(|i| i % 4 == 0).collect::<Vec<_>>(), (0..n).collect::<Vec<_>>()].into_iter().enumerate() {
                        for merge in [1u8, 2] {
                            if !thorough && (di + merge as usize) % 2 == 1 && ca == cb {
                                continue;
                            }
                            cases.push(Case { docs: docs.clone(), segments: vec![n, n], cfgs: vec![cfg(ca, bs, false), cfg(cb, bs, di % 2 == 1)], deleted: deleted.clone(), merge, short_writes: 0 });
                        }
                    }
                }
            }
        }
    }
    // short writes: the directory's writers accept only part of every write (io::Write allows it); small and
    // large (incompressible, > 8 kB) blocks, every compressor, with and without the compressor thread, merged
    for sw in [1u8, 2] {
        for comp in comps {
            for th in [false, true] {
                for bs in [64usize, 16_384] {
                    if sw == 2 && bs == 64 && !thorough {
                        continue;
                    }
                    let docs: Vec<String> = vec!["text".into(), "noise24k".into(), "u64".into(), "noise24k".into(), "text2".into(), "mixed_all".into()];
                    cases.push(Case { docs: docs.clone(), segments: vec![3, 3], cfgs: vec![cfg(comp, bs, th)], deleted: vec![], merge: 0, short_writes: sw });
                    cases.push(Case { docs, segments: vec![3, 3], cfgs: vec![cfg(comp, bs, th)], deleted: vec![4], merge: 1, short_writes: sw });
                }
            }
        }
    }
    // three segments, all deleted -> empty merge result
    cases.push(Case { docs: (0..6).map(|k| format!("pat{k}")).collect(), segments: vec![2, 2, 2], cfgs: vec![cfg("lz4", 1, false)], deleted: (0..6).collect(), merge: 1, short_writes: 0 });
    // huge values around the 2^21 length-prefix boundary
    for name in if thorough { vec!["len2m_minus1", "len2m", "len2m_plus1", "len4m"] } else { vec!["len2m"] } {
        cases.push(Case { docs: vec!["text".into(), name.into(), "u64".into()], segments: vec![3], cfgs: vec![cfg("lz4", 16_384, false)], deleted: vec![], merge: 0, short_writes: 0 });
    }
    cases.sort_by_key(|c| std::cmp::Reverse(c.docs.len() + if c.docs.iter().any(|d| d.starts_with("len2m") || d == "len4m") { 10_000 } else { 0 }));
    let (st, done) = par_for(ctx, cases.len(), |i, st| {
        let c = &cases[i];
        st.eval();
        if c.docs.len() >= 2 {
            st.nontrivial(&(i, &c.docs.len(), &c.merge, format!("{:?}", c.cfgs)));
        }
        if i % 499 == 0 || (c.merge > 0 && i % 97 == 0) {
            st.sample(json!({"docs":c.docs.iter().take(4).collect::<Vec<_>>(),"ndocs":c.docs.len(),"segments":c.segments,"cfgs":c.cfgs,"deleted":c.deleted.len(),"merge":c.merge}));
        }
        let r = catch_unwind(AssertUnwindSafe(|| check_case(c, st)));
        let (rule, what) = match r {
            Ok(None) => return,
            Ok(Some(x)) => x,
            Err(e) => ("store_panic".to_string(), format!("{} [{}]", panic_message(e), last_panic())),
        };
        st.violation(Violation::new(
            &rule,
            format!("docs {:?}{} segments {:?} cfgs {:?} deleted {} merge {}: {what}", &c.docs[..c.docs.len().min(4)], if c.docs.len() > 4 { ".." } else { "" }, c.segments, c.cfgs, c.deleted.len(), c.merge),
            serde_json::to_value(c).unwrap(),
        ));
    });
    rep.set("exhaustive", done == cases.len());
    rep.set("cases", cases.len() as u64);
    rep.set("rule", "every sequence of <= 2 (thorough 3) documents from a 20-document alphabet (empty, every value type, several values per field, nested / edge JSON, unicode, 40 kB text, stored + non-stored, vint-boundary lengths) x store configurations (none / lz4 / zstd x block size 1 / 64 / 16384 x dedicated thread); patterned stores of 7..513 documents (8-way skip-index layers) with and without deletes; merges of two segments of 3 / 40 / 200 documents for every pair of compressors x block size x delete pattern x both source orders (stacking and re-compression), all-deleted merge; 2 MiB values around the 2^21 length prefix; each document through Searcher::doc, StoreReader::get with cache sizes 0 / 1 / 10 in several access orders, and store iteration. Non-trivial: >= 2 documents; distinct by case");
    for k in ["merges", "docs_fetched", "access_orders"] {
        if st.counters.get(k).copied().unwrap_or(0) == 0 {
            rep.machinery_errors.push(format!("vacuous: {k} = 0"));
        }
    }
    rep.set("states", st.nontrivial.len() as u64);
    rep.set("transitions", st.counters.get("docs_fetched").copied().unwrap_or(0) + st.counters.get("access_orders").copied().unwrap_or(0));
    rep.set("traces_validated_against_impl", st.evaluations);
    rep.merge_stats(&st);
    rep.violations = st.violations;
    rep.machinery_errors.extend(st.errors);
    rep
}
