//! C16 - the query parser is total (strict / lenient, grammar level and QueryParser level).
//! Families run in isolated workers (inputs may hang or allocate without bound).
use std::panic::{catch_unwind, AssertUnwindSafe};

use serde_json::{json, Value};
use tantivy::query::QueryParser;
use tantivy::schema::*;
use tantivy::Index;
use tantivy_query_grammar::{parse_query, parse_query_lenient};

use crate::common::*;
use crate::iso;

pub const CHAR_ALPHABET: [&str; 31] = [
    "a", "b", " ", "\"", "'", "(", ")", "[", "]", "{", "}", ":", "+", "-", "^", "~", "*", "\\", "<",
    ">", "=", ".", "1", "TO", "IN", "AND", "OR", "NOT", "\u{e9}", "\u{3000}", "\t",
];

pub const TOKEN_ALPHABET: [&str; 30] = [
    "a", "b", "a:", "n:", "\"a b\"", "\"a b\"~1", "\"a b\"*", "'a'", "[a TO b]", "{a TO *}", "n:[1 TO 2}",
    ">=1", "<b", "IN [a b]", "a:*", "n:1", "^2", "AND", "OR", "NOT", "+", "-", "(", ")", "*", "j.k:1",
    "d:2002-10-02T15:00:00Z", "p:::1", "o:true", "c:/x/y",
];

fn enum_total(n: u64, l: u32) -> u64 {
    (0..=l).map(|k| n.pow(k)).sum()
}

fn decode(mut idx: u64, n: u64, l: u32) -> Vec<usize> {
    // shortest first
    let mut len = 0u32;
    loop {
        let c = n.pow(len);
        if idx < c {
            break;
        }
        idx -= c;
        len += 1;
        assert!(len <= l);
    }
    let mut v = vec![0usize; len as usize];
    for i in (0..len as usize).rev() {
        v[i] = (idx % n) as usize;
        idx /= n;
    }
    v
}

pub fn long_inputs() -> Vec<String> {
    let mut v = vec![];
    for depth in [10usize, 100, 1000, 4000] {
        v.push(format!("{}a{}", "(".repeat(depth), ")".repeat(depth)));
        v.push("(".repeat(depth));
        v.push(")".repeat(depth));
        v.push(format!("{}a", "+(".repeat(depth)));
        v.push(format!("{}a", "-".repeat(depth)));
        v.push(format!("{}a", "NOT ".repeat(depth)));
        v.push("a AND ".repeat(depth));
        v.push("\"".repeat(depth));
        v.push(format!("a:{}", "[".repeat(depth)));
        v.push(format!("a{}", "^1".repeat(depth)));
        v.push(format!("\"a\"{}", "~1".repeat(depth)));
        v.push("a:".repeat(depth));
        v.push("\\".repeat(depth));
        v.push(format!("a:IN [{}", "b ".repeat(depth)));
    }
    v.push("a".repeat(1_000_000));
    v.push("a ".repeat(200_000));
    v.push("\u{3000}".repeat(10_000));
    v
}

pub fn schema_and_index() -> (Index, Vec<Field>) {
    let mut sb = Schema::builder();
    let a = sb.add_text_field("a", TEXT | STORED);
    let _b = sb.add_u64_field("b", INDEXED | FAST);
    let _t = sb.add_text_field("t", TEXT);
    let _s = sb.add_text_field("s", STRING | FAST);
    let _n = sb.add_u64_field("n", INDEXED | FAST);
    let _i = sb.add_i64_field("i", INDEXED | FAST);
    let _f = sb.add_f64_field("f", INDEXED | FAST);
    let _d = sb.add_date_field("d", INDEXED | FAST);
    let _p = sb.add_ip_addr_field("p", INDEXED | FAST);
    let _y = sb.add_bytes_field("y", INDEXED | FAST);
    let _o = sb.add_bool_field("o", INDEXED | FAST);
    let _c = sb.add_facet_field("c", FacetOptions::default());
    let j = sb.add_json_field("j", TEXT | FAST);
    let index = Index::create_in_ram(sb.build());
    (index, vec![a, j])
}

pub const CORPUS_TEXTS: [&str; 12] = [
    "a", "b", "a b", "b a", "a a b", "", "1", "a 1", "TO", "\u{e9}", "b b", "a b a",
];

pub fn index_with_corpus() -> (Index, Vec<Field>) {
    let (index, defaults) = schema_and_index();
    let schema = index.schema();
    let f = |n: &str| schema.get_field(n).unwrap();
    let mut w: tantivy::IndexWriter = index.writer_with_num_threads(1, 20_000_000).unwrap();
    for (i, t) in CORPUS_TEXTS.iter().enumerate() {
        let mut d = tantivy::TantivyDocument::default();
        d.add_text(f("a"), t);
        d.add_text(f("t"), t);
        d.add_text(f("s"), t);
        d.add_u64(f("b"), (i % 3) as u64);
        d.add_u64(f("n"), (i % 3) as u64);
        d.add_i64(f("i"), i as i64 - 2);
        d.add_f64(f("f"), i as f64 * 0.5);
        d.add_date(f("d"), tantivy::DateTime::from_timestamp_secs(1033570800 + i as i64 * 3600));
        d.add_ip_addr(f("p"), std::net::Ipv6Addr::new(0, 0, 0, 0, 0, 0, 0, i as u16));
        d.add_bytes(f("y"), &[i as u8][..]);
        d.add_bool(f("o"), i % 2 == 0);
        d.add_facet(f("c"), tantivy::schema::Facet::from(if i % 2 == 0 { "/x/y" } else { "/x/z" }));
        let jv: serde_json::Value = json!({"k": i % 3, "w": t});
        let obj: std::collections::BTreeMap<String, tantivy::schema::OwnedValue> =
            serde_json::from_value(jv).unwrap();
        d.add_object(f("j"), obj);
        w.add_document(d).unwrap();
        if i == 5 {
            w.commit().unwrap();
        }
    }
    w.commit().unwrap();
    (index, defaults)
}

thread_local! {
    static PARSER: (QueryParser, QueryParser, tantivy::Searcher) = {
        let (index, defaults) = index_with_corpus();
        let p = QueryParser::for_index(&index, defaults.clone());
        let mut pc = QueryParser::for_index(&index, defaults);
        pc.set_conjunction_by_default();
        let searcher = index.reader().unwrap().searcher();
        (p, pc, searcher)
    };
}

fn docset(searcher: &tantivy::Searcher, q: &dyn tantivy::query::Query) -> Result<Vec<(u32, u32)>, String> {
    match searcher.search(q, &tantivy::collector::DocSetCollector) {
        Ok(s) => {
            let mut v: Vec<(u32, u32)> = s.into_iter().map(|a| (a.segment_ord, a.doc_id)).collect();
            v.sort();
            Ok(v)
        }
        Err(e) => Err(format!("{e:?}").chars().take(80).collect()),
    }
}

/// Checks one input; returns violations (rule, what).
pub fn check_input(s: &str) -> Vec<(String, String)> {
    let mut out = vec![];
    let short: String = s.chars().take(60).collect();
    let trace = std::env::var("VERIF_TRACE").is_ok();
    if trace { eprintln!("stage: grammar strict"); }
    // grammar level
    let strict = catch_unwind(AssertUnwindSafe(|| parse_query(s)));
    if trace { eprintln!("stage: grammar lenient"); }
    let lenient = catch_unwind(AssertUnwindSafe(|| parse_query_lenient(s)));
    if trace { eprintln!("stage: grammar compare"); }
    match (&strict, &lenient) {
        (Err(_), _) => out.push(("grammar_strict_panic".to_string(), format!("parse_query({short:?}) panicked: {}", last_panic()))),
        (_, Err(_)) => out.push((
            "grammar_lenient_panic".to_string(),
            format!("parse_query_lenient({short:?}) panicked: {}", last_panic()),
        )),
        (Ok(Ok(ast)), Ok((last, errs))) => {
            if ast != last || !errs.is_empty() {
                out.push((
                    "grammar_strict_lenient_disagree".to_string(),
                    format!(
                        "{short:?}: strict Ok({ast:?}) but lenient ({last:?}, {} errors: {:?})",
                        errs.len(),
                        errs.first().map(|e| &e.message)
                    ),
                ));
            }
        }
        _ => {}
    }
    // QueryParser level (skipped for multi-megabyte inputs: same grammar underneath)
    if s.len() <= 100_000 {
        PARSER.with(|(p, pc, searcher)| {
            for (name, qp) in [("default", p), ("conj", pc)] {
                if trace { eprintln!("stage: qp strict"); }
                let strict = catch_unwind(AssertUnwindSafe(|| qp.parse_query(s)));
                if trace { eprintln!("stage: qp lenient"); }
                let lenient = catch_unwind(AssertUnwindSafe(|| qp.parse_query_lenient(s)));
                if trace { eprintln!("stage: qp compare"); }
                match (&strict, &lenient) {
                    (Err(_), _) => out.push((
                        "queryparser_strict_panic".to_string(),
                        format!("QueryParser[{name}]::parse_query({short:?}) panicked: {}", last_panic()),
                    )),
                    (_, Err(_)) => out.push((
                        "queryparser_lenient_panic".to_string(),
                        format!("QueryParser[{name}]::parse_query_lenient({short:?}) panicked: {}", last_panic()),
                    )),
                    (Ok(Ok(q)), Ok((lq, errs))) => {
                        // agreement = no error reported and the same documents matched on the corpus
                        let a = catch_unwind(AssertUnwindSafe(|| docset(searcher, q.as_ref())));
                        let b = catch_unwind(AssertUnwindSafe(|| docset(searcher, lq.as_ref())));
                        match (a, b) {
                            (Ok(a), Ok(b)) => {
                                if a != b || !errs.is_empty() {
                                    out.push((
                                        "queryparser_strict_lenient_disagree".to_string(),
                                        format!(
                                            "QueryParser[{name}] {short:?}: strict Ok matches {a:?}, lenient matches {b:?} with {} errors ({})",
                                            errs.len(),
                                            errs.first().map(|e| format!("{e:?}")).unwrap_or_default().chars().take(80).collect::<String>()
                                        ),
                                    ));
                                }
                            }
                            // a panic while *searching* is not a parser matter (see C03 / C13): not compared
                            _ => {}
                        }
                    }
                    _ => {}
                }
            }
        });
    }
    out
}

fn input_of(family: &str, idx: u64, arg: u32) -> String {
    match family {
        "chars" => decode(idx, CHAR_ALPHABET.len() as u64, arg)
            .iter()
            .map(|&i| CHAR_ALPHABET[i])
            .collect::<Vec<_>>()
            .concat(),
        "tokens" => decode(idx, TOKEN_ALPHABET.len() as u64, arg)
            .iter()
            .map(|&i| TOKEN_ALPHABET[i])
            .collect::<Vec<_>>()
            .join(" "),
        "tokens_nospace" => decode(idx, TOKEN_ALPHABET.len() as u64, arg)
            .iter()
            .map(|&i| TOKEN_ALPHABET[i])
            .collect::<Vec<_>>()
            .concat(),
        "long" => long_inputs()[idx as usize].clone(),
        _ => panic!("unknown family"),
    }
}

fn family_total(family: &str, arg: u32) -> u64 {
    match family {
        "chars" => enum_total(CHAR_ALPHABET.len() as u64, arg),
        "tokens" | "tokens_nospace" => enum_total(TOKEN_ALPHABET.len() as u64, arg),
        "long" => long_inputs().len() as u64,
        _ => 0,
    }
}

/// Worker entry: vcheck worker C16 <family> <start> <end> <arg>
pub fn worker(family: &str, start: u64, end: u64, step: u64, arg: &str) {
    quiet_panics();
    let arg: u32 = arg.parse().unwrap_or(0);
    let hang_ms = if family == "long" { 30_000 } else { 2_000 };
    iso::worker_guard(2 << 30, hang_ms);
    let mut evals = 0u64;
    let mut strict_ok = 0u64;
    let mut nontrivial = 0u64;
    let mut idx = start;
    while idx < end {
        let s = input_of(family, idx, arg);
        iso::set_current(idx);
        let vs = check_input(&s);
        iso::idle();
        evals += 1;
        // non-trivial: strict grammar accepts the input and it is not a single bare word
        if let Ok(Ok(_)) = catch_unwind(AssertUnwindSafe(|| parse_query(&s))) {
            strict_ok += 1;
            if s.chars().any(|c| !c.is_alphanumeric()) {
                nontrivial += 1;
            }
        }
        for (rule, what) in vs {
            iso::emit(&json!({"t":"V","rule":rule,"what":what,"idx":idx}).to_string());
        }
        idx += step;
        if evals >= 1000 {
            iso::emit(&json!({"t":"S","evals":evals,"strict_ok":strict_ok,"nontrivial":nontrivial}).to_string());
            (evals, strict_ok, nontrivial) = (0, 0, 0);
        }
    }
    iso::emit(&json!({"t":"S","evals":evals,"strict_ok":strict_ok,"nontrivial":nontrivial}).to_string());
    iso::emit("DONE");
}

/// narrow structural signatures of the recorded findings
fn classify(rule: &str, input: &str, what: &str) -> String {
    // `pat` (after optional ASCII whitespace) directly followed by a non-ASCII whitespace character
    let non_ascii_ws_after_set_open = || -> bool {
        let mut from = 0;
        while let Some(p) = input[from..].find("IN") {
            let after = input[from + p + 2..].trim_start_matches([' ', '\t']);
            if let Some(rest) = after.strip_prefix('[') {
                if rest.chars().any(|c| c.is_whitespace() && !c.is_ascii()) {
                    return true;
                }
            }
            from += p + 2;
        }
        false
    };
    let max_depth = || -> usize {
        let (mut d, mut m) = (0usize, 0usize);
        for c in input.chars() {
            if c == '(' {
                d += 1;
                m = m.max(d);
            } else if c == ')' {
                d = d.saturating_sub(1);
            }
        }
        m
    };
    if rule.ends_with("_panic") {
        if let Some(p) = what.find("panicked: ") {
            let msg: String = what[p + 10..]
                .chars()
                .take(48)
                .map(|c| if c.is_alphanumeric() { c } else { '_' })
                .collect();
            let level = if rule.starts_with("grammar") { "grammar" } else { "queryparser" };
            if msg.starts_with("Exist_query_without_a_field") {
                // the recorded finding: a bare '*' directly followed by a non-ASCII whitespace character, or an
                // occur marker, ASCII whitespace, then '*'. The same panic on any other input is not listed.
                let chars: Vec<char> = input.chars().collect();
                let star_then_nbsp = chars.windows(2).any(|w| w[0] == '*' && w[1].is_whitespace() && !w[1].is_ascii());
                let marker_ws_star = (0..chars.len()).any(|i| {
                    (chars[i] == '+' || chars[i] == '-') && {
                        let mut j = i + 1;
                        while j < chars.len() && (chars[j] == ' ' || chars[j] == '\t') {
                            j += 1;
                        }
                        j > i + 1 && j < chars.len() && chars[j] == '*'
                    }
                });
                if !(star_then_nbsp || marker_ws_star) {
                    return format!("{level}_panic:{msg}_on_unlisted_input");
                }
            }
            return format!("{level}_panic:{msg}");
        }
    }
    if rule.ends_with("strict_lenient_disagree") {
        // grammar-level signatures; the QueryParser-level disagreement follows from the grammar-level one
        if input.contains('<') || input.contains('>') {
            return format!("{rule}_comparison_operator");
        }
        let not_ws = input.match_indices("NOT").any(|(p, _)| {
            input[p + 3..].chars().next().map(|c| c.is_whitespace() && c != ' ').unwrap_or(false)
        });
        if not_ws {
            return format!("{rule}_not_followed_by_non_space_whitespace");
        }
        // a leading binary operator keyword separated from a following ':' by whitespace
        // (anywhere a clause can start: after whitespace, an occur marker or an opening parenthesis)
        for kw in ["OR", "AND", "NOT"] {
            for (p, _) in input.match_indices(kw) {
                let before_ok = input[..p].chars().last().map(|c| c.is_whitespace() || "+-(".contains(c)).unwrap_or(true);
                let rest = &input[p + kw.len()..];
                let r2 = rest.trim_start();
                if before_ok && r2.len() < rest.len() && r2.starts_with(':') {
                    return format!("{rule}_leading_operator_keyword_before_colon");
                }
            }
        }
        // a negative number directly followed by '*': strict reads number + prefix marker, lenient one word
        let b = input.as_bytes();
        for i in 0..b.len() {
            if b[i] == b'-' {
                let mut j = i + 1;
                while j < b.len() && (b[j].is_ascii_digit() || b[j] == b'.') {
                    j += 1;
                }
                if j > i + 1 && j < b.len() && (b[j] == b'*' || b[j] == b'~') {
                    return format!("{rule}_negative_number_with_prefix_star");
                }
            }
        }
        // an IN set that is empty but holds whitespace, or a tab between IN and '['
        for (p, _) in input.match_indices("IN") {
            let rest = &input[p + 2..];
            let r2 = rest.trim_start();
            if let Some(inner) = r2.strip_prefix('[') {
                let tabbed = rest.len() != r2.len() && rest[..rest.len() - r2.len()].contains('\t');
                let t = inner.trim_start();
                if (t.len() < inner.len() && t.starts_with(']')) || tabbed {
                    return format!("{rule}_in_set_whitespace");
                }
            }
        }
        if input.contains("''") || input.contains("\"\"") {
            return format!("{rule}_empty_quoted_string");
        }
        let slash_word = input
            .split([' ', '\t'])
            .any(|w| w.matches('/').count() >= 2);
        if slash_word {
            return format!("{rule}_word_with_two_slashes");
        }
    }
    if rule == "parser_hang" || rule == "parser_abort" {
        // no return: hang, memory exhaustion or stack overflow (which one trips first depends on limits)
        if non_ascii_ws_after_set_open() {
            return "parser_no_return_set_with_non_ascii_whitespace".to_string();
        }
        if max_depth() >= 2000 {
            return "parser_stack_overflow_nesting_ge_2000".to_string();
        }
        return "parser_no_return".to_string();
    }
    rule.to_string()
}

pub fn replay(case: &Value) -> Vec<Violation> {
    if case["kind"] == "conformance" || case["kind"] == "escape" {
        quiet_panics();
        return crate::c16conf::replay(case);
    }
    // replay runs the input in an isolated worker too (it may hang)
    let input = case["input"].as_str().unwrap_or("").to_string();
    let exe = std::env::current_exe().unwrap();
    let out = std::process::Command::new(exe)
        .args(["worker", "C16", "one", "0", "1", "1", &input])
        .output();
    let mut vs = vec![];
    if let Ok(o) = out {
        for line in String::from_utf8_lossy(&o.stdout).lines() {
            if let Some(rest) = line.strip_prefix("CRASH ") {
                let kind = rest.split(' ').next().unwrap_or("?");
                let rule = classify(&format!("parser_{kind}"), &input, "");
                vs.push(Violation::new(&rule, format!("input {input:?}: worker {kind}"), case.clone()));
            } else if let Ok(v) = serde_json::from_str::<Value>(line) {
                if v["t"] == "V" {
                    let rule = classify(v["rule"].as_str().unwrap_or("?"), &input, v["what"].as_str().unwrap_or(""));
                    vs.push(Violation::new(&rule, v["what"].as_str().unwrap_or("").to_string(), case.clone()));
                }
            }
        }
    }
    vs
}

pub fn worker_one(input: &str) {
    quiet_panics();
    iso::worker_guard(2 << 30, 30_000);
    iso::set_current(0);
    let vs = check_input(input);
    iso::idle();
    for (rule, what) in vs {
        iso::emit(&json!({"t":"V","rule":rule,"what":what,"idx":0}).to_string());
    }
    iso::emit("DONE");
}

pub fn run(ctx: &Ctx) -> Report {
    let mut rep = Report::new("model_checking");
    let thorough = ctx.tier.is_thorough();
    let fams: Vec<(&str, u32)> = if thorough {
        vec![("long", 0), ("chars", 5), ("tokens", 4), ("tokens_nospace", 3)]
    } else {
        vec![("long", 0), ("chars", 3), ("tokens", 3), ("tokens_nospace", 2), ("chars", 4)]
    };
    let mut st = Stats::default();
    let mut complete = true;
    let mut total_completed = 0u64;
    let mut bounds = vec![];
    for (fam, arg) in fams {
        if ctx.out_of_time() {
            complete = false;
            bounds.push(json!({"family":fam,"bound":arg,"completed":0,"total":family_total(fam,arg)}));
            continue;
        }
        let total = family_total(fam, arg);
        let o = iso::run_isolated(ctx, "C16", fam, total, &arg.to_string());
        complete &= o.complete;
        total_completed += o.completed;
        bounds.push(json!({"family":fam,"bound":arg,"completed":o.completed,"total":total,"complete":o.complete}));
        for e in o.machinery_errors {
            st.errors.push(e);
        }
        for (kind, idx) in o.crashes {
            let input = input_of(fam, idx, arg);
            st.count(&format!("crash_{kind}"));
            let rule = classify(&format!("parser_{kind}"), &input, "");
            st.violation(Violation::new(
                &rule,
                format!("family {fam} input {:?}: worker {kind} (no return / abort)", input.chars().take(60).collect::<String>()),
                json!({"input":input}),
            ));
        }
        for l in o.lines {
            let Ok(v) = serde_json::from_str::<Value>(&l) else { continue };
            if v["t"] == "V" {
                let idx = v["idx"].as_u64().unwrap_or(0);
                let input = input_of(fam, idx, arg);
                let rule = classify(v["rule"].as_str().unwrap_or("?"), &input, v["what"].as_str().unwrap_or(""));
                st.violation(Violation::new(&rule, v["what"].as_str().unwrap_or("").to_string(), json!({"input":input})));
            } else if v["t"] == "S" {
                st.evaluations += v["evals"].as_u64().unwrap_or(0);
                st.count_n("strict_accepts", v["strict_ok"].as_u64().unwrap_or(0));
                st.count_n("nontrivial", v["nontrivial"].as_u64().unwrap_or(0));
            }
        }
        st.sample(json!({"family":fam,"input":input_of(fam, total/2, arg)}));
    }
    // conformance family (in-process: these inputs are well-formed)
    quiet_panics();
    let (stc, conf_complete) = crate::c16conf::run_family(ctx, thorough);
    complete &= conf_complete;
    let conf_cases = stc.evaluations;
    let conf_nontrivial = stc.nontrivial.len() as u64;
    total_completed += conf_cases;
    for v in stc.violations.clone() {
        st.violation(v);
    }
    for s in stc.samples.iter().take(2) {
        st.samples.push(s.clone());
    }
    st.errors.extend(stc.errors.clone());
    bounds.push(json!({"family":"conformance","cases":conf_cases,"complete":conf_complete}));
    if conf_cases == 0 {
        st.errors.push("vacuous: no conformance case ran".into());
    }
    let nontriv = st.counters.get("nontrivial").copied().unwrap_or(0) + conf_nontrivial;
    rep.set("exhaustive", complete);
    rep.set("bounds", Value::Array(bounds));
    rep.set("rule", "every string of <= L symbols over a 31-symbol alphabet of grammar pieces, every sequence of <= M grammar tokens (space-joined and concatenated), designated long / deeply nested inputs; each through parse_query, parse_query_lenient and QueryParser::{parse_query, parse_query_lenient} (disjunction and conjunction mode) in isolated workers; conformance: ~35 leaf forms and all depth-1 (thorough: depth-2) compounds over 6 / 4 representative leaves (juxtaposition, AND / OR with precedence, + / - markers, NOT, boosts, field groups), printed in 4 styles (extra whitespace, redundant parentheses) x 2 default-operator modes, parsed strictly and compared through the matching documents of a 12-document corpus whose fields differ. Non-trivial: accepted by the strict grammar and containing a non-alphanumeric symbol; inputs are distinct by construction (distinct index -> distinct symbol sequence)");
    rep.merge_stats(&st);
    rep.set("evaluations", total_completed);
    rep.set("distinct_nontrivial", nontriv);
    rep.set("states", nontriv.max(1));
    rep.set("transitions", total_completed.max(1));
    rep.set("traces_validated_against_impl", total_completed);
    rep.assume("worker isolation: a case that does not return within 1.5 s (5 s for long inputs) or exhausts a 3 GiB address space is a violation of totality");
    rep.violations = st.violations;
    rep.machinery_errors.extend(st.errors);
    rep
}
