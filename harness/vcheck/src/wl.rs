//! Workload driver over SimDirectory: a fixed sequence of API calls with a reference model, call / return
//! markers in the storage log, error policies. Used by C11 (faults), C01 (crash images) and C10.
use std::collections::BTreeSet;

use serde::{Deserialize, Serialize};
use tantivy::indexer::IndexWriterOptions;
use tantivy::merge_policy::NoMergePolicy;
use tantivy::schema::*;
use tantivy::{Index, IndexReader, IndexSettings, IndexWriter, ReloadPolicy, TantivyDocument, Term};

use crate::simdir::SimDirectory;

#[derive(Clone, Copy, Debug, PartialEq, Eq, Hash, Serialize, Deserialize)]
pub enum Step {
    Add(u64),
    DelId(u64),
    Commit,
    /// prepare_commit + set_payload + commit
    CommitPayload,
    Rollback,
    /// merge all committed segments and wait
    Merge,
    Gc,
    /// open a reader / reload it and count
    Reload,
    DropWriter,
    NewWriter,
    /// delete_all_documents
    DeleteAll,
    /// drop writer and reader, then obtain the Index again through Index::open_or_create on the directory
    OpenOrCreate,
    /// from here on the writer (and every later writer of the driver) merges eagerly: the policy proposes
    /// to merge all the segments it is shown as soon as there are two
    EagerOn,
    /// prepare_commit (which flushes, and so consults the merge policy), wait until a policy-driven merge
    /// has been published (bounded), then abort the prepared commit
    PrepareWaitAbort,
    /// the same, then commit the prepared commit
    PrepareWaitCommit,
}

#[derive(Clone, Debug, Serialize, Deserialize, PartialEq, Eq, Hash)]
pub struct WlConfig {
    pub workers: usize,
    pub dedicated_compressor: bool,
}

/// what the driver does after the first failed API call
#[derive(Clone, Copy, Debug, PartialEq, Eq, Hash, Serialize, Deserialize)]
pub enum Policy {
    Rollback,
    NewWriter,
    GoOn,
}

pub fn schema() -> Schema {
    let mut sb = Schema::builder();
    sb.add_u64_field("id", INDEXED | FAST | STORED);
    sb.add_text_field("body", TEXT | STORED);
    sb.build()
}

pub fn make_doc(schema: &Schema, id: u64) -> TantivyDocument {
    let mut d = TantivyDocument::default();
    d.add_u64(schema.get_field("id").unwrap(), id);
    d.add_text(schema.get_field("body").unwrap(), format!("doc {id} common text"));
    d
}

#[derive(Clone, Debug, Default)]
pub struct Model {
    pub committed: BTreeSet<u64>,
    pub working: BTreeSet<u64>,
    /// every committed state so far (including the initial empty one), in order
    pub history: Vec<BTreeSet<u64>>,
}

/// one API call and its outcome
#[derive(Clone, Debug)]
pub struct CallRecord {
    pub step: Step,
    pub ok: bool,
    pub err: String,
}

pub struct Driver {
    pub sim: SimDirectory,
    /// when set, the index lives in this real directory instead of `sim` (conformance pass)
    pub real_dir: Option<tantivy::directory::MmapDirectory>,
    pub index: Option<Index>,
    pub writer: Option<IndexWriter>,
    pub reader: Option<IndexReader>,
    pub cfg: WlConfig,
    pub model: Model,
    pub calls: Vec<CallRecord>,
    /// the commit whose call is in flight / last failed: its complete state is an admissible storage state
    pub attempted: Option<BTreeSet<u64>>,
    pub first_error_at: Option<usize>,
    /// (opstamp returned, payload) of the last commit that returned Ok
    pub last_commit: Option<(u64, Option<String>)>,
    pub eager: bool,
}

pub fn writer_options(cfg: &WlConfig) -> IndexWriterOptions {
    IndexWriterOptions::builder().num_worker_threads(cfg.workers).memory_budget_per_thread(15_000_000).num_merge_threads(1).build()
}

/// process-wide switch: indexes created by the workload driver are sorted by `id` (descending); set by scenarios
pub static SORTED: std::sync::atomic::AtomicBool = std::sync::atomic::AtomicBool::new(false);

pub fn settings(cfg: &WlConfig) -> IndexSettings {
    let sort_by_field = if SORTED.load(std::sync::atomic::Ordering::SeqCst) { Some(tantivy::IndexSortByField { field: "id".to_string(), order: tantivy::Order::Desc }) } else { None };
    IndexSettings { docstore_compress_dedicated_thread: cfg.dedicated_compressor, docstore_blocksize: 64, sort_by_field, ..IndexSettings::default() }
}

/// ids visible in a fresh open of the storage (faults must be off)
pub fn read_ids(sim: &SimDirectory) -> Result<BTreeSet<u64>, String> {
    let index = Index::open(sim.clone()).map_err(|e| format!("Index::open: {e:?}"))?;
    read_ids_of(&index)
}

pub fn read_ids_of(index: &Index) -> Result<BTreeSet<u64>, String> {
    use tantivy::schema::document::Value as _;
    let reader = index.reader_builder().reload_policy(ReloadPolicy::Manual).try_into().map_err(|e| format!("reader: {e:?}"))?;
    let reader: IndexReader = reader;
    let searcher = reader.searcher();
    let mut out = BTreeSet::new();
    let idf = index.schema().get_field("id").map_err(|e| e.to_string())?;
    for (ord, seg) in searcher.segment_readers().iter().enumerate() {
        let col = seg.fast_fields().u64("id").map_err(|e| format!("{e:?}"))?;
        for d in seg.doc_ids_alive() {
            let id = col.first(d).ok_or("missing id")?;
            // stored + postings agree
            let stored: TantivyDocument = searcher.doc(tantivy::DocAddress::new(ord as u32, d)).map_err(|e| format!("doc: {e:?}"))?;
            if stored.get_first(idf).and_then(|v| v.as_u64()) != Some(id) {
                return Err(format!("document {id}: stored id differs"));
            }
            if !out.insert(id) {
                return Err(format!("document {id} is present twice"));
            }
        }
    }
    let q = tantivy::query::TermQuery::new(Term::from_field_text(index.schema().get_field("body").unwrap(), "common"), IndexRecordOption::Basic);
    let n = searcher.search(&q, &tantivy::collector::Count).map_err(|e| format!("search: {e:?}"))?;
    if n != out.len() {
        return Err(format!("term query counts {n} documents, {} are alive", out.len()));
    }
    Ok(out)
}

impl Driver {
    pub fn new(sim: SimDirectory, cfg: &WlConfig) -> Driver {
        Driver { sim, real_dir: None, index: None, writer: None, reader: None, cfg: cfg.clone(), model: Model { history: vec![BTreeSet::new()], ..Default::default() }, calls: vec![], attempted: None, first_error_at: None, last_commit: None, eager: false }
    }

    /// index creation (W1): returns Err text on failure
    pub fn create_index(&mut self) -> Result<(), String> {
        self.sim.marker("call create_index");
        let r = match &self.real_dir {
            Some(d) => Index::create(d.clone(), schema(), settings(&self.cfg)),
            None => Index::create(self.sim.clone(), schema(), settings(&self.cfg)),
        };
        self.sim.marker(if r.is_ok() { "ret create_index ok" } else { "ret create_index err" });
        match r {
            Ok(i) => {
                self.index = Some(i);
                Ok(())
            }
            Err(e) => Err(format!("{e:?}")),
        }
    }

    pub fn open_writer(&mut self) -> Result<(), String> {
        let index = self.index.as_ref().ok_or("no index")?;
        self.sim.marker("call writer");
        let r = index.writer_with_options::<TantivyDocument>(writer_options(&self.cfg));
        self.sim.marker(if r.is_ok() { "ret writer ok" } else { "ret writer err" });
        match r {
            Ok(w) => {
                w.set_merge_policy(Box::new(NoMergePolicy));
                self.writer = Some(w);
                Ok(())
            }
            Err(e) => Err(format!("{e:?}")),
        }
    }

    /// executes one step; Ok(true) = call succeeded, Ok(false) = call returned an error
    pub fn step(&mut self, s: Step) -> bool {
        let schema = schema();
        let idf = schema.get_field("id").unwrap();
        self.sim.marker(&format!("call {s:?}"));
        let res: Result<(), String> = match s {
            Step::Add(id) => match self.writer.as_mut() {
                Some(w) => w.add_document(make_doc(&schema, id)).map(|_| ()).map_err(|e| format!("{e:?}")),
                None => Err("no writer".into()),
            },
            Step::DelId(id) => match self.writer.as_mut() {
                Some(w) => {
                    w.delete_term(Term::from_field_u64(idf, id));
                    Ok(())
                }
                None => Err("no writer".into()),
            },
            Step::Commit | Step::CommitPayload => match self.writer.as_mut() {
                Some(w) => {
                    self.attempted = Some(self.model.working.clone());
                    if s == Step::Commit {
                        match w.commit() {
                            Ok(o) => {
                                self.last_commit = Some((o, None));
                                Ok(())
                            }
                            Err(e) => Err(format!("{e:?}")),
                        }
                    } else {
                        let payload = format!("payload-{}", self.model.history.len());
                        match w.prepare_commit() {
                            Ok(mut pc) => {
                                pc.set_payload(&payload);
                                match pc.commit() {
                                    Ok(o) => {
                                        self.last_commit = Some((o, Some(payload)));
                                        Ok(())
                                    }
                                    Err(e) => Err(format!("{e:?}")),
                                }
                            }
                            Err(e) => Err(format!("{e:?}")),
                        }
                    }
                }
                None => Err("no writer".into()),
            },
            Step::Rollback => match self.writer.as_mut() {
                Some(w) => w.rollback().map(|_| ()).map_err(|e| format!("{e:?}")),
                None => Err("no writer".into()),
            },
            Step::Merge => match (self.writer.as_mut(), self.index.as_ref()) {
                (Some(w), Some(index)) => match index.searchable_segment_ids() {
                    Ok(ids) if ids.len() >= 2 => w.merge(&ids).wait().map(|_| ()).map_err(|e| format!("{e:?}")),
                    Ok(_) => Ok(()),
                    Err(e) => Err(format!("{e:?}")),
                },
                _ => Err("no writer".into()),
            },
            Step::Gc => match self.writer.as_ref() {
                Some(w) => w.garbage_collect_files().wait().map(|_| ()).map_err(|e| format!("{e:?}")),
                None => Err("no writer".into()),
            },
            Step::Reload => match self.index.as_ref() {
                Some(index) => {
                    if self.reader.is_none() {
                        match index.reader_builder().reload_policy(ReloadPolicy::Manual).try_into() {
                            Ok(r) => {
                                self.reader = Some(r);
                                Ok(())
                            }
                            Err(e) => Err(format!("{e:?}")),
                        }
                    } else {
                        self.reader.as_ref().unwrap().reload().map_err(|e| format!("{e:?}"))
                    }
                }
                None => Err("no index".into()),
            },
            Step::DropWriter => {
                self.writer = None;
                Ok(())
            }
            Step::OpenOrCreate => {
                self.writer = None;
                self.reader = None;
                match Index::open_or_create(self.sim.clone(), crate::wl::schema()) {
                    Ok(i) => {
                        self.index = Some(i);
                        Ok(())
                    }
                    Err(e) => Err(format!("{e:?}")),
                }
            }
            Step::DeleteAll => match self.writer.as_mut() {
                Some(w) => w.delete_all_documents().map(|_| ()).map_err(|e| format!("{e:?}")),
                None => Err("no writer".into()),
            },
            Step::EagerOn => match self.writer.as_ref() {
                Some(w) => {
                    self.eager = true;
                    w.set_merge_policy(Box::new(crate::hist::EagerMergePolicy));
                    Ok(())
                }
                None => Err("no writer".into()),
            },
            Step::PrepareWaitAbort | Step::PrepareWaitCommit => match (self.writer.as_mut(), self.index.as_ref()) {
                (Some(w), Some(index)) => {
                    let before = index.searchable_segment_ids().map(|v| v.len()).unwrap_or(0);
                    self.attempted = Some(self.model.working.clone());
                    match w.prepare_commit() {
                        Ok(pc) => {
                            // a merge of the committed segments proposed by the policy is published by
                            // its end_merge: the committed segment list on storage shrinks
                            let t0 = std::time::Instant::now();
                            while before >= 2 && t0.elapsed() < std::time::Duration::from_millis(2000) {
                                if index.searchable_segment_ids().map(|v| v.len()).unwrap_or(before) < before {
                                    break;
                                }
                                std::thread::sleep(std::time::Duration::from_millis(2));
                            }
                            if s == Step::PrepareWaitAbort {
                                pc.abort().map(|_| ()).map_err(|e| format!("{e:?}"))
                            } else {
                                match pc.commit() {
                                    Ok(o) => {
                                        self.last_commit = Some((o, None));
                                        Ok(())
                                    }
                                    Err(e) => Err(format!("{e:?}")),
                                }
                            }
                        }
                        Err(e) => Err(format!("{e:?}")),
                    }
                }
                _ => Err("no writer".into()),
            },
            Step::NewWriter => {
                self.writer = None;
                match self.index.as_ref() {
                    Some(index) => match index.writer_with_options::<TantivyDocument>(writer_options(&self.cfg)) {
                        Ok(w) => {
                            if self.eager {
                                w.set_merge_policy(Box::new(crate::hist::EagerMergePolicy));
                            } else {
                                w.set_merge_policy(Box::new(NoMergePolicy));
                            }
                            self.writer = Some(w);
                            Ok(())
                        }
                        Err(e) => Err(format!("{e:?}")),
                    },
                    None => Err("no index".into()),
                }
            }
        };
        let ok = res.is_ok();
        self.sim.marker(&format!("ret {s:?} {}", if ok { "ok" } else { "err" }));
        // model
        match (s, ok) {
            (Step::Add(id), true) => {
                self.model.working.insert(id);
            }
            (Step::DelId(id), true) => {
                self.model.working.remove(&id);
            }
            (Step::DeleteAll, true) => {
                self.model.working.clear();
            }
            (Step::PrepareWaitAbort, true) => {
                self.model.working = self.model.committed.clone();
                self.attempted = None;
            }
            (Step::Commit | Step::CommitPayload | Step::PrepareWaitCommit, true) => {
                self.model.committed = self.model.working.clone();
                self.model.history.push(self.model.committed.clone());
                self.attempted = None;
            }
            (Step::Rollback, true) | (Step::NewWriter, true) | (Step::DropWriter, true) | (Step::OpenOrCreate, _) => {
                self.model.working = self.model.committed.clone();
            }
            _ => {}
        }
        if !ok && self.first_error_at.is_none() {
            self.first_error_at = Some(self.calls.len());
        }
        self.calls.push(CallRecord { step: s, ok, err: res.err().unwrap_or_default() });
        ok
    }
}

pub fn workloads() -> Vec<(&'static str, Vec<Step>)> {
    use Step::*;
    vec![
        ("W2_add_commit", vec![Add(1), Add(2), Commit, Add(3), Commit]),
        ("W3_delete_commit", vec![Add(1), Add(2), Commit, Add(3), DelId(1), Commit, DelId(2), CommitPayload]),
        ("W4_merge_gc", vec![Add(1), Commit, Add(2), DelId(1), Commit, Add(3), Commit, Merge, Gc, Add(4), Commit]),
        ("W5_reload", vec![Add(1), Commit, Reload, Add(2), Commit, Reload, Merge, Reload]),
        ("W6_rollback_restart", vec![Add(1), Commit, Add(2), Rollback, Add(3), Commit, DropWriter, NewWriter, Add(4), DelId(3), Commit]),
        ("W7_deletes_then_gc", vec![Add(1), Add(2), Add(3), Commit, DelId(1), Commit, DelId(2), Commit, Gc, Add(4), Commit]),
        ("W8_open_or_create", vec![Add(1), Add(2), Commit, OpenOrCreate, NewWriter, Add(3), Commit, OpenOrCreate, Reload]),
    ]
}

/// The C10 oracle at quiescence: the directory holds exactly the files of the committed segments plus
/// meta.json and .managed.json, and the persisted managed list equals the managed files that exist.
pub fn directory_exact(sim: &SimDirectory, suffix: &str, when: &str) -> Result<(), (String, String)> {
    let idx = Index::open(sim.clone()).map_err(|e| ("reopen_fails".to_string(), format!("{e:?}")))?;
    let files: BTreeSet<String> = sim.file_names().into_iter().collect();
    let mut wantf: BTreeSet<String> = ["meta.json".to_string(), ".managed.json".to_string()].into_iter().collect();
    let mut missing = vec![];
    for m in idx.searchable_segment_metas().map_err(|e| ("reopen_fails".to_string(), format!("{e:?}")))? {
        for f in m.list_files() {
            let f = f.to_string_lossy().to_string();
            if files.contains(&f) {
                wantf.insert(f);
            } else if !f.ends_with(".store.temp") && !f.ends_with(".del") {
                missing.push(f);
            }
        }
    }
    if !missing.is_empty() {
        return Err((format!("needed_file_missing{suffix}"), format!("{when} the committed segments lack {missing:?}")));
    }
    let extra: Vec<&String> = files.difference(&wantf).collect();
    if !extra.is_empty() {
        return Err((format!("orphan_files{suffix}"), format!("{when} these files remain although nothing references them: {extra:?}")));
    }
    let managed: BTreeSet<String> = idx.directory().list_managed_files().into_iter().map(|p| p.to_string_lossy().to_string()).collect();
    let want_managed: BTreeSet<String> = wantf.iter().filter(|f| !f.starts_with('.')).cloned().collect();
    if managed != want_managed {
        return Err((format!("managed_list_differs{suffix}"), format!("{when} the managed list is {managed:?} but the files that exist are {want_managed:?}")));
    }
    Ok(())
}

/// meta.json's (opstamp, payload) must be those of the last commit that returned Ok (merges re-publish them)
pub fn commit_identity(sim: &SimDirectory, last: &Option<(u64, Option<String>)>) -> Result<(), (String, String)> {
    let Some((o, p)) = last else { return Ok(()) };
    let idx = Index::open(sim.clone()).map_err(|e| ("reopen_fails".to_string(), format!("{e:?}")))?;
    let m = idx.load_metas().map_err(|e| ("reopen_fails".to_string(), format!("{e:?}")))?;
    if m.opstamp != *o || m.payload != *p {
        return Err(("commit_identity_differs".to_string(), format!("meta.json reports opstamp {} payload {:?}; the last commit that returned Ok had opstamp {o} payload {p:?}", m.opstamp, m.payload)));
    }
    Ok(())
}
