//! C10 - garbage collection never removes a needed file and leaves no orphan.
use serde_json::{json, Value};

use crate::common::*;

pub fn worker(family: &str, start: u64, end: u64, step: u64, arg: &str) {
    if family == "preempt" {
        crate::preempt_family::worker("C10", start, end, step, arg)
    } else if family.starts_with("crash") {
        crate::c01::worker(family, start, end, step, arg)
    } else {
        crate::c02::worker(family, start, end, step, arg)
    }
}

pub fn replay(case: &Value) -> Vec<Violation> {
    if case["image"].is_object() {
        crate::c01::replay(case)
    } else if case.get("point").is_some() {
        crate::preempt_family::replay(case)
    } else {
        crate::c02::replay(case)
    }
}

pub fn run(ctx: &Ctx) -> Report {
    quiet_panics();
    let mut rep = Report::new("model_checking");
    // 1. forced collections / readers at every storage-operation boundary
    let p = crate::preempt_family::run_family(ctx, "C10");
    let mut st = p.st;
    let mut complete = p.complete;
    rep.set("preemption_scenarios", Value::Array(p.info));
    // 2. histories with the directory oracle
    let (hs, hc, hinfo) = crate::c02::run_phases(ctx, "C10", if ctx.tier.is_thorough() { &[0, 1, 4] } else { &[1, 4] });
    complete &= hc;
    rep.set("history_phases", Value::Array(hinfo));
    st.merge(hs);
    // 3. crash images followed by one commit and one collection
    let c = crate::c01::crash_family(ctx, "C10");
    complete &= c.complete;
    rep.set("crash_histories", Value::Array(c.histories));
    rep.set("crash_deviation_bound", c.dev as u64);
    st.merge(c.st);
    rep.set("exhaustive", complete);
    rep.set("rule", "(1) single-preemption exploration: for every storage operation of every indexing worker, compressor, merge thread and the caller during add / delete / commit / merge, a collection is forced in front of it on the updater thread (cut after every document or not); for every storage operation of a reader reload (own and second Index handle) each of five writer-side actions (commit; merge + collect; emptying commit + collect; commit + merge + collect + drop writer; rollback + payload commit + collect) is forced in front of it; for every storage operation of a merge thread the writer is dropped and a new writer commits; for every storage operation of the writer side a new reader loads the index: no call and no open fails for a missing file, and after a closing commit + collection the directory holds exactly the committed files and a matching managed list. (2) every history of the C02 alphabet up to the phase depth (single worker, cut after every document, eager merge policy) on SimDirectory: after every commit, awaited merges and a collection the directory is exact and readable. (3) every crash image of the C01 family, recovered, followed by delete-only commits, an add, a commit and a collection: directory exact");
    rep.set("states", st.counters.get("observations").copied().unwrap_or(0).max(1));
    rep.set("transitions", st.counters.get("transitions").copied().unwrap_or(0).max(1));
    rep.set("schedules", st.counters.get("preemptions_fired").copied().unwrap_or(0));
    rep.set("traces_validated_against_impl", st.evaluations);
    let nontrivial = st.counters.get("preemptions_fired").copied().unwrap_or(0) + st.counters.get("nontrivial").copied().unwrap_or(0);
    for k in ["preemptions_fired", "action_ran_to_completion_inside", "continuations", "observations"] {
        if st.counters.get(k).copied().unwrap_or(0) == 0 {
            rep.machinery_errors.push(format!("vacuous: {k} = 0"));
        }
    }
    rep.assume("preemption happens at storage-operation boundaries (the Directory seam) with one preemption per run; after the forced action the threads run freely. Interleavings inside a storage operation and of in-memory steps between two storage operations are not separated");
    rep.assume("the collection is serialized with the updater's own tasks by construction (single updater thread): it is not forced in front of the updater's own operations");
    rep.merge_stats(&st);
    rep.set("distinct_nontrivial", nontrivial);
    rep.violations = st.violations;
    rep.machinery_errors.extend(st.errors);
    let _ = json!(null);
    rep
}
