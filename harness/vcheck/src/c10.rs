//! C10 - garbage collection never removes a needed file and leaves no orphan.
use serde_json::{json, Value};

use crate::common::*;

pub fn worker(family: &str, start: u64, end: u64, step: u64, arg: &str) {
    if family == "preempt" {
        crate::preempt_family::worker("C10", start, end, step, arg)
    } else if family.starts_with("crash") {
        crate::c01::worker(family, start, end, step, arg)
    } else {
        crate::c02::worker(family, start, end, step, arg)
    }
}

/// A collection that finds META_LOCK taken (a reader in the middle of loading the index holds it) waits for it:
/// a thread holds the lock for `hold_ms` across a commit that empties a segment (its collection runs on the
/// updater thread inside the commit); once the commit has returned and the lock is released, the directory
/// holds exactly the committed files - without any further collection.
pub fn check_gc_waits_for_meta_lock(hold_ms: u64, sim_dir: bool) -> Option<(String, String)> {
    use tantivy::directory::{Directory, META_LOCK};
    use tantivy::{Index, IndexWriter, TantivyDocument, Term};
    // no scheduling hook: the lock retries sleep for as long as the subject says
    tantivy::verif_hooks::set_handler(None);
    let schema = crate::wl::schema();
    let idf = schema.get_field("id").unwrap();
    let sim = crate::simdir::SimDirectory::new();
    sim.set_log_enabled(false);
    let index = if sim_dir { crate::orv!(Index::create(sim.clone(), schema.clone(), tantivy::IndexSettings::default()), "Index::create") } else { Index::create_in_ram(schema.clone()) };
    let mut w: IndexWriter = crate::orv!(index.writer_with_num_threads(1, 15_000_000), "writer");
    w.set_merge_policy(Box::new(tantivy::merge_policy::NoMergePolicy));
    for seg in 0..2u64 {
        for k in 0..2u64 {
            let d: TantivyDocument = crate::wl::make_doc(&schema, seg * 2 + k);
            crate::orv!(w.add_document(d), "add_document");
        }
        crate::orv!(w.commit(), "commit");
    }
    let files_before = index.directory().list_managed_files().len();
    // the holder: a blocking lock, like the one a reader takes while it loads meta.json and opens the segments
    let dir = index.directory().clone();
    let (tx, rx) = std::sync::mpsc::channel::<()>();
    let holder = std::thread::spawn(move || {
        let lock = dir.acquire_lock(&META_LOCK);
        let _ = tx.send(());
        std::thread::sleep(std::time::Duration::from_millis(hold_ms));
        drop(lock);
    });
    let _ = rx.recv();
    // empties the first segment: the commit's collection has two segments' worth of files to consider
    w.delete_term(Term::from_field_u64(idf, 0));
    w.delete_term(Term::from_field_u64(idf, 1));
    crate::orv!(w.commit(), "commit (emptying a segment)");
    let _ = holder.join();
    crate::orv!(w.wait_merging_threads(), "wait_merging_threads");
    let managed: std::collections::BTreeSet<String> = index.directory().list_managed_files().into_iter().map(|p| p.to_string_lossy().to_string()).collect();
    let metas = crate::orv!(index.searchable_segment_metas(), "searchable_segment_metas");
    let mut want: std::collections::BTreeSet<String> = metas.iter().flat_map(|m| m.list_files()).map(|p| p.to_string_lossy().to_string()).collect();
    want.insert("meta.json".to_string());
    let orphans: Vec<&String> = managed.iter().filter(|f| !want.contains(*f) && !f.ends_with(".lock")).collect();
    if !orphans.is_empty() {
        return Some(("orphan_files_after_commit_while_meta_lock_was_held".into(), format!("META_LOCK was held for {hold_ms} ms across a commit that emptied a segment ({files_before} managed files before): after the commit returned and the lock was released the managed files still hold {orphans:?}, which no committed segment uses (the commit's collection gave up instead of waiting for the lock)")));
    }
    None
}

pub fn replay(case: &Value) -> Vec<Violation> {
    if let Some(h) = case["meta_lock_hold_ms"].as_u64() {
        return check_gc_waits_for_meta_lock(h, case["sim"].as_bool().unwrap_or(false)).map(|(r, w)| Violation::new(&r, w, case.clone())).into_iter().collect();
    }
    if case["image"].is_object() {
        crate::c01::replay(case)
    } else if case.get("point").is_some() {
        crate::preempt_family::replay(case)
    } else {
        crate::c02::replay(case)
    }
}

pub fn run(ctx: &Ctx) -> Report {
    quiet_panics();
    let mut rep = Report::new("model_checking");
    // 1. forced collections / readers at every storage-operation boundary
    let p = crate::preempt_family::run_family(ctx, "C10");
    let mut st = p.st;
    let mut complete = p.complete;
    rep.set("preemption_scenarios", Value::Array(p.info));
    // 1b. a collection waits for META_LOCK (held by a loading reader) instead of giving up
    for hold_ms in [60u64, 300] {
        for sim in [false, true] {
            st.eval();
            st.count("meta_lock_holder_cases");
            match std::panic::catch_unwind(std::panic::AssertUnwindSafe(|| check_gc_waits_for_meta_lock(hold_ms, sim))) {
                Ok(None) => {}
                Ok(Some((r, w))) => st.violation(Violation::new(&r, w, json!({"meta_lock_hold_ms":hold_ms,"sim":sim}))),
                Err(e) => st.violation(Violation::new("collection_panics", panic_message(e), json!({"meta_lock_hold_ms":hold_ms,"sim":sim}))),
            }
        }
    }
    // 2. histories with the directory oracle
    let (hs, hc, hinfo) = crate::c02::run_phases(ctx, "C10", if ctx.tier.is_thorough() { &[0, 1, 4] } else { &[1, 4] });
    complete &= hc;
    rep.set("history_phases", Value::Array(hinfo));
    st.merge(hs);
    // 3. crash images followed by one commit and one collection
    let c = crate::c01::crash_family(ctx, "C10");
    complete &= c.complete;
    rep.set("crash_histories", Value::Array(c.histories));
    rep.set("crash_deviation_bound", c.dev as u64);
    st.merge(c.st);
    rep.set("exhaustive", complete);
    rep.set("rule", "(0) a thread holds META_LOCK for 60 / 300 ms across a commit that empties a segment (RamDirectory and SimDirectory): the commit's collection waits for the lock, so that the directory is exact once the commit has returned and the lock is released. (1) single-preemption exploration: for every storage operation of every indexing worker, compressor, merge thread and the caller during add / delete / commit / merge, a collection is forced in front of it on the updater thread (cut after every document or not); for every storage operation of a reader reload (own and second Index handle) each of five writer-side actions (commit; merge + collect; emptying commit + collect; commit + merge + collect + drop writer; rollback + payload commit + collect) is forced in front of it; for every storage operation of a merge thread the writer is dropped and a new writer commits; for every storage operation of the writer side a new reader loads the index: no call and no open fails for a missing file, and after a closing commit + collection the directory holds exactly the committed files and a matching managed list. (2) every history of the C02 alphabet up to the phase depth (single worker, cut after every document, eager merge policy) on SimDirectory: after every commit, awaited merges and a collection the directory is exact and readable. (3) every crash image of the C01 family, recovered, followed by delete-only commits, an add, a commit and a collection: directory exact");
    rep.set("states", st.counters.get("observations").copied().unwrap_or(0).max(1));
    rep.set("transitions", st.counters.get("transitions").copied().unwrap_or(0).max(1));
    rep.set("schedules", st.counters.get("preemptions_fired").copied().unwrap_or(0));
    rep.set("traces_validated_against_impl", st.evaluations);
    let nontrivial = st.counters.get("preemptions_fired").copied().unwrap_or(0) + st.counters.get("nontrivial").copied().unwrap_or(0);
    for k in ["preemptions_fired", "action_ran_to_completion_inside", "continuations", "observations"] {
        if st.counters.get(k).copied().unwrap_or(0) == 0 {
            rep.machinery_errors.push(format!("vacuous: {k} = 0"));
        }
    }
    rep.assume("preemption happens at storage-operation boundaries (the Directory seam) with one preemption per run; after the forced action the threads run freely. Interleavings inside a storage operation and of in-memory steps between two storage operations are not separated");
    rep.assume("the collection is serialized with the updater's own tasks by construction (single updater thread): it is not forced in front of the updater's own operations");
    rep.merge_stats(&st);
    rep.set("distinct_nontrivial", nontrivial);
    rep.violations = st.violations;
    rep.machinery_errors.extend(st.errors);
    let _ = json!(null);
    rep
}
