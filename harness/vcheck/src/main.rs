mod common;
mod crash;
mod c01;
mod c01conf;
mod c02;
mod c03;
mod c04;
mod c05;
mod c06;
mod c07;
mod c08;
mod c09;
mod c10;
mod c11;
mod c12;
mod c13;
mod c14;
mod c15;
mod c16;
mod c17;
mod c18;
mod c18lock;
mod c16conf;
mod c19;
mod c20;
mod simdir;
mod wl;
mod dump;
mod hist;
mod iso;
mod preempt_family;
mod presched;
mod qmodel;
mod scen;

use common::*;
use serde_json::Value;

type RunFn = fn(&Ctx) -> Report;
type ReplayFn = fn(&Value) -> Vec<Violation>;

fn registry(id: &str) -> Option<(RunFn, ReplayFn)> {
    match id {
        "C02" => Some((c02::run, c02::replay)),
        "C03" => Some((c03::run, c03::replay)),
        "C04" => Some((c04::run, c04::replay_any)),
        "C06" => Some((c06::run, c06::replay)),
        "C07" => Some((c07::run, c07::replay)),
        "C08" => Some((c08::run, c08::replay)),
        "C09" => Some((c09::run, c09::replay)),
        "C11" => Some((c11::run, c11::replay)),
        "C01" => Some((c01::run, c01::replay)),
        "C05" => Some((c05::run, c05::replay)),
        "C10" => Some((c10::run, c10::replay)),
        "C12" => Some((c12::run, c12::replay)),
        "C13" => Some((c13::run, c13::replay)),
        "C14" => Some((c14::run, c14::replay)),
        "C15" => Some((c15::run, c15::replay)),
        "C16" => Some((c16::run, c16::replay)),
        "C17" => Some((c17::run, c17::replay)),
        "C18" => Some((c18::run, c18::replay)),
        "C19" => Some((c19::run, c19::replay)),
        "C20" => Some((c20::run, c20::replay)),
        _ => None,
    }
}

fn main() {
    let args: Vec<String> = std::env::args().collect();
    if args.len() < 2 {
        eprintln!("usage: vcheck <Cxx> [--tier quick|thorough] | vcheck replay <file>");
        std::process::exit(2);
    }
    if args[1] == "worker" {
        // vcheck worker <prop> <family> <start> <end> <step> <arg>
        let (prop, fam) = (args[2].as_str(), args[3].as_str());
        let start: u64 = args[4].parse().unwrap();
        let end: u64 = args[5].parse().unwrap();
        let step: u64 = args[6].parse().unwrap();
        let arg = args.get(7).map(|s| s.as_str()).unwrap_or("");
        match (prop, fam) {
            ("C16", "one") => c16::worker_one(arg),
            ("C16", _) => c16::worker(fam, start, end, step, arg),
            ("C04", "preempt") => preempt_family::worker("C04", start, end, step, arg),
            ("C02", "preempt") => preempt_family::worker("C02", start, end, step, arg),
            ("C02", _) | ("C04", _) => c02::worker(fam, start, end, step, arg),
            ("C18", "preempt") => preempt_family::worker("C18", start, end, step, arg),
            ("C18", _) => c18::worker(fam, start, end, step, arg),
            ("C11", "preempt") => preempt_family::worker("C11", start, end, step, arg),
            ("C11", _) => c11::worker(fam, start, end, step, arg),
            ("C01", _) => c01::worker(fam, start, end, step, arg),
            ("C13", _) => c13::worker(fam, start, end, step, arg),
            ("C05", _) => c05::worker(fam, start, end, step, arg),
            ("C10", _) => c10::worker(fam, start, end, step, arg),
            _ => panic!("unknown worker"),
        }
        return;
    }
    if args[1] == "scen" {
        // vcheck scen '<kind json>' ['<point json>']: run one scenario, print everything (debugging aid)
        common::quiet_panics();
        presched::install_handler();
        let kind: scen::Kind = serde_json::from_str(&args[2]).expect("kind");
        if args.len() > 3 && args[3] == "all" {
            let rec = scen::run(&kind, None);
            println!("recording: ranges {:?} violations {:?} notes {:?}", rec.ranges, rec.violations, rec.notes);
            for p in scen::points(&kind, &rec.ranges) {
                let r = scen::run(&kind, Some(&p));
                println!("{:?}: outcome {:?} violations {:?} notes {:?}", p, r.outcome, r.violations, r.notes);
            }
            return;
        }
        let point: Option<scen::Point> = args.get(3).map(|s| serde_json::from_str(s).expect("point"));
        let r = scen::run(&kind, point.as_ref());
        println!("ranges {:?}\noutcome {:?}\nviolations {:?}\nnotes {:?}", r.ranges, r.outcome, r.violations, r.notes);
        return;
    }
    if args[1] == "lock-child" {
        c18lock::child(&args[2]);
        return;
    }
    if args[1] == "conf-child" {
        c01conf::child(&args[2], args[3].parse().unwrap());
        return;
    }
    if args[1] == "replay" {
        let s = std::fs::read_to_string(&args[2]).expect("cannot read replay file");
        let v: Value = serde_json::from_str(&s).expect("replay file is not JSON");
        let id = v["property"].as_str().expect("replay file has no property");
        let (_, rp) = registry(id).expect("unknown property");
        quiet_panics();
        let want = v["rule"].as_str().unwrap_or("");
        if id != "C16" && (want.contains("abort") || want.contains("hang")) {
            iso::replay_guard(id, &args[2], 8 << 30, 75_000);
        }
        let vs = rp(&v["case"]);
        if let Some(x) = vs.iter().find(|x| x.rule == want).or(vs.first()) {
            println!("VIOLATION property={} replay={}", id, args[2]);
            println!("  rule={} {}", x.rule, x.what);
            std::process::exit(1);
        }
        println!("replay of {} did not reproduce a violation", args[2]);
        std::process::exit(0);
    }
    let id = args[1].clone();
    let mut tier = match std::env::var("VERIF_TIER").as_deref() {
        Ok("thorough") => Tier::Thorough,
        _ => Tier::Quick,
    };
    let mut i = 2;
    while i < args.len() {
        if args[i] == "--tier" && i + 1 < args.len() {
            tier = if args[i + 1] == "thorough" { Tier::Thorough } else { Tier::Quick };
            i += 1;
        }
        i += 1;
    }
    let Some((run, rp)) = registry(&id) else {
        eprintln!("unknown property {id}");
        std::process::exit(2);
    };
    let ctx = Ctx::new(&id, tier);
    let ctx = match id.as_str() {
        "C03" => ctx.with_budget(70, 3000),
        "C16" => ctx.with_budget(50, 1500),
        "C13" => ctx.with_budget(45, 3600),
        "C02" | "C04" | "C17" | "C05" | "C10" | "C19" => ctx.with_budget(75, 1800),
        _ => ctx,
    };
    // cap the address space of the check process itself: a subject that tries to allocate without bound
    // must fail its allocation (abort = machinery exit, not a verdict) instead of exhausting the machine
    unsafe {
        let lim = libc::rlimit { rlim_cur: 40 << 30, rlim_max: 40 << 30 };
        libc::setrlimit(libc::RLIMIT_AS, &lim);
    }
    // a panic of the harness itself is a machinery error (exit 2), never a verdict and never silent
    let r = std::panic::catch_unwind(std::panic::AssertUnwindSafe(|| {
        let rep = run(&ctx);
        finish(&ctx, rep, &|c| rp(c))
    }));
    match r {
        Ok(code) => std::process::exit(code),
        Err(e) => {
            println!("MACHINERY-ERROR: harness panic: {} [{}]", common::panic_message(e), common::last_panic());
            std::process::exit(2);
        }
    }
}
