//! Shared machinery: tiers, evidence, violations, known findings, parallel enumeration.
use std::collections::hash_map::DefaultHasher;
use std::collections::{BTreeMap, HashSet};
use std::hash::{Hash, Hasher};
use std::panic::{catch_unwind, AssertUnwindSafe};
use std::sync::atomic::{AtomicUsize, Ordering};
use std::sync::Mutex;
use std::time::{Duration, Instant};

use serde_json::{json, Map, Value};

pub fn verif_root() -> String {
    std::env::var("VERIF_ROOT").unwrap_or_else(|_| "/verif".to_string())
}

#[derive(Clone, Copy, PartialEq, Eq, Debug)]
pub enum Tier {
    Quick,
    Thorough,
}

impl Tier {
    pub fn name(self) -> &'static str {
        match self {
            Tier::Quick => "quick",
            Tier::Thorough => "thorough",
        }
    }
    pub fn is_thorough(self) -> bool {
        self == Tier::Thorough
    }
}

pub struct Ctx {
    pub id: String,
    pub tier: Tier,
    pub seed: u64,
    pub jobs: usize,
    pub start: Instant,
    /// exploration budget; hitting it sets exhaustive=false (never a verdict)
    pub budget: Duration,
}

impl Ctx {
    pub fn new(id: &str, tier: Tier) -> Ctx {
        let seed = std::env::var("VERIF_SEED")
            .ok()
            .and_then(|s| s.parse::<u64>().ok())
            .unwrap_or(0);
        let jobs = std::env::var("VERIF_JOBS")
            .ok()
            .and_then(|s| s.parse::<usize>().ok())
            .unwrap_or_else(|| {
                std::thread::available_parallelism()
                    .map(|n| n.get())
                    .unwrap_or(8)
                    .min(16)
            });
        let budget_s = std::env::var("VERIF_BUDGET_S")
            .ok()
            .and_then(|s| s.parse::<u64>().ok())
            .unwrap_or(match tier {
                Tier::Quick => 45,
                Tier::Thorough => 1200,
            });
        Ctx {
            id: id.to_string(),
            tier,
            seed,
            jobs,
            start: Instant::now(),
            budget: Duration::from_secs(budget_s),
        }
    }
    /// per-check exploration budget (seconds); VERIF_BUDGET_S still overrides
    pub fn with_budget(mut self, quick_s: u64, thorough_s: u64) -> Ctx {
        if std::env::var("VERIF_BUDGET_S").is_err() {
            self.budget = Duration::from_secs(if self.tier.is_thorough() { thorough_s } else { quick_s });
        }
        self
    }
    pub fn out_of_time(&self) -> bool {
        self.start.elapsed() > self.budget
    }
    pub fn remaining(&self) -> Duration {
        self.budget.saturating_sub(self.start.elapsed())
    }
}

#[derive(Clone, Debug)]
pub struct Violation {
    /// narrow signature; matched against known_findings.json `rule`
    pub rule: String,
    pub what: String,
    /// self-contained, replayable description of the failing case
    pub case: Value,
}

impl Violation {
    pub fn new(rule: &str, what: String, case: Value) -> Violation {
        Violation {
            rule: rule.to_string(),
            what,
            case,
        }
    }
}

/// What a check returns.
pub struct Report {
    pub level: &'static str,
    pub coverage: Map<String, Value>,
    pub assumptions: Vec<String>,
    pub violations: Vec<Violation>,
    pub machinery_errors: Vec<String>,
}

impl Report {
    pub fn new(level: &'static str) -> Report {
        Report {
            level,
            coverage: Map::new(),
            assumptions: vec![],
            violations: vec![],
            machinery_errors: vec![],
        }
    }
    pub fn set<V: Into<Value>>(&mut self, k: &str, v: V) {
        self.coverage.insert(k.to_string(), v.into());
    }
    pub fn add_count(&mut self, k: &str, n: u64) {
        let cur = self.coverage.get(k).and_then(|v| v.as_u64()).unwrap_or(0);
        self.coverage.insert(k.to_string(), json!(cur + n));
    }
    pub fn assume(&mut self, s: &str) {
        self.assumptions.push(s.to_string());
    }
    pub fn merge_stats(&mut self, st: &Stats) {
        self.add_count("evaluations", st.evaluations);
        self.add_count("distinct_nontrivial", st.nontrivial.len() as u64);
        for (k, v) in &st.counters {
            let key = format!("branch.{k}");
            self.add_count(&key, *v);
        }
        let samples = self
            .coverage
            .entry("samples".to_string())
            .or_insert_with(|| json!([]));
        if let Value::Array(a) = samples {
            for s in &st.samples {
                if a.len() < 12 {
                    a.push(s.clone());
                }
            }
        }
    }
}

/// Per-worker statistics, merged at the end.
#[derive(Default, Clone)]
pub struct Stats {
    pub evaluations: u64,
    pub nontrivial: HashSet<u64>,
    pub counters: BTreeMap<String, u64>,
    pub samples: Vec<Value>,
    pub violations: Vec<Violation>,
    pub errors: Vec<String>,
}

impl Stats {
    pub fn eval(&mut self) {
        self.evaluations += 1;
    }
    pub fn nontrivial<H: Hash>(&mut self, h: &H) {
        let mut s = DefaultHasher::new();
        h.hash(&mut s);
        self.nontrivial.insert(s.finish());
    }
    pub fn count(&mut self, k: &str) {
        *self.counters.entry(k.to_string()).or_insert(0) += 1;
    }
    pub fn count_n(&mut self, k: &str, n: u64) {
        *self.counters.entry(k.to_string()).or_insert(0) += n;
    }
    pub fn sample(&mut self, v: Value) {
        if self.samples.len() < 3 {
            self.samples.push(v);
        }
    }
    pub fn violation(&mut self, v: Violation) {
        // keep the first few per rule (cases are enumerated simplest first)
        let n = self.violations.iter().filter(|x| x.rule == v.rule).count();
        let cap = if std::env::var("VERIF_ALL_VIOLATIONS").is_ok() { 100000 } else { 3 };
        if n < cap {
            self.violations.push(v);
        } else {
            self.count(&format!("suppressed_dup_violation.{}", v.rule));
        }
    }
    pub fn merge(&mut self, o: Stats) {
        self.evaluations += o.evaluations;
        self.nontrivial.extend(o.nontrivial);
        for (k, v) in o.counters {
            *self.counters.entry(k).or_insert(0) += v;
        }
        for s in o.samples {
            if self.samples.len() < 6 {
                self.samples.push(s);
            }
        }
        for v in o.violations {
            self.violation(v);
        }
        self.errors.extend(o.errors);
    }
}

pub fn hash_of<H: Hash>(h: &H) -> u64 {
    let mut s = DefaultHasher::new();
    h.hash(&mut s);
    s.finish()
}

pub fn panic_message(e: Box<dyn std::any::Any + Send>) -> String {
    if let Some(s) = e.downcast_ref::<&str>() {
        s.to_string()
    } else if let Some(s) = e.downcast_ref::<String>() {
        s.clone()
    } else {
        "non-string panic".to_string()
    }
}

/// Run `f(i, &mut stats)` for every i in 0..n on `jobs` threads (work stealing by atomic counter).
/// Stops handing out new work when `ctx` is out of time; returns (merged stats, number completed).
pub fn par_for<F>(ctx: &Ctx, n: usize, f: F) -> (Stats, usize)
where F: Fn(usize, &mut Stats) + Sync {
    let next = AtomicUsize::new(0);
    let done = AtomicUsize::new(0);
    let merged = Mutex::new(Stats::default());
    // contiguous prefix completed (so that "covered below the cap" is well defined) is approximated by
    // the count; order rotation by seed only changes which cases run first when a cap is hit.
    let rot = if n > 0 { (ctx.seed as usize) % n } else { 0 };
    std::thread::scope(|s| {
        for _ in 0..ctx.jobs.max(1) {
            s.spawn(|| {
                let mut st = Stats::default();
                loop {
                    if ctx.out_of_time() {
                        break;
                    }
                    let k = next.fetch_add(1, Ordering::SeqCst);
                    if k >= n {
                        break;
                    }
                    let i = (k + rot) % n;
                    let r = catch_unwind(AssertUnwindSafe(|| f(i, &mut st)));
                    if let Err(e) = r {
                        st.errors
                            .push(format!("harness panic in case {i}: {}", panic_message(e)));
                    }
                    done.fetch_add(1, Ordering::SeqCst);
                }
                merged.lock().unwrap().merge(st);
            });
        }
    });
    let st = merged.into_inner().unwrap();
    (st, done.load(Ordering::SeqCst))
}

thread_local! {
    static LAST_PANIC: std::cell::RefCell<String> = const { std::cell::RefCell::new(String::new()) };
}

/// Silence the default panic hook (panics of the subject are observations, not noise); the message and
/// location of the last panic of each thread are kept for reports.
pub fn quiet_panics() {
    std::panic::set_hook(Box::new(|info| {
        let loc = info
            .location()
            .map(|l| format!("{}:{}", l.file(), l.line()))
            .unwrap_or_default();
        let msg = if let Some(s) = info.payload().downcast_ref::<&str>() {
            s.to_string()
        } else if let Some(s) = info.payload().downcast_ref::<String>() {
            s.clone()
        } else {
            String::new()
        };
        if std::env::var("VERIF_BT").is_ok() {
            eprintln!("panic: {msg} @ {loc}\n{}", std::backtrace::Backtrace::force_capture());
        }
        let _ = LAST_PANIC.try_with(|p| *p.borrow_mut() = format!("{msg} @ {loc}"));
    }));
}

pub fn last_panic() -> String {
    LAST_PANIC.with(|p| p.borrow().clone())
}

// ---------------------------------------------------------------------------------------------
// known findings

#[derive(Clone, Debug)]
pub struct Finding {
    pub property: String,
    pub rule: String,
    pub status: String,
    pub what: String,
}

pub fn load_findings() -> Vec<Finding> {
    let path = format!("{}/known_findings.json", verif_root());
    let Ok(s) = std::fs::read_to_string(&path) else {
        return vec![];
    };
    let v: Value = serde_json::from_str(&s).expect("known_findings.json must be valid JSON");
    let mut out = vec![];
    for e in v.as_array().cloned().unwrap_or_default() {
        out.push(Finding {
            property: e["property"].as_str().unwrap_or("").to_string(),
            rule: e["rule"].as_str().unwrap_or("").to_string(),
            status: e["status"].as_str().unwrap_or("known").to_string(),
            what: e["what"].as_str().unwrap_or("").to_string(),
        });
    }
    out
}

pub fn tree_id() -> String {
    let out = std::process::Command::new("git")
        .args(["-C", "/repo", "rev-parse", "--short", "HEAD"])
        .output();
    let head = out
        .ok()
        .map(|o| String::from_utf8_lossy(&o.stdout).trim().to_string())
        .unwrap_or_default();
    let dirty = std::process::Command::new("git")
        .args(["-C", "/repo", "status", "--porcelain", "--untracked-files=no"])
        .output()
        .ok()
        .map(|o| !o.stdout.is_empty())
        .unwrap_or(false);
    format!("{head}{}", if dirty { "-dirty" } else { "" })
}

/// Finish a check: evidence, known findings, VIOLATION lines. Returns the process exit code.
pub fn finish(ctx: &Ctx, mut rep: Report, replay: &dyn Fn(&Value) -> Vec<Violation>) -> i32 {
    let findings = load_findings();
    let mut known_printed: HashSet<String> = HashSet::new();
    let mut real: Vec<Violation> = vec![];
    for v in rep.violations.drain(..) {
        let k = findings
            .iter()
            .find(|f| f.property == ctx.id && f.rule == v.rule && f.status == "known");
        if let Some(f) = k {
            if known_printed.insert(f.rule.clone()) {
                println!(
                    "KNOWN-FINDING: property={} rule={} {} (witness: {})",
                    ctx.id, f.rule, f.what, v.what
                );
            }
        } else {
            real.push(v);
        }
    }
    // every violation is re-executed from its artefact before being reported
    let mut confirmed: Vec<(Violation, String)> = vec![];
    let mut unreproduced: Vec<Value> = vec![];
    let mut seen_rules: HashSet<String> = HashSet::new();
    for v in real {
        if !seen_rules.insert(v.rule.clone()) && confirmed.len() >= 5 {
            continue;
        }
        // a case that aborted or hung its worker process is re-executed in a process of its own (`vcheck
        // replay` installs an abort handler and a watchdog that report the reproduction); everything else
        // is re-executed here
        let process_level = ctx.id != "C16" && (v.rule.contains("_hang") || v.rule.contains("_abort"));
        let reproduced = if process_level {
            let tmp = format!("{}/replays/.confirm-{}-{}.json", verif_root(), ctx.id, std::process::id());
            let _ = std::fs::create_dir_all(format!("{}/replays", verif_root()));
            let art = json!({"property": ctx.id, "rule": v.rule, "what": v.what, "case": v.case, "tree": tree_id()});
            let _ = std::fs::write(&tmp, serde_json::to_string(&art).unwrap());
            let st = std::process::Command::new(std::env::current_exe().unwrap()).args(["replay", &tmp]).stdout(std::process::Stdio::null()).stderr(std::process::Stdio::null()).status();
            let _ = std::fs::remove_file(&tmp);
            matches!(st.map(|s| s.code()), Ok(Some(1)))
        } else {
            match catch_unwind(AssertUnwindSafe(|| replay(&v.case))) {
                Ok(vs) => vs.iter().any(|x| x.rule == v.rule),
                Err(_) => false,
            }
        };
        if !reproduced {
            if v.case.get("timing_dependent").and_then(|t| t.as_bool()) == Some(true) {
                // observations of families that run several free threads (two indexing workers, a compressor
                // thread) under injected faults: one that does not show again is recorded, not judged
                unreproduced.push(json!({"rule": v.rule, "what": v.what.chars().take(400).collect::<String>()}));
                continue;
            }
            rep.machinery_errors.push(format!(
                "violation did not reproduce on replay (nondeterminism?): rule={} {}",
                v.rule, v.what
            ));
            continue;
        }
        let art = json!({
            "property": ctx.id,
            "rule": v.rule,
            "what": v.what,
            "case": v.case,
            "tree": tree_id(),
        });
        let h = hash_of(&art.to_string());
        let path = format!("{}/replays/{}-{:016x}.json", verif_root(), ctx.id, h);
        let _ = std::fs::create_dir_all(format!("{}/replays", verif_root()));
        std::fs::write(&path, serde_json::to_string_pretty(&art).unwrap()).unwrap();
        confirmed.push((v, path));
    }
    let nviol = confirmed.len();
    if !unreproduced.is_empty() {
        println!("UNREPRODUCED: {} timing-dependent observation(s) did not show again on replay (recorded in the evidence, not judged)", unreproduced.len());
        rep.set("unreproduced_timing_dependent_observations", Value::Array(unreproduced));
    }
    rep.set("known_findings_seen", known_printed.len() as u64);
    if !rep.coverage.contains_key("exhaustive") {
        rep.set("exhaustive", false);
    }
    // A family that did not run because the time budget was used up (a loaded machine) is not a vacuous check:
    // the run is reported as incomplete (exhaustive = false), not as broken machinery.
    let incomplete = rep.coverage.get("exhaustive").and_then(|v| v.as_bool()) != Some(true) || ctx.out_of_time();
    if incomplete {
        let (skipped, kept): (Vec<String>, Vec<String>) = rep.machinery_errors.drain(..).partition(|e| e.starts_with("vacuous"));
        rep.machinery_errors = kept;
        if !skipped.is_empty() {
            rep.set("exhaustive", false);
            rep.set("vacuity_checks_skipped_because_incomplete", Value::Array(skipped.into_iter().map(Value::String).collect()));
        }
    }
    let ev = json!({
        "property_id": ctx.id,
        "tier": ctx.tier.name(),
        "seed": ctx.seed,
        "level": rep.level,
        "coverage": Value::Object(rep.coverage.clone()),
        "assumptions": rep.assumptions,
        "wall_s": ctx.start.elapsed().as_secs_f64(),
        "violations": nviol,
        "machinery_errors": rep.machinery_errors,
        "tree": tree_id(),
    });
    let _ = std::fs::create_dir_all(format!("{}/evidence", verif_root()));
    std::fs::write(
        format!("{}/evidence/{}.json", verif_root(), ctx.id),
        serde_json::to_string_pretty(&ev).unwrap(),
    )
    .unwrap();
    for (v, path) in &confirmed {
        println!("VIOLATION property={} replay={}", ctx.id, path);
        println!("  rule={} {}", v.rule, v.what);
    }
    let cov = &ev["coverage"];
    println!(
        "[{}:{}] evaluations={} distinct_nontrivial={} states={} transitions={} exhaustive={} wall={:.1}s violations={} known={}",
        ctx.id,
        ctx.tier.name(),
        cov["evaluations"],
        cov["distinct_nontrivial"],
        cov["states"],
        cov["transitions"],
        cov["exhaustive"],
        ctx.start.elapsed().as_secs_f64(),
        nviol,
        known_printed.len()
    );
    if nviol > 0 {
        return 1;
    }
    if !rep.machinery_errors.is_empty() {
        for e in &rep.machinery_errors {
            eprintln!("MACHINERY-ERROR: {e}");
        }
        return 2;
    }
    0
}


/// In a check function returning `Option<(rule, what)>`: an API call of the subject that fails on a
/// fault-free path is an observation (`unexpected_api_error`), never silently "no violation".
#[macro_export]
macro_rules! orv {
    ($e:expr, $what:expr) => {
        match $e {
            Ok(x) => x,
            Err(e) => return Some(("unexpected_api_error".to_string(), format!("{}: {:?}", $what, e))),
        }
    };
}
