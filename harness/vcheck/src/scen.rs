//! Preemption scenarios shared by C05 (reader snapshots) and C10 (garbage collection): each scenario is run
//! once without preemption (recording the storage operations of every thread in its gated section) and then
//! once per (thread, operation index) with the scenario's action forced in front of that operation.
use std::collections::{BTreeMap, BTreeSet};
use std::sync::{Arc, Mutex};

use serde::{Deserialize, Serialize};
use tantivy::{Index, IndexReader, ReloadPolicy, Searcher};

use crate::presched::{Outcome, Preempt};
use crate::simdir::{set_logical_tid, Op, SimDirectory};
use crate::wl::*;

#[derive(Clone, Debug, Serialize, Deserialize, PartialEq)]
pub enum Kind {
    /// a collection is forced while indexing workers, the compressor thread, merge threads or the caller
    /// are between two storage operations of add / delete / commit / merge
    GcVsWriters { flush_after: Option<u32>, workers: usize, compressor: bool },
    /// the same on an index sorted by a fast field (segments are written through a temporary doc store)
    GcVsSortedWriters { flush_after: Option<u32> },
    /// a reader reload (second Index handle or the writer's own) is preempted between two of its storage
    /// operations by writer-side activity
    ReloadVsWriter { second_handle: bool, action: usize },
    /// a merge thread / the updater finishing the merge is preempted by the writer being dropped (action 0)
    /// or rolled back (action 1), followed by an add and a commit
    MergeVsRestart { action: usize },
    /// two merges sharing a source segment are in flight at once (all ordered choices over 3 segments);
    /// the one that can no longer be applied must be discarded
    OverlappingMerges { combo: usize },
    /// the updater is preempted inside a commit until a concurrently running merge has finished its files
    /// and asked for publication
    CommitVsMergeEnd,
    /// an indexing worker / the caller is preempted by a reader loading the index for the first time
    WriterVsReload,
    /// a merge thread is preempted between two of its storage operations by deletes / commits / rollback /
    /// adds on the writer (the end_merge reconciliation of deletes newer than the merge's target opstamp)
    MergeVsOps { action: usize },
    /// two deviations: the merge thread is preempted at its `m_idx`-th storage operation by the action, and
    /// afterwards the k-th storage operation of the updater (finishing / reconciling the merge) fails once
    MergeVsOpsFault { action: usize, m_idx: usize },
    /// wait_merging_threads() is blocked on a running merge; a second writer is attempted (on another Index
    /// handle of the directory) in front of every storage operation of the merge thread: it must be refused
    WaitMergingVsNewWriter,
    /// two producer threads share one writer: producer A is preempted at each of its hook points (between
    /// drawing an opstamp and enqueueing the operation) by the whole program of producer B
    Producers { a: usize, b: usize },
}

#[derive(Clone, Debug, PartialEq)]
pub enum POp {
    Add(u64, &'static str),
    Del(&'static str),
    /// run([add(id, key), delete(key2), add(id + 1, key)]) as one batch
    Batch(u64, &'static str, &'static str),
}

pub fn producer_programs() -> Vec<Vec<POp>> {
    use POp::*;
    vec![
        vec![Add(10, "x")],
        vec![Del("x")],
        vec![Add(10, "x"), Del("x")],
        vec![Del("x"), Add(10, "x")],
        vec![Batch(10, "x", "x")],
        vec![Add(10, "y"), Del("y"), Add(11, "x")],
    ]
}

pub fn producer_programs_b() -> Vec<Vec<POp>> {
    use POp::*;
    vec![vec![Del("x")], vec![Add(20, "x")], vec![Add(20, "x"), Del("x")], vec![Del("x"), Add(20, "x"), Del("y")], vec![Batch(20, "x", "x")]]
}

fn apply_pop(state: &mut Vec<(u64, String)>, op: &POp) {
    match op {
        POp::Add(id, k) => state.push((*id, k.to_string())),
        POp::Del(k) => state.retain(|d| d.1 != *k),
        POp::Batch(id, k, k2) => {
            state.push((*id, k.to_string()));
            state.retain(|d| d.1 != *k2);
            state.push((*id + 1, k.to_string()));
        }
    }
}

pub fn merge_actions() -> Vec<Vec<Step>> {
    use Step::*;
    vec![
        vec![DelId(1), Commit],
        vec![DelId(1), Commit, DelId(3), Commit],
        vec![DelId(1)],
        vec![Add(5), DelId(2), Rollback],
        vec![Add(5), Commit, Gc],
        vec![DelId(1), DelId(2), Commit],
        vec![DelId(4), Add(5), CommitPayload, DelId(5), Add(6)],
    ]
}

pub fn reload_actions() -> Vec<Vec<Step>> {
    use Step::*;
    vec![
        vec![Add(3), Commit],
        vec![Merge, Gc],
        vec![DelId(1), Commit, Gc],
        vec![Add(3), Commit, Merge, Gc, DropWriter],
        vec![Add(3), Rollback, DelId(2), CommitPayload, Gc],
    ]
}

pub fn scenarios(thorough: bool) -> Vec<Kind> {
    let mut v = vec![Kind::GcVsWriters { flush_after: None, workers: 1, compressor: false }, Kind::GcVsWriters { flush_after: Some(1), workers: 1, compressor: false }, Kind::GcVsSortedWriters { flush_after: None }];
    if thorough {
        v.push(Kind::GcVsSortedWriters { flush_after: Some(2) });
    }
    for second_handle in [true, false] {
        for action in 0..reload_actions().len() {
            v.push(Kind::ReloadVsWriter { second_handle, action });
        }
    }
    v.push(Kind::MergeVsRestart { action: 0 });
    v.push(Kind::MergeVsRestart { action: 1 });
    for combo in 0..overlap_combos().len() {
        v.push(Kind::OverlappingMerges { combo });
    }
    v.push(Kind::CommitVsMergeEnd);
    v.push(Kind::WriterVsReload);
    for action in 0..merge_actions().len() {
        v.push(Kind::MergeVsOps { action });
    }
    for action in [0usize, 1, 5] {
        for m_idx in if thorough { vec![1usize, 20, 40, 60, 70] } else { vec![1usize, 40] } {
            v.push(Kind::MergeVsOpsFault { action, m_idx });
        }
    }
    v.push(Kind::WaitMergingVsNewWriter);
    for a in 0..producer_programs().len() {
        for b in 0..producer_programs_b().len() {
            v.push(Kind::Producers { a, b });
        }
    }
    if thorough {
        v.push(Kind::GcVsWriters { flush_after: None, workers: 1, compressor: true });
        v.push(Kind::GcVsWriters { flush_after: Some(1), workers: 2, compressor: false });
    }
    v
}

#[derive(Clone, Debug, Serialize, Deserialize, PartialEq)]
pub struct Point {
    pub tid: String,
    pub idx: usize,
}

#[derive(Default)]
pub struct RunResult {
    pub violations: Vec<(String, String)>,
    pub outcome: Option<Outcome>,
    /// per logical thread: range of its storage-operation indexes inside the gated section
    pub ranges: BTreeMap<String, (usize, usize)>,
    pub notes: Vec<String>,
}

/// what a searcher shows: ids with stored / fast / postings agreement (read_ids_of's checks on this searcher)
pub fn fingerprint(searcher: &Searcher) -> Result<BTreeSet<u64>, String> {
    use tantivy::schema::document::Value as _;
    let schema = searcher.schema().clone();
    let idf = schema.get_field("id").map_err(|e| e.to_string())?;
    let mut out = BTreeSet::new();
    for (ord, seg) in searcher.segment_readers().iter().enumerate() {
        let col = seg.fast_fields().u64("id").map_err(|e| format!("{e:?}"))?;
        for d in seg.doc_ids_alive() {
            let id = col.first(d).ok_or("missing id")?;
            let stored: tantivy::TantivyDocument = searcher.doc(tantivy::DocAddress::new(ord as u32, d)).map_err(|e| format!("doc: {e:?}"))?;
            if stored.get_first(idf).and_then(|v| v.as_u64()) != Some(id) {
                return Err(format!("document {id}: stored id differs"));
            }
            if !out.insert(id) {
                return Err(format!("document {id} is present twice"));
            }
        }
    }
    let q = tantivy::query::TermQuery::new(tantivy::Term::from_field_text(schema.get_field("body").unwrap(), "common"), tantivy::schema::IndexRecordOption::WithFreqsAndPositions);
    let n = searcher.search(&q, &tantivy::collector::Count).map_err(|e| format!("search: {e:?}"))?;
    if n != out.len() {
        return Err(format!("term query counts {n} documents, {} are alive", out.len()));
    }
    let top = searcher.search(&q, &tantivy::collector::TopDocs::with_limit(10).order_by_score()).map_err(|e| format!("search: {e:?}"))?;
    if top.len() != out.len().min(10) {
        return Err(format!("top-docs returns {} of {} documents", top.len(), out.len()));
    }
    Ok(out)
}

/// storage operations per thread plus hook points per thread ("T@")
fn all_counts(sim: &SimDirectory) -> BTreeMap<String, usize> {
    let mut m = sim.thread_op_counts();
    m.extend(crate::presched::point_counts());
    m
}

fn ranges_between(before: &BTreeMap<String, usize>, after: &BTreeMap<String, usize>) -> BTreeMap<String, (usize, usize)> {
    let mut out = BTreeMap::new();
    for (t, &b) in after {
        let a = before.get(t).copied().unwrap_or(0);
        if b > a {
            out.insert(t.clone(), (a, b));
        }
    }
    out
}

/// failed opens of segment files inside the log slice (a needed file was missing when somebody opened it)
fn failed_opens(sim: &SimDirectory, from: usize) -> Vec<String> {
    let mut v = vec![];
    for e in sim.log().iter().skip(from) {
        if let Op::OpenRead { path } = &e.op {
            if !e.ok && !path.starts_with('.') && path != "meta.json" {
                v.push(format!("{}:{}", e.tid, path));
            }
        }
    }
    v
}

fn steps_ok(d: &mut Driver, steps: &[Step], out: &mut Vec<(String, String)>, ctx: &str) -> bool {
    for s in steps {
        if !d.step(*s) {
            let err = d.calls.last().map(|c| c.err.clone()).unwrap_or_default();
            let rule = if err.contains("FileDoesNotExist") || err.contains("does not exist") { "call_fails_needed_file_missing" } else { "call_fails" };
            out.push((rule.to_string(), format!("{ctx}: {s:?} returned an error: {err}")));
            return false;
        }
    }
    true
}

pub fn run(kind: &Kind, point: Option<&Point>) -> RunResult {
    crate::presched::reset_points();
    match kind {
        Kind::GcVsWriters { flush_after, workers, compressor } => gc_vs_writers(*flush_after, *workers, *compressor, point),
        Kind::GcVsSortedWriters { flush_after } => {
            SORTED.store(true, std::sync::atomic::Ordering::SeqCst);
            let r = gc_vs_writers(*flush_after, 1, false, point);
            SORTED.store(false, std::sync::atomic::Ordering::SeqCst);
            r
        }
        Kind::ReloadVsWriter { second_handle, action } => reload_vs_writer(*second_handle, *action, point),
        Kind::MergeVsRestart { action } => merge_vs_restart(*action, point),
        Kind::OverlappingMerges { combo } => overlapping_merges(*combo, point),
        Kind::CommitVsMergeEnd => commit_vs_merge_end(point),
        Kind::WriterVsReload => writer_vs_reload(point),
        Kind::MergeVsOps { action } => merge_vs_ops(*action, point, None),
        Kind::MergeVsOpsFault { action, m_idx } => merge_vs_ops(*action, point, Some(*m_idx)),
        Kind::Producers { a, b } => producers(*a, *b, point),
        Kind::WaitMergingVsNewWriter => wait_merging_vs_new_writer(point),
    }
}

fn final_checks(sim: &SimDirectory, d: &mut Driver, res: &mut RunResult, log_from: usize) {
    use Step::*;
    crate::hist::wait_merges_quiescent();
    if let Err(v) = commit_identity(sim, &d.last_commit) {
        res.violations.push(v);
    }
    if d.writer.is_none() && !steps_ok(d, &[NewWriter], &mut res.violations, "after the scenario") {
        return;
    }
    if !steps_ok(d, &[Add(50), Commit, Gc], &mut res.violations, "after the scenario") {
        return;
    }
    d.writer = None;
    match read_ids(sim) {
        Ok(ids) if ids == d.model.committed => {}
        Ok(ids) => res.violations.push(("final_content_differs".into(), format!("a fresh open shows {ids:?}, the calls that returned Ok give {:?}", d.model.committed))),
        Err(e) => res.violations.push(("final_index_unreadable".into(), e)),
    }
    if let Err(v) = directory_exact(sim, "_at_quiescence", "after the last commit returned, merges finished and a collection ran,") {
        res.violations.push(v);
    }
    let f = failed_opens(sim, log_from);
    if !f.is_empty() {
        res.violations.push(("needed_file_missing_when_opened".into(), format!("opens of segment files failed during the scenario: {f:?}")));
    }
}

fn gc_vs_writers(flush_after: Option<u32>, workers: usize, compressor: bool, point: Option<&Point>) -> RunResult {
    use Step::*;
    let mut res = RunResult::default();
    crate::presched::set_flush(flush_after);
    let cfg = WlConfig { workers, dedicated_compressor: compressor };
    let sim = SimDirectory::new();
    let mut d = Driver::new(sim.clone(), &cfg);
    if d.create_index().is_err() || d.open_writer().is_err() {
        res.violations.push(("machinery".into(), "setup failed".into()));
        return res;
    }
    if !steps_ok(&mut d, &[Add(1), Add(2), Commit, Add(3), Commit], &mut res.violations, "setup") {
        return res;
    }
    let before = all_counts(&sim);
    let log_from = sim.log_len();
    let trigger = d.writer.as_ref().unwrap().verif_gc_trigger();
    let gc_result: Arc<Mutex<Option<String>>> = Arc::new(Mutex::new(None));
    let pre = point.map(|p| {
        let g = gc_result.clone();
        Preempt::arm(
            &sim,
            &p.tid,
            p.idx,
            Box::new(move || {
                let r = trigger().wait();
                *g.lock().unwrap() = Some(match r {
                    Ok(r) => format!("ok deleted={} failed={}", r.deleted_files.len(), r.failed_to_delete_files.len()),
                    Err(e) => format!("err {e:?}"),
                });
            }),
        )
    });
    let ok = steps_ok(&mut d, &[Add(4), Add(5), DelId(1), Commit, Merge, Add(6), DelId(2), Commit], &mut res.violations, "with a collection forced");
    res.ranges = ranges_between(&before, &all_counts(&sim));
    if let Some(p) = pre {
        let o = p.finish();
        if let Some(m) = &o.action_panic {
            res.violations.push(("forced_collection_panics".into(), m.clone()));
        }
        if let Some(g) = gc_result.lock().unwrap().clone() {
            if g.starts_with("err") && !g.contains("LockBusy") {
                res.violations.push(("forced_collection_fails".into(), g));
            }
        }
        res.outcome = Some(o);
    }
    crate::presched::set_flush(None);
    if ok {
        final_checks(&sim, &mut d, &mut res, log_from);
    }
    res
}

fn reload_vs_writer(second_handle: bool, action: usize, point: Option<&Point>) -> RunResult {
    use Step::*;
    let mut res = RunResult::default();
    crate::presched::set_flush(None);
    let cfg = WlConfig { workers: 1, dedicated_compressor: false };
    let sim = SimDirectory::new();
    let mut d = Driver::new(sim.clone(), &cfg);
    if d.create_index().is_err() || d.open_writer().is_err() {
        res.violations.push(("machinery".into(), "setup failed".into()));
        return res;
    }
    if !steps_ok(&mut d, &[Add(1), Commit, Add(2), Commit], &mut res.violations, "setup") {
        return res;
    }
    let index2 = if second_handle {
        match Index::open(sim.clone()) {
            Ok(i) => i,
            Err(e) => {
                res.violations.push(("machinery".into(), format!("{e:?}")));
                return res;
            }
        }
    } else {
        d.index.clone().unwrap()
    };
    let reader: IndexReader = match index2.reader_builder().reload_policy(ReloadPolicy::Manual).try_into() {
        Ok(r) => r,
        Err(e) => {
            res.violations.push(("reader_creation_fails".into(), format!("{e:?}")));
            return res;
        }
    };
    let s0 = reader.searcher();
    let f0 = match fingerprint(&s0) {
        Ok(f) => f,
        Err(e) => {
            res.violations.push(("searcher_inconsistent".into(), e));
            return res;
        }
    };
    let h0 = d.model.history.len() - 1;
    if f0 != d.model.history[h0] {
        res.violations.push(("reload_not_a_commit".into(), format!("the first load shows {f0:?}, the last commit is {:?}", d.model.history[h0])));
        return res;
    }
    let before = all_counts(&sim);
    let log_from = sim.log_len();
    let steps = reload_actions()[action].clone();
    let drv = Arc::new(Mutex::new(d));
    let action_errors: Arc<Mutex<Vec<(String, String)>>> = Arc::new(Mutex::new(vec![]));
    let run_action = {
        let (drv, errs, steps) = (drv.clone(), action_errors.clone(), steps.clone());
        move || {
            let mut d = drv.lock().unwrap();
            let mut v = vec![];
            steps_ok(&mut d, &steps, &mut v, "writer-side action during the reload");
            errs.lock().unwrap().extend(v);
        }
    };
    let pre = point.map(|p| Preempt::arm(&sim, &p.tid, p.idx, Box::new(run_action.clone())));
    // the reload runs on its own logical thread R
    let r2 = reader.clone();
    let reload_result = std::thread::Builder::new()
        .name("verif-reader".into())
        .spawn(move || {
            set_logical_tid("R");
            std::panic::catch_unwind(std::panic::AssertUnwindSafe(|| r2.reload().map_err(|e| format!("{e:?}")))).unwrap_or_else(|e| Err(format!("panic: {}", crate::common::panic_message(e))))
        })
        .unwrap()
        .join()
        .unwrap();
    res.ranges = ranges_between(&before, &all_counts(&sim));
    let fired = match pre {
        Some(p) => {
            let o = p.finish();
            let f = o.fired;
            if let Some(m) = &o.action_panic {
                res.violations.push(("writer_action_panics".into(), m.clone()));
            }
            res.outcome = Some(o);
            f
        }
        None => false,
    };
    if !fired {
        // no preemption happened: the action runs after the reload (sequential baseline)
        run_action();
    }
    res.violations.extend(action_errors.lock().unwrap().drain(..));
    let mut d = drv.lock().unwrap();
    // 1. the reload itself
    match &reload_result {
        Err(e) => {
            let rule = if e.contains("FileDoesNotExist") || e.contains("does not exist") { "reload_fails_file_missing" } else { "reload_fails" };
            res.violations.push((rule.into(), format!("reload() preempted at {:?} returned {e}", res.outcome.as_ref().map(|o| o.at_op.clone()))));
        }
        Ok(()) => {
            let s1 = reader.searcher();
            match fingerprint(&s1) {
                Err(e) => res.violations.push(("searcher_inconsistent".into(), format!("after the reload: {e}"))),
                Ok(f1) => {
                    let pos = d.model.history.iter().enumerate().skip(h0).find(|(_, s)| **s == f1).map(|(i, _)| i);
                    match pos {
                        None => res.violations.push(("reload_not_a_commit".into(), format!("the reloaded searcher shows {f1:?}; the commits so far are {:?} (first load saw #{h0})", d.model.history))),
                        Some(h1) => {
                            // 3. a later reload never moves back and reaches the last commit
                            match reader.reload() {
                                Err(e) => res.violations.push(("reload_fails".into(), format!("second reload: {e:?}"))),
                                Ok(()) => match fingerprint(&reader.searcher()) {
                                    Err(e) => res.violations.push(("searcher_inconsistent".into(), format!("after the second reload: {e}"))),
                                    Ok(f2) => {
                                        let last = d.model.history.len() - 1;
                                        if f2 != d.model.history[last] {
                                            let back = d.model.history.iter().position(|s| *s == f2).map(|i| i < h1).unwrap_or(false);
                                            res.violations.push((if back { "reload_moved_back" } else { "reload_not_the_last_commit" }.into(), format!("a reload after everything finished shows {f2:?}; the last commit is {:?}", d.model.history[last])));
                                        }
                                    }
                                },
                            }
                        }
                    }
                }
            }
        }
    }
    // 2. the searcher held since before the reload is unchanged
    match fingerprint(&s0) {
        Ok(f) if f == f0 => {}
        Ok(f) => res.violations.push(("held_searcher_changed".into(), format!("the searcher taken before shows {f:?}, it showed {f0:?}"))),
        Err(e) => res.violations.push(("held_searcher_fails".into(), format!("the searcher taken before the action can no longer be read: {e}"))),
    }
    drop(s0);
    drop(reader);
    final_checks(&sim, &mut d, &mut res, log_from);
    res
}

fn merge_vs_restart(action: usize, point: Option<&Point>) -> RunResult {
    use Step::*;
    let mut res = RunResult::default();
    crate::presched::set_flush(None);
    let cfg = WlConfig { workers: 1, dedicated_compressor: false };
    let sim = SimDirectory::new();
    let mut d = Driver::new(sim.clone(), &cfg);
    if d.create_index().is_err() || d.open_writer().is_err() {
        res.violations.push(("machinery".into(), "setup failed".into()));
        return res;
    }
    if !steps_ok(&mut d, &[Add(1), Commit, Add(2), Commit], &mut res.violations, "setup") {
        return res;
    }
    let before = all_counts(&sim);
    let log_from = sim.log_len();
    let ids = d.index.as_ref().unwrap().searchable_segment_ids().unwrap_or_default();
    let drv = Arc::new(Mutex::new(d));
    let action_errors: Arc<Mutex<Vec<(String, String)>>> = Arc::new(Mutex::new(vec![]));
    let run_action = {
        let (drv, errs) = (drv.clone(), action_errors.clone());
        move || {
            let mut d = drv.lock().unwrap();
            let mut v = vec![];
            let steps: &[Step] = if action == 0 { &[DropWriter, NewWriter, Add(9), Commit] } else { &[Rollback, Add(9), CommitPayload] };
            steps_ok(&mut d, steps, &mut v, "writer restart / rollback during the merge");
            errs.lock().unwrap().extend(v);
        }
    };
    let pre = point.map(|p| Preempt::arm(&sim, &p.tid, p.idx, Box::new(run_action.clone())));
    let fut = {
        let mut d = drv.lock().unwrap();
        d.writer.as_mut().unwrap().merge(&ids)
    };
    let merge_result = fut.wait().map(|_| ()).map_err(|e| format!("{e:?}"));
    res.notes.push(format!("merge future: {merge_result:?}"));
    res.ranges = ranges_between(&before, &all_counts(&sim));
    let fired = match pre {
        Some(p) => {
            let o = p.finish();
            let f = o.fired;
            if let Some(m) = &o.action_panic {
                res.violations.push(("writer_action_panics".into(), m.clone()));
            }
            res.outcome = Some(o);
            f
        }
        None => false,
    };
    if !fired {
        run_action();
    }
    res.violations.extend(action_errors.lock().unwrap().drain(..));
    crate::hist::wait_merges_quiescent();
    let mut d = drv.lock().unwrap();
    // the commit made by the new writer must still be the published state once the old merge has ended
    match read_ids(&sim) {
        Ok(ids) if ids == d.model.committed => {}
        Ok(ids) => res.violations.push(("reload_moved_back".into(), format!("after the old writer's merge ended a fresh open shows {ids:?}; the last commit (by the new writer) is {:?}", d.model.committed))),
        Err(e) => res.violations.push(("final_index_unreadable".into(), e)),
    }
    final_checks(&sim, &mut d, &mut res, log_from);
    res
}

fn merge_vs_ops(action: usize, point: Option<&Point>, fault_mode: Option<usize>) -> RunResult {
    use Step::*;
    let mut res = RunResult::default();
    crate::presched::set_flush(None);
    let cfg = WlConfig { workers: 1, dedicated_compressor: false };
    let sim = SimDirectory::new();
    let mut d = Driver::new(sim.clone(), &cfg);
    if d.create_index().is_err() || d.open_writer().is_err() {
        res.violations.push(("machinery".into(), "setup failed".into()));
        return res;
    }
    if !steps_ok(&mut d, &[Add(1), Add(2), Commit, Add(3), Add(4), Commit], &mut res.violations, "setup") {
        return res;
    }
    let before = all_counts(&sim);
    let log_from = sim.log_len();
    let ids = d.index.as_ref().unwrap().searchable_segment_ids().unwrap_or_default();
    let steps = merge_actions()[action].clone();
    let drv = Arc::new(Mutex::new(d));
    let action_errors: Arc<Mutex<Vec<(String, String)>>> = Arc::new(Mutex::new(vec![]));
    // fault mode: once the action is over, the k-th further storage operation of the updater fails once
    let u_base: Arc<Mutex<Option<usize>>> = Arc::new(Mutex::new(None));
    let fault_k: Option<usize> = if fault_mode.is_some() { point.map(|p| p.idx) } else { None };
    let run_action = {
        let (drv, errs, steps, sim2, u_base) = (drv.clone(), action_errors.clone(), steps.clone(), sim.clone(), u_base.clone());
        move || {
            let mut d = drv.lock().unwrap();
            let mut v = vec![];
            steps_ok(&mut d, &steps, &mut v, "writer operations during the merge");
            errs.lock().unwrap().extend(v);
            let base = sim2.thread_op_counts().get("U").copied().unwrap_or(0);
            *u_base.lock().unwrap() = Some(base);
            if let Some(k) = fault_k {
                let fired = std::sync::atomic::AtomicBool::new(false);
                sim2.set_fault(Some(Arc::new(move |o: &crate::simdir::OpDesc| {
                    if o.tid == "U" && o.thread_index == base + k && !fired.swap(true, std::sync::atomic::Ordering::SeqCst) {
                        Some(crate::simdir::io_fault("updater operation after the action"))
                    } else {
                        None
                    }
                })));
            }
        }
    };
    let pre = match fault_mode {
        Some(m_idx) => Some(Preempt::arm(&sim, "M0", m_idx, Box::new(run_action.clone()))),
        None => point.map(|p| Preempt::arm(&sim, &p.tid, p.idx, Box::new(run_action.clone()))),
    };
    let fut = {
        let mut d = drv.lock().unwrap();
        d.writer.as_mut().unwrap().merge(&ids)
    };
    let merge_result = fut.wait().map(|_| ()).map_err(|e| format!("{e:?}"));
    res.notes.push(format!("merge future: {merge_result:?}"));
    crate::hist::wait_merges_quiescent();
    sim.set_fault(None);
    res.ranges = ranges_between(&before, &all_counts(&sim));
    if fault_mode.is_some() {
        // the fault positions: updater operations issued after the action ended
        let base = u_base.lock().unwrap().unwrap_or(0);
        let end = sim.thread_op_counts().get("U").copied().unwrap_or(base);
        res.ranges.clear();
        res.ranges.insert("Ufault".to_string(), (0, end.saturating_sub(base)));
    }
    let fired = match pre {
        Some(p) => {
            let o = p.finish();
            let f = o.fired;
            if let Some(m) = &o.action_panic {
                res.violations.push(("writer_action_panics".into(), m.clone()));
            }
            res.outcome = Some(o);
            f
        }
        None => false,
    };
    if !fired {
        run_action();
    }
    // the action thread has ended by now: a fault it armed late must not outlive the scenario
    sim.set_fault(None);
    res.violations.extend(action_errors.lock().unwrap().drain(..));
    crate::hist::wait_merges_quiescent();
    let mut d = drv.lock().unwrap();
    // whatever the merge did - published, reconciled or discarded - the published state is the last commit
    match read_ids(&sim) {
        Ok(ids) if ids == d.model.committed => {}
        Ok(ids) => res.violations.push(("content_differs_after_merge".into(), format!("once the merge preempted at {:?} ended (merge future: {merge_result:?}) a fresh open shows {ids:?}; the last commit holds {:?}", res.outcome.as_ref().map(|o| o.at_op.clone()), d.model.committed))),
        Err(e) => res.violations.push(("index_unreadable_after_merge".into(), e)),
    }
    // the uncommitted tail of the action becomes visible with the next commit, exactly
    if d.writer.is_some() && steps_ok(&mut d, &[Commit], &mut res.violations, "after the merge") {
        match read_ids(&sim) {
            Ok(ids) if ids == d.model.committed => {}
            Ok(ids) => res.violations.push(("content_differs_after_merge".into(), format!("after the merge preempted at {:?} and one more commit a fresh open shows {ids:?}; replaying the calls gives {:?}", res.outcome.as_ref().map(|o| o.at_op.clone()), d.model.committed))),
            Err(e) => res.violations.push(("index_unreadable_after_merge".into(), e)),
        }
    }
    // with an injected fault, the failed operation itself is in the log: only later failures count
    let log_from = if fault_mode.is_some() { sim.log_len() } else { log_from };
    final_checks(&sim, &mut d, &mut res, log_from);
    res
}

/// ordered pairs of merges over three segments sharing exactly one source
pub fn overlap_combos() -> Vec<([usize; 2], [usize; 2])> {
    let pairs: Vec<[usize; 2]> = vec![[0, 1], [1, 0], [0, 2], [2, 0], [1, 2], [2, 1]];
    let mut v = vec![];
    for a in &pairs {
        for b in &pairs {
            let shared = a.iter().filter(|x| b.contains(x)).count();
            if shared == 1 {
                v.push((*a, *b));
            }
        }
    }
    v
}

fn overlapping_merges(combo: usize, _point: Option<&Point>) -> RunResult {
    use Step::*;
    let mut res = RunResult::default();
    crate::presched::set_flush(None);
    let cfg = WlConfig { workers: 1, dedicated_compressor: false };
    let sim = SimDirectory::new();
    let mut d = Driver::new(sim.clone(), &cfg);
    if d.create_index().is_err() || d.open_writer().is_err() {
        res.violations.push(("machinery".into(), "setup failed".into()));
        return res;
    }
    if !steps_ok(&mut d, &[Add(1), Add(2), Commit, Add(3), Commit, Add(4), DelId(1), Commit], &mut res.violations, "setup") {
        return res;
    }
    let log_from = sim.log_len();
    let ids = d.index.as_ref().unwrap().searchable_segment_ids().unwrap_or_default();
    if ids.len() != 3 {
        res.violations.push(("machinery".into(), format!("expected 3 segments, got {}", ids.len())));
        return res;
    }
    let (a, b) = overlap_combos()[combo];
    let w = d.writer.as_mut().unwrap();
    // both merges are requested before either can end (one merge thread: the second starts from the segment
    // entries it captured when it was requested)
    let f1 = w.merge(&[ids[a[0]], ids[a[1]]]);
    let f2 = w.merge(&[ids[b[0]], ids[b[1]]]);
    let r1 = f1.wait().map(|m| m.map(|m| m.num_docs())).map_err(|e| format!("{e:?}"));
    let r2 = f2.wait().map(|m| m.map(|m| m.num_docs())).map_err(|e| format!("{e:?}"));
    res.notes.push(format!("merge futures: {r1:?} {r2:?}"));
    crate::hist::wait_merges_quiescent();
    match read_ids(&sim) {
        Ok(ids) if ids == d.model.committed => {}
        Ok(ids) => res.violations.push(("content_differs_after_merge".into(), format!("after merges of segments {a:?} and {b:?} (results {r1:?}, {r2:?}) a fresh open shows {ids:?}; the last commit holds {:?}", d.model.committed))),
        Err(e) => res.violations.push(("index_unreadable_after_merge".into(), format!("after merges of segments {a:?} and {b:?} (results {r1:?}, {r2:?}): {e}"))),
    }
    final_checks(&sim, &mut d, &mut res, log_from);
    res
}

fn commit_vs_merge_end(point: Option<&Point>) -> RunResult {
    use Step::*;
    let mut res = RunResult::default();
    crate::presched::set_flush(None);
    let cfg = WlConfig { workers: 1, dedicated_compressor: false };
    let sim = SimDirectory::new();
    let mut d = Driver::new(sim.clone(), &cfg);
    if d.create_index().is_err() || d.open_writer().is_err() {
        res.violations.push(("machinery".into(), "setup failed".into()));
        return res;
    }
    if !steps_ok(&mut d, &[Add(1), Add(2), CommitPayload, Add(3), Add(4), CommitPayload, DelId(1), Add(5)], &mut res.violations, "setup") {
        return res;
    }
    let before = all_counts(&sim);
    let log_from = sim.log_len();
    let ids = d.index.as_ref().unwrap().searchable_segment_ids().unwrap_or_default();
    // choreography: the merge thread waits in front of its first storage operation until the updater is parked
    // inside the commit; the updater then stays parked until the merge has asked for publication
    let u_parked = Arc::new(std::sync::atomic::AtomicBool::new(false));
    let fired = Arc::new(Mutex::new(None::<String>));
    if let Some(p) = point {
        let (u_parked, fired, p) = (u_parked.clone(), fired.clone(), p.clone());
        let ends0 = crate::presched::merge_ends();
        sim.set_gate(Some(Arc::new(move |o: &crate::simdir::OpDesc| {
            use std::sync::atomic::Ordering::SeqCst;
            let t0 = std::time::Instant::now();
            if o.tid.starts_with('M') {
                while !u_parked.load(SeqCst) && t0.elapsed() < std::time::Duration::from_millis(1500) {
                    std::thread::sleep(std::time::Duration::from_micros(200));
                }
            } else if o.tid == p.tid && o.thread_index == p.idx && fired.lock().unwrap().is_none() {
                *fired.lock().unwrap() = Some(format!("{}#{} {}({})", o.tid, o.thread_index, o.kind, o.path));
                u_parked.store(true, SeqCst);
                while crate::presched::merge_ends() == ends0 && t0.elapsed() < std::time::Duration::from_millis(1500) {
                    std::thread::sleep(std::time::Duration::from_micros(200));
                }
                // the merge thread is now between its last file and the publication request
                std::thread::sleep(std::time::Duration::from_millis(3));
            }
        })));
    }
    let fut = d.writer.as_mut().unwrap().merge(&ids);
    let ok = steps_ok(&mut d, &[CommitPayload], &mut res.violations, "commit while a merge ends");
    // never leave the merge thread waiting
    u_parked.store(true, std::sync::atomic::Ordering::SeqCst);
    let mr = fut.wait().map(|_| ()).map_err(|e| format!("{e:?}"));
    res.notes.push(format!("merge future: {mr:?}"));
    sim.set_gate(None);
    res.ranges = ranges_between(&before, &all_counts(&sim));
    let at = fired.lock().unwrap().clone();
    res.outcome = point.map(|_| Outcome { fired: at.is_some(), blocked_on_lock: false, timed_out: false, action_panic: None, at_op: at.clone().unwrap_or_default() });
    crate::hist::wait_merges_quiescent();
    if ok {
        match read_ids(&sim) {
            Ok(ids) if ids == d.model.committed => {}
            Ok(ids) => res.violations.push(("content_differs_after_merge".into(), format!("commit preempted at {at:?} until the merge asked for publication: a fresh open shows {ids:?}; the last commit holds {:?}", d.model.committed))),
            Err(e) => res.violations.push(("index_unreadable_after_merge".into(), e)),
        }
        final_checks(&sim, &mut d, &mut res, log_from);
    }
    res
}

fn wait_merging_vs_new_writer(point: Option<&Point>) -> RunResult {
    use Step::*;
    let mut res = RunResult::default();
    crate::presched::set_flush(None);
    let cfg = WlConfig { workers: 1, dedicated_compressor: false };
    let sim = SimDirectory::new();
    let mut d = Driver::new(sim.clone(), &cfg);
    if d.create_index().is_err() || d.open_writer().is_err() {
        res.violations.push(("machinery".into(), "setup failed".into()));
        return res;
    }
    if !steps_ok(&mut d, &[Add(1), Commit, Add(2), Commit], &mut res.violations, "setup") {
        return res;
    }
    let before = all_counts(&sim);
    let ids = d.index.as_ref().unwrap().searchable_segment_ids().unwrap_or_default();
    let attempt: Arc<Mutex<Option<Result<(), String>>>> = Arc::new(Mutex::new(None));
    let action = {
        let (sim, attempt) = (sim.clone(), attempt.clone());
        move || {
            let r = (|| {
                let index2 = Index::open(sim.clone()).map_err(|e| format!("open: {e:?}"))?;
                let w: tantivy::IndexWriter = index2.writer_with_options(writer_options(&WlConfig { workers: 1, dedicated_compressor: false })).map_err(|e| format!("{e:?}"))?;
                drop(w);
                Ok(())
            })();
            *attempt.lock().unwrap() = Some(r);
        }
    };
    let pre = point.map(|p| Preempt::arm(&sim, &p.tid, p.idx, Box::new(action)));
    let w = d.writer.take().unwrap();
    // the merge is started and the writer is consumed by wait_merging_threads while it runs
    let _fut = {
        let mut w = w;
        let f = w.merge(&ids);
        let r = w.wait_merging_threads();
        if let Err(e) = r {
            res.violations.push(("call_fails".into(), format!("wait_merging_threads: {e:?}")));
        }
        f
    };
    res.ranges = ranges_between(&before, &all_counts(&sim));
    if let Some(p) = pre {
        let o = p.finish();
        if o.fired {
            match attempt.lock().unwrap().clone() {
                Some(Ok(())) => res.violations.push((
                    "second_writer_during_wait_merging_threads".into(),
                    format!("while wait_merging_threads() was blocked on a merge parked at {:?}, a second writer could be created on another Index handle of the directory", o.at_op),
                )),
                Some(Err(e)) if !e.contains("LockBusy") && !e.contains("LockFailure") => res.violations.push(("refused_creation_not_a_lock_error".into(), format!("the refused creation reports {e}"))),
                _ => {}
            }
        }
        res.outcome = Some(o);
    }
    // afterwards the lock is free again
    match d.index.as_ref().unwrap().writer_with_options::<tantivy::TantivyDocument>(writer_options(&cfg)) {
        Ok(w) => drop(w),
        Err(e) => res.violations.push(("lock_not_released".into(), format!("after wait_merging_threads returned a new writer is refused: {e:?}"))),
    }
    res
}

fn producers(a: usize, b: usize, point: Option<&Point>) -> RunResult {
    use tantivy::indexer::UserOperation;
    let mut res = RunResult::default();
    crate::presched::set_flush(None);
    let pa = producer_programs()[a].clone();
    let pb = producer_programs_b()[b].clone();
    let sim = SimDirectory::new();
    let cfg = WlConfig { workers: 1, dedicated_compressor: false };
    let index = match Index::create(sim.clone(), schema(), settings(&cfg)) {
        Ok(i) => i,
        Err(e) => {
            res.violations.push(("machinery".into(), format!("{e:?}")));
            return res;
        }
    };
    let sch = schema();
    let (idf, bodyf) = (sch.get_field("id").unwrap(), sch.get_field("body").unwrap());
    let mk = move |id: u64, k: &str| {
        let mut d = tantivy::TantivyDocument::default();
        d.add_u64(idf, id);
        d.add_text(bodyf, format!("k{k} common"));
        d
    };
    let mut w: tantivy::IndexWriter = match index.writer_with_options(writer_options(&cfg)) {
        Ok(w) => w,
        Err(e) => {
            res.violations.push(("machinery".into(), format!("{e:?}")));
            return res;
        }
    };
    w.set_merge_policy(Box::new(tantivy::merge_policy::NoMergePolicy));
    // committed base: one x and one y document
    let _ = w.add_document(mk(1, "x"));
    let _ = w.add_document(mk(2, "y"));
    if let Err(e) = w.commit() {
        res.violations.push(("machinery".into(), format!("{e:?}")));
        return res;
    }
    let base: Vec<(u64, String)> = vec![(1, "x".into()), (2, "y".into())];
    let before = all_counts(&sim);
    let wref = Arc::new(w);
    let exec = {
        let mk = mk.clone();
        move |w: &tantivy::IndexWriter, op: &POp| -> Result<(), String> {
            match op {
                POp::Add(id, k) => w.add_document(mk(*id, k)).map(|_| ()).map_err(|e| format!("{e:?}")),
                POp::Del(k) => {
                    w.delete_term(tantivy::Term::from_field_text(bodyf, &format!("k{k}")));
                    Ok(())
                }
                POp::Batch(id, k, k2) => w
                    .run(vec![UserOperation::Add(mk(*id, k)), UserOperation::Delete(tantivy::Term::from_field_text(bodyf, &format!("k{k2}"))), UserOperation::Add(mk(*id + 1, k))])
                    .map(|_| ())
                    .map_err(|e| format!("{e:?}")),
            }
        }
    };
    let errors: Arc<Mutex<Vec<String>>> = Arc::new(Mutex::new(vec![]));
    let run_b = {
        let (w, pb, exec, errors) = (wref.clone(), pb.clone(), exec.clone(), errors.clone());
        move || {
            for op in &pb {
                if let Err(e) = exec(&w, op) {
                    errors.lock().unwrap().push(e);
                }
            }
        }
    };
    let pre = point.map(|p| Preempt::arm(&sim, &p.tid, p.idx, Box::new(run_b.clone())));
    // which operation of A was in flight when B ran
    let a_done = Arc::new(std::sync::atomic::AtomicUsize::new(0));
    let handle = {
        let (w, pa, exec, errors, a_done) = (wref.clone(), pa.clone(), exec.clone(), errors.clone(), a_done.clone());
        std::thread::Builder::new()
            .name("verif-producer-a".into())
            .spawn(move || {
                set_logical_tid("PA");
                for op in &pa {
                    if let Err(e) = exec(&w, op) {
                        errors.lock().unwrap().push(e);
                    }
                    a_done.fetch_add(1, std::sync::atomic::Ordering::SeqCst);
                }
            })
            .unwrap()
    };
    let _ = handle.join();
    res.ranges = ranges_between(&before, &all_counts(&sim));
    let mut b_after_all = true;
    let mut in_flight: Option<usize> = None;
    if let Some(p) = pre {
        let o = p.finish();
        if o.fired {
            b_after_all = false;
            // the k-th hook point of PA belongs to its k-th operation (one point per call)
            in_flight = point.map(|p| p.idx.saturating_sub(res.ranges.get("PA@").map(|r| r.0).unwrap_or(0)));
        }
        if let Some(m) = &o.action_panic {
            res.violations.push(("writer_action_panics".into(), m.clone()));
        }
        res.outcome = Some(o);
    }
    if b_after_all {
        run_b();
    }
    drop(run_b);
    for e in errors.lock().unwrap().drain(..) {
        res.violations.push(("call_fails".into(), e));
    }
    let mut w = match Arc::try_unwrap(wref) {
        Ok(w) => w,
        Err(_) => {
            res.violations.push(("machinery".into(), "writer still shared".into()));
            return res;
        }
    };
    if let Err(e) = w.commit() {
        res.violations.push(("call_fails".into(), format!("commit: {e:?}")));
        return res;
    }
    drop(w);
    // observed: (id, key) of the live documents
    let observed: Result<Vec<(u64, String)>, String> = (|| {
        let idx = Index::open(sim.clone()).map_err(|e| format!("{e:?}"))?;
        let reader: IndexReader = idx.reader_builder().reload_policy(ReloadPolicy::Manual).try_into().map_err(|e| format!("{e:?}"))?;
        let s = reader.searcher();
        let mut out = vec![];
        for key in ["x", "y"] {
            let q = tantivy::query::TermQuery::new(tantivy::Term::from_field_text(bodyf, &format!("k{key}")), tantivy::schema::IndexRecordOption::Basic);
            for addr in s.search(&q, &tantivy::collector::DocSetCollector).map_err(|e| format!("{e:?}"))? {
                let col = s.segment_reader(addr.segment_ord).fast_fields().u64("id").map_err(|e| format!("{e:?}"))?;
                out.push((col.first(addr.doc_id).unwrap_or(u64::MAX), key.to_string()));
            }
        }
        out.sort();
        Ok(out)
    })();
    let observed = match observed {
        Ok(o) => o,
        Err(e) => {
            res.violations.push(("final_index_unreadable".into(), e));
            return res;
        }
    };
    // admissible: every sequential order consistent with what overlapped. B's whole program ran while A's
    // operation `in_flight` was between stamping and enqueueing (or after all of A when nothing fired): A's
    // earlier operations precede B, its later ones follow B, the in-flight one may fall anywhere inside B.
    let mut admissible: Vec<Vec<(u64, String)>> = vec![];
    // when the action could not run to completion while A was parked (it needs a lock A holds at that point),
    // B's program overlapped the rest of A's: every interleaving of the two remainders is admissible
    let overlapped_rest = res.outcome.as_ref().map(|o| o.timed_out || o.blocked_on_lock).unwrap_or(false);
    fn interleavings(a: &[POp], b: &[POp]) -> Vec<Vec<POp>> {
        if a.is_empty() {
            return vec![b.to_vec()];
        }
        if b.is_empty() {
            return vec![a.to_vec()];
        }
        let mut out = vec![];
        for mut t in interleavings(&a[1..], b) {
            t.insert(0, a[0].clone());
            out.push(t);
        }
        for mut t in interleavings(a, &b[1..]) {
            t.insert(0, b[0].clone());
            out.push(t);
        }
        out
    }
    let orders: Vec<Vec<POp>> = match in_flight {
        None => vec![pa.iter().chain(pb.iter()).cloned().collect()],
        Some(k) if k < pa.len() && overlapped_rest => interleavings(&pa[k..], &pb)
            .into_iter()
            .map(|rest| {
                let mut v: Vec<POp> = pa[..k].to_vec();
                v.extend(rest);
                v
            })
            .collect(),
        Some(k) if k < pa.len() => (0..=pb.len())
            .map(|pos| {
                let mut v: Vec<POp> = pa[..k].to_vec();
                v.extend(pb[..pos].iter().cloned());
                v.push(pa[k].clone());
                v.extend(pb[pos..].iter().cloned());
                v.extend(pa[k + 1..].iter().cloned());
                v
            })
            .collect(),
        Some(_) => vec![pa.iter().chain(pb.iter()).cloned().collect()],
    };
    for o in &orders {
        let mut st = base.clone();
        for op in o {
            apply_pop(&mut st, op);
        }
        st.sort();
        admissible.push(st);
    }
    if !admissible.contains(&observed) {
        res.violations.push((
            "commit_not_a_sequential_order_of_concurrent_calls".into(),
            format!("producer A {pa:?} with operation #{in_flight:?} in flight (at {:?}) while producer B ran {pb:?}: after the commit the index holds {observed:?}; the sequential orders consistent with the overlap give {admissible:?}", res.outcome.as_ref().map(|o| o.at_op.clone())),
        ));
    }
    res
}

fn writer_vs_reload(point: Option<&Point>) -> RunResult {
    use Step::*;
    let mut res = RunResult::default();
    crate::presched::set_flush(None);
    let cfg = WlConfig { workers: 1, dedicated_compressor: false };
    let sim = SimDirectory::new();
    let mut d = Driver::new(sim.clone(), &cfg);
    if d.create_index().is_err() || d.open_writer().is_err() {
        res.violations.push(("machinery".into(), "setup failed".into()));
        return res;
    }
    if !steps_ok(&mut d, &[Add(1), Commit, Add(2), Commit], &mut res.violations, "setup") {
        return res;
    }
    let before = all_counts(&sim);
    let log_from = sim.log_len();
    let h0 = d.model.history.len() - 1;
    let seen: Arc<Mutex<Option<Result<BTreeSet<u64>, String>>>> = Arc::new(Mutex::new(None));
    let load = {
        let (sim, seen) = (sim.clone(), seen.clone());
        move || {
            let r = (|| {
                let index = Index::open(sim.clone()).map_err(|e| format!("Index::open: {e:?}"))?;
                let reader: IndexReader = index.reader_builder().reload_policy(ReloadPolicy::Manual).try_into().map_err(|e| format!("reader: {e:?}"))?;
                fingerprint(&reader.searcher())
            })();
            *seen.lock().unwrap() = Some(r);
        }
    };
    let pre = point.map(|p| Preempt::arm(&sim, &p.tid, p.idx, Box::new(load.clone())));
    let ok = steps_ok(&mut d, &[Add(3), DelId(1), Commit, Merge, DelId(2), Commit], &mut res.violations, "with a reader loading in between");
    res.ranges = ranges_between(&before, &all_counts(&sim));
    if let Some(p) = pre {
        let o = p.finish();
        if let Some(m) = &o.action_panic {
            res.violations.push(("reader_panics".into(), m.clone()));
        }
        res.outcome = Some(o);
    }
    if let Some(r) = seen.lock().unwrap().clone() {
        match r {
            Err(e) => {
                let rule = if e.contains("FileDoesNotExist") || e.contains("does not exist") { "reload_fails_file_missing" } else { "reload_fails" };
                res.violations.push((rule.into(), format!("a reader opened at {:?} failed: {e}", res.outcome.as_ref().map(|o| o.at_op.clone()))));
            }
            Ok(f) => {
                if !d.model.history.iter().skip(h0).any(|s| *s == f) && d.attempted.as_ref() != Some(&f) {
                    res.violations.push(("reload_not_a_commit".into(), format!("a reader opened at {:?} shows {f:?}; commits: {:?}", res.outcome.as_ref().map(|o| o.at_op.clone()), d.model.history)));
                }
            }
        }
    }
    if ok {
        final_checks(&sim, &mut d, &mut res, log_from);
    }
    res
}

/// the preemption points of a scenario: every operation of every eligible thread of its gated section
pub fn points(kind: &Kind, ranges: &BTreeMap<String, (usize, usize)>) -> Vec<Point> {
    let mut v = vec![];
    for (tid_full, (a, b)) in ranges {
        let tid = tid_full.trim_end_matches('@');
        let eligible = match kind {
            // the collection runs on the updater thread: requested in front of one of the updater's own
            // operations it waits (park limit) and runs right after the current task, with whatever it captured
            Kind::GcVsWriters { .. } | Kind::GcVsSortedWriters { .. } => tid != "P",
            Kind::ReloadVsWriter { .. } => tid == "R",
            Kind::MergeVsRestart { .. } | Kind::MergeVsOps { .. } => tid.starts_with('M') || tid == "U",
            Kind::OverlappingMerges { .. } => false,
            Kind::MergeVsOpsFault { .. } => tid == "Ufault",
            Kind::Producers { .. } => tid_full == "PA@",
            Kind::WaitMergingVsNewWriter => tid.starts_with('M'),
            Kind::CommitVsMergeEnd => tid == "U",
            Kind::WriterVsReload => tid != "P",
        };
        if !eligible {
            continue;
        }
        // one point past the end: never reached, the action then runs after the section (baseline)
        for idx in *a..*b {
            v.push(Point { tid: tid_full.clone(), idx });
        }
    }
    v
}
