//! C16 (conformance part): abstract queries generated from the documented grammar, printed to text in
//! several meaning-preserving styles, parsed by the real QueryParser and compared - through the set of
//! matching documents on a fixed corpus with distinct field contents - with a direct evaluation.
use std::collections::BTreeSet;
use std::panic::{catch_unwind, AssertUnwindSafe};

use serde::{Deserialize, Serialize};
use serde_json::json;
use tantivy::collector::DocSetCollector;
use tantivy::query::QueryParser;
use tantivy::schema::*;
use tantivy::{Index, IndexWriter, TantivyDocument};

use crate::common::*;

/// the 13th text holds a word longer than 40 bytes between "a" and "b": the default analyzer drops it at indexing
/// and at query time but keeps its position, so a phrase across it must keep the gap
pub const LONG_WORD: &str = "xxxxxxxxxxxxxxxxxxxxxxxxxxxxxxxxxxxxxxxxx";
pub const TEXTS: [&str; 13] = ["a", "b", "a b", "b a", "a a b", "", "c", "a c", "b c a", "c c", "b b", "a b a", "a xxxxxxxxxxxxxxxxxxxxxxxxxxxxxxxxxxxxxxxxx b"];
const BASE_DATE: i64 = 1_000_000_000;

#[derive(Clone, Debug)]
pub struct CDoc {
    pub a: Vec<String>,
    pub t: Vec<String>,
    pub n: Option<u64>,
    pub i: i64,
    pub f: f64,
    pub d: i64,
    pub o: bool,
    pub c: &'static str,
    pub s: String,
    pub k: u64,
}

pub fn corpus() -> Vec<CDoc> {
    (0..TEXTS.len())
        .map(|i| CDoc {
            a: TEXTS[i].split_whitespace().map(|x| x.to_string()).collect(),
            t: TEXTS[(i + 5) % TEXTS.len()].split_whitespace().map(|x| x.to_string()).collect(),
            n: if i % 4 == 3 { None } else { Some((i % 3) as u64) },
            i: i as i64 - 2,
            f: i as f64 * 0.5,
            d: BASE_DATE + i as i64 * 3600,
            o: i % 2 == 0,
            c: if i % 2 == 0 { "/x/y" } else { "/x/z" },
            s: if i == 3 { "x:y".to_string() } else { format!("w{i}") },
            k: (i % 3) as u64,
        })
        .collect()
}

pub fn build() -> (Index, Field) {
    let mut sb = Schema::builder();
    let a = sb.add_text_field("a", TEXT | STORED);
    let t = sb.add_text_field("t", TEXT);
    let n = sb.add_u64_field("n", INDEXED | FAST);
    let i = sb.add_i64_field("i", INDEXED | FAST);
    let f = sb.add_f64_field("f", INDEXED | FAST);
    let d = sb.add_date_field("d", INDEXED | FAST);
    let o = sb.add_bool_field("o", INDEXED | FAST);
    let c = sb.add_facet_field("c", FacetOptions::default());
    let s = sb.add_text_field("s", STRING | FAST);
    let j = sb.add_json_field("j", TEXT | FAST);
    let id = sb.add_u64_field("id", INDEXED | FAST | STORED);
    let index = Index::create_in_ram(sb.build());
    let mut w: IndexWriter = index.writer_with_num_threads(1, 20_000_000).unwrap();
    for (k, doc) in corpus().iter().enumerate() {
        let mut td = TantivyDocument::default();
        td.add_u64(id, k as u64);
        td.add_text(a, doc.a.join(" "));
        td.add_text(t, doc.t.join(" "));
        if let Some(v) = doc.n {
            td.add_u64(n, v);
        }
        td.add_i64(i, doc.i);
        td.add_f64(f, doc.f);
        td.add_date(d, tantivy::DateTime::from_timestamp_secs(doc.d));
        td.add_bool(o, doc.o);
        td.add_facet(c, Facet::from(doc.c));
        td.add_text(s, &doc.s);
        let obj: std::collections::BTreeMap<String, OwnedValue> = serde_json::from_value(json!({"k": doc.k, "w": doc.a.join(" ")})).unwrap();
        td.add_object(j, obj);
        w.add_document(td).unwrap();
        if k == 4 {
            w.commit().unwrap();
        }
    }
    w.commit().unwrap();
    (index, a)
}

#[derive(Clone, Copy, Debug, PartialEq, Eq, Serialize, Deserialize)]
pub enum Tv {
    No,
    Yes,
    Maybe,
}
fn tv(b: bool) -> Tv {
    if b {
        Tv::Yes
    } else {
        Tv::No
    }
}
fn and(a: Tv, b: Tv) -> Tv {
    match (a, b) {
        (Tv::No, _) | (_, Tv::No) => Tv::No,
        (Tv::Yes, Tv::Yes) => Tv::Yes,
        _ => Tv::Maybe,
    }
}
fn not(a: Tv) -> Tv {
    match a {
        Tv::No => Tv::Yes,
        Tv::Yes => Tv::No,
        Tv::Maybe => Tv::Maybe,
    }
}
fn or(a: Tv, b: Tv) -> Tv {
    not(and(not(a), not(b)))
}

/// abstract query
#[derive(Clone, Debug, PartialEq, Serialize, Deserialize)]
pub enum Aq {
    /// word on field "a" (None = default field) or "t"
    Word(Option<String>, String),
    Phrase(Option<String>, Vec<String>, u32, bool),
    /// numeric range on n: (lower inclusive?, lower), (upper inclusive?, upper); printed form chosen by `style`
    RangeN(Option<(bool, u64)>, Option<(bool, u64)>, u8),
    InSet(String, Vec<String>),
    ExistsN,
    /// typed literal: (text form, predicate id)
    Typed(String, u8),
    All,
    Boost(Box<Aq>, u32),
    /// field:(x y ..): the members are unscoped words / phrases / boosted ones
    Group(String, Vec<Aq>),
    And(Vec<Aq>),
    Or(Vec<Aq>),
    /// juxtaposition with occur markers: (0 none, 1 '+', 2 '-')
    Seq(Vec<(u8, Aq)>),
    /// a negated operand inside And / Or (printed "NOT x" or "-x" depending on style)
    Neg(Box<Aq>, bool),
}

fn words_of<'a>(d: &'a CDoc, field: &Option<String>) -> &'a Vec<String> {
    match field.as_deref() {
        Some("t") => &d.t,
        _ => &d.a,
    }
}

fn phrase_tv(tokens: &[String], words: &[String], slop: u32, prefix: bool) -> Tv {
    let n = words.len();
    let exact = (0..tokens.len()).any(|s| {
        s + n <= tokens.len()
            // a word the analyzer drops (LONG_WORD) leaves a position gap: any token may stand there
            && (0..n).all(|i| if prefix && i == n - 1 { tokens[s + i].starts_with(words[i].as_str()) } else { tokens[s + i] == words[i] || words[i] == LONG_WORD })
    });
    if exact {
        return Tv::Yes;
    }
    if slop == 0 || prefix {
        return Tv::No;
    }
    // sloppy: in-order alignment within the slop must match; any alignment within the slop may
    let pos: Vec<Vec<i64>> = words.iter().map(|w| tokens.iter().enumerate().filter(|(_, x)| *x == w).map(|(i, _)| i as i64).collect()).collect();
    if pos.iter().any(|p| p.is_empty()) {
        return Tv::No;
    }
    let mut best_any = i64::MAX;
    let mut best_in = i64::MAX;
    let mut idx = vec![0usize; n];
    loop {
        let ps: Vec<i64> = (0..n).map(|i| pos[i][idx[i]]).collect();
        let ds: Vec<i64> = ps.iter().enumerate().map(|(i, p)| p - i as i64).collect();
        let spread = ds.iter().max().unwrap() - ds.iter().min().unwrap();
        best_any = best_any.min(spread);
        if ps.windows(2).all(|w| w[0] < w[1]) {
            best_in = best_in.min(spread);
        }
        let mut k = 0;
        while k < n {
            idx[k] += 1;
            if idx[k] < pos[k].len() {
                break;
            }
            idx[k] = 0;
            k += 1;
        }
        if k == n {
            break;
        }
    }
    if best_in <= slop as i64 {
        Tv::Yes
    } else if best_any <= slop as i64 {
        Tv::Maybe
    } else {
        Tv::No
    }
}

pub const TYPED: [(&str, u8); 9] = [
    ("i:-1", 0),
    ("f:0.5", 1),
    ("o:true", 2),
    ("c:/x/y", 3),
    ("s:x\\:y", 4),
    ("j.k:1", 5),
    ("d:\"2001-09-09T03:46:40Z\"", 6),
    ("i:[-2 TO 0]", 7),
    ("s:w7", 8),
];

fn typed_pred(id: u8, d: &CDoc) -> bool {
    match id {
        0 => d.i == -1,
        1 => d.f == 0.5,
        2 => d.o,
        3 => d.c == "/x/y",
        4 => d.s == "x:y",
        5 => d.k == 1,
        6 => d.d == BASE_DATE + 2 * 3600,
        7 => d.i >= -2 && d.i <= 0,
        _ => d.s == "w7",
    }
}

pub fn eval(q: &Aq, d: &CDoc, conj: bool, scope: &Option<String>) -> Tv {
    match q {
        Aq::Word(f, w) => {
            let f = if f.is_some() { f.clone() } else { scope.clone() };
            tv(words_of(d, &f).contains(w))
        }
        Aq::Phrase(f, ws, slop, prefix) => {
            let f = if f.is_some() { f.clone() } else { scope.clone() };
            phrase_tv(words_of(d, &f), ws, *slop, *prefix)
        }
        Aq::RangeN(lo, hi, _) => match d.n {
            None => Tv::No,
            Some(v) => tv(lo.map(|(inc, b)| if inc { v >= b } else { v > b }).unwrap_or(true) && hi.map(|(inc, b)| if inc { v <= b } else { v < b }).unwrap_or(true)),
        },
        Aq::InSet(f, ws) => {
            let toks = words_of(d, &Some(f.clone()));
            tv(ws.iter().any(|w| toks.contains(w)))
        }
        Aq::ExistsN => tv(d.n.is_some()),
        Aq::Typed(_, id) => tv(typed_pred(*id, d)),
        Aq::All => Tv::Yes,
        Aq::Boost(q, _) => eval(q, d, conj, scope),
        Aq::Group(f, members) => {
            let sc = Some(f.clone());
            let mut acc = if conj { Tv::Yes } else { Tv::No };
            for m in members {
                let v = eval(m, d, conj, &sc);
                acc = if conj { and(acc, v) } else { or(acc, v) };
            }
            acc
        }
        Aq::And(xs) => xs.iter().fold(Tv::Yes, |acc, x| and(acc, eval(x, d, conj, scope))),
        Aq::Or(xs) => xs.iter().fold(Tv::No, |acc, x| or(acc, eval(x, d, conj, scope))),
        Aq::Neg(x, _) => not(eval(x, d, conj, scope)),
        Aq::Seq(items) => {
            // '+' must, '-' must not, unmarked: should (disjunction mode) / must (conjunction mode)
            let mut musts = Tv::Yes;
            let mut any_must = false;
            let mut shoulds = Tv::No;
            let mut any_should = false;
            let mut nots = Tv::Yes;
            for (m, x) in items {
                let v = eval(x, d, conj, scope);
                match (m, conj) {
                    (1, _) | (0, true) => {
                        musts = and(musts, v);
                        any_must = true;
                    }
                    (2, _) => nots = and(nots, not(v)),
                    _ => {
                        shoulds = or(shoulds, v);
                        any_should = true;
                    }
                }
            }
            let pos = if any_must {
                musts
            } else if any_should {
                shoulds
            } else {
                Tv::No
            };
            and(pos, nots)
        }
    }
}

/// print an abstract query; style bits: 1 = extra whitespace, 2 = redundant parentheses around leaves
pub fn print(q: &Aq, style: u8) -> String {
    let sp = if style & 1 != 0 { "  " } else { " " };
    let leafwrap = |s: String| if style & 2 != 0 { format!("({s})") } else { s };
    match q {
        Aq::Word(f, w) => leafwrap(match f {
            Some(f) => format!("{f}:{w}"),
            None => w.clone(),
        }),
        Aq::Phrase(f, ws, slop, prefix) => {
            let mut s = format!("\"{}\"", ws.join(" "));
            if *slop > 0 {
                s.push_str(&format!("~{slop}"));
            }
            if *prefix {
                s.push('*');
            }
            leafwrap(match f {
                Some(f) => format!("{f}:{s}"),
                None => s,
            })
        }
        Aq::RangeN(lo, hi, form) => leafwrap(match (form, lo, hi) {
            (1, Some((true, b)), None) => format!("n:>={b}"),
            (1, Some((false, b)), None) => format!("n:>{b}"),
            (1, None, Some((true, b))) => format!("n:<={b}"),
            (1, None, Some((false, b))) => format!("n:<{b}"),
            _ => {
                let l = match lo {
                    Some((true, b)) => format!("[{b}"),
                    Some((false, b)) => format!("{{{b}"),
                    None => "{*".to_string(),
                };
                let h = match hi {
                    Some((true, b)) => format!("{b}]"),
                    Some((false, b)) => format!("{b}}}"),
                    None => "*}".to_string(),
                };
                format!("n:{l}{sp}TO{sp}{h}")
            }
        }),
        Aq::InSet(f, ws) => leafwrap(format!("{f}:{sp}IN{sp}[{}]", ws.join(sp))),
        Aq::ExistsN => leafwrap("n:*".to_string()),
        Aq::Typed(text, _) => leafwrap(text.clone()),
        Aq::All => "*".to_string(),
        Aq::Boost(q, b) => match **q {
            // the comparison forms (n:>=1) read the rest of the word as the bound: boost them through parentheses
            Aq::RangeN(_, _, 1) => format!("({})^{b}", print(q, style & 1)),
            Aq::Word(..) | Aq::Phrase(..) | Aq::Typed(..) | Aq::RangeN(..) if style & 2 == 0 => format!("{}^{b}", print(q, style)),
            _ => format!("({})^{b}", print(q, style & 1)),
        },
        Aq::Group(f, ms) => format!("{f}:({})", ms.iter().map(|m| print(m, style & 1)).collect::<Vec<_>>().join(sp)),
        Aq::And(xs) => xs.iter().map(|x| sub(x, style, true)).collect::<Vec<_>>().join(&format!("{sp}AND{sp}")),
        Aq::Or(xs) => xs.iter().map(|x| sub(x, style, false)).collect::<Vec<_>>().join(&format!("{sp}OR{sp}")),
        Aq::Neg(x, word_form) => {
            if *word_form {
                format!("NOT {}", sub(x, style, true))
            } else {
                format!("-{}", sub(x, style, true))
            }
        }
        Aq::Seq(items) => items
            .iter()
            .map(|(m, x)| format!("{}{}", ["", "+", "-"][*m as usize], sub(x, style, true)))
            .collect::<Vec<_>>()
            .join(sp),
    }
}

/// operand of a binary operator / sequence: parenthesised when it is itself compound and the precedence requires it
fn sub(x: &Aq, style: u8, tight: bool) -> String {
    match x {
        Aq::Or(_) | Aq::Seq(_) => format!("({})", print(x, style)),
        Aq::And(_) if !tight => print(x, style),
        Aq::And(_) => format!("({})", print(x, style)),
        _ => print(x, style),
    }
}

fn w(s: &str) -> Aq {
    Aq::Word(None, s.to_string())
}
fn tw(s: &str) -> Aq {
    Aq::Word(Some("t".into()), s.to_string())
}

pub fn leaves() -> Vec<Aq> {
    let mut v = vec![
        w("a"),
        w("b"),
        w("c"),
        tw("a"),
        tw("c"),
        Aq::Phrase(None, vec!["a".into(), "b".into()], 0, false),
        Aq::Phrase(None, vec!["b".into(), "a".into()], 1, false),
        Aq::Phrase(None, vec!["a".into(), "b".into()], 0, true),
        // a phrase across a word the analyzer drops (longer than 40 bytes): the position gap must be kept
        Aq::Phrase(None, vec!["a".into(), LONG_WORD.into(), "b".into()], 0, false),
        Aq::Phrase(Some("t".into()), vec!["b".into(), "c".into()], 0, false),
        Aq::RangeN(Some((true, 1)), Some((true, 2)), 0),
        Aq::RangeN(Some((false, 0)), None, 0),
        Aq::RangeN(Some((true, 0)), Some((false, 2)), 0),
        Aq::RangeN(Some((true, 1)), None, 1),
        Aq::RangeN(None, Some((false, 2)), 1),
        Aq::RangeN(None, Some((true, 0)), 1),
        Aq::RangeN(Some((false, 1)), None, 1),
        Aq::InSet("t".into(), vec!["a".into(), "c".into()]),
        Aq::InSet("a".into(), vec!["b".into()]),
        // `field:*` (exists) is parsed by the grammar but QueryParser answers UnsupportedQuery, and NOT is not
        // part of the documented QueryParser language (a nested all-negative clause matches nothing): neither
        // is demanded here.
        Aq::All,
        Aq::Boost(Box::new(w("a")), 2),
        Aq::Boost(Box::new(tw("b")), 3),
        Aq::Group("t".into(), vec![w("a"), w("c")]),
        Aq::Group("t".into(), vec![Aq::Boost(Box::new(w("a")), 2), w("c")]),
        Aq::Group("t".into(), vec![w("b"), Aq::Boost(Box::new(Aq::Phrase(None, vec!["b".into(), "c".into()], 0, false)), 2)]),
    ];
    for (text, id) in TYPED {
        v.push(Aq::Typed(text.to_string(), id));
    }
    v
}

pub fn compounds(depth2: bool) -> Vec<Aq> {
    let r: Vec<Aq> = vec![w("a"), w("b"), tw("c"), Aq::Phrase(None, vec!["a".into(), "b".into()], 0, false), Aq::RangeN(Some((true, 1)), None, 1), Aq::Typed("o:true".into(), 2)];
    let mut v = vec![];
    for x in &r {
        for y in &r {
            if x == y {
                continue;
            }
            v.push(Aq::Seq(vec![(0, x.clone()), (0, y.clone())]));
            v.push(Aq::And(vec![x.clone(), y.clone()]));
            v.push(Aq::Or(vec![x.clone(), y.clone()]));
            v.push(Aq::Seq(vec![(1, x.clone()), (0, y.clone())]));
            v.push(Aq::Seq(vec![(1, x.clone()), (2, y.clone())]));
            v.push(Aq::Seq(vec![(0, x.clone()), (2, y.clone())]));
            v.push(Aq::And(vec![x.clone(), Aq::Neg(Box::new(y.clone()), false)]));
            v.push(Aq::Seq(vec![(0, Aq::Boost(Box::new(x.clone()), 2)), (0, y.clone())]));
            v.push(Aq::Boost(Box::new(Aq::Or(vec![x.clone(), y.clone()])), 2));
        }
    }
    let r3: Vec<Aq> = vec![w("a"), w("b"), tw("c"), Aq::RangeN(Some((true, 1)), None, 1)];
    for x in &r3 {
        for y in &r3 {
            for z in &r3 {
                if x == y || y == z || x == z {
                    continue;
                }
                v.push(Aq::Or(vec![Aq::And(vec![x.clone(), y.clone()]), z.clone()]));
                v.push(Aq::Or(vec![x.clone(), Aq::And(vec![y.clone(), z.clone()])]));
                v.push(Aq::Or(vec![x.clone(), Aq::And(vec![Aq::Neg(Box::new(y.clone()), false), z.clone()])]));
                v.push(Aq::And(vec![Aq::Or(vec![x.clone(), y.clone()]), z.clone()]));
                v.push(Aq::And(vec![x.clone(), Aq::Or(vec![y.clone(), z.clone()])]));
                v.push(Aq::Seq(vec![(0, x.clone()), (0, y.clone()), (0, z.clone())]));
                v.push(Aq::Seq(vec![(1, x.clone()), (1, y.clone()), (0, z.clone())]));
                v.push(Aq::Seq(vec![(1, x.clone()), (2, y.clone()), (0, z.clone())]));
                v.push(Aq::Seq(vec![(0, Aq::Group("t".into(), vec![Aq::Boost(Box::new(w("a")), 2), w("b")])), (0, z.clone())]));
                // a parenthesised group mixing occur markers, as an optional / required / excluded member of a sequence
                for inner in [vec![(0u8, x.clone()), (2u8, y.clone())], vec![(1, x.clone()), (0, y.clone())], vec![(1, x.clone()), (2, y.clone())]] {
                    v.push(Aq::Seq(vec![(0, Aq::Seq(inner.clone())), (0, z.clone())]));
                    v.push(Aq::Seq(vec![(0, z.clone()), (0, Aq::Seq(inner.clone()))]));
                    v.push(Aq::Seq(vec![(1, Aq::Seq(inner.clone())), (0, z.clone())]));
                    v.push(Aq::Seq(vec![(2, Aq::Seq(inner.clone())), (0, z.clone())]));
                }
                if depth2 {
                    v.push(Aq::And(vec![Aq::Or(vec![x.clone(), y.clone()]), Aq::Or(vec![y.clone(), z.clone()])]));
                    v.push(Aq::Seq(vec![(1, Aq::Or(vec![x.clone(), y.clone()])), (2, Aq::And(vec![y.clone(), z.clone()]))]));
                    v.push(Aq::Or(vec![Aq::And(vec![x.clone(), y.clone()]), Aq::And(vec![y.clone(), z.clone()]), x.clone()]));
                    v.push(Aq::Boost(Box::new(Aq::Seq(vec![(1, x.clone()), (0, Aq::Or(vec![y.clone(), z.clone()]))])), 2));
                }
            }
        }
    }
    v
}

pub struct Env {
    searcher: tantivy::Searcher,
    parsers: [QueryParser; 2],
    docs: Vec<CDoc>,
}

pub fn env() -> Env {
    let (index, a) = build();
    let p = QueryParser::for_index(&index, vec![a]);
    let mut pc = QueryParser::for_index(&index, vec![a]);
    pc.set_conjunction_by_default();
    Env { searcher: index.reader().unwrap().searcher(), parsers: [p, pc], docs: corpus() }
}

pub fn check(env: &Env, q: &Aq, style: u8, conj: bool) -> Option<(String, String)> {
    let text = print(q, style);
    let yes: BTreeSet<u64> = env.docs.iter().enumerate().filter(|(_, d)| eval(q, d, conj, &None) == Tv::Yes).map(|(i, _)| i as u64).collect();
    let maybe: BTreeSet<u64> = env.docs.iter().enumerate().filter(|(_, d)| eval(q, d, conj, &None) == Tv::Maybe).map(|(i, _)| i as u64).collect();
    let parser = &env.parsers[conj as usize];
    let r = catch_unwind(AssertUnwindSafe(|| parser.parse_query(&text)));
    let parsed = match r {
        Err(e) => return Some(("conformance_parse_panic".into(), format!("parse_query({text:?}) panicked: {}", panic_message(e)))),
        Ok(Err(e)) => return Some(("conformance_well_formed_query_rejected".into(), format!("parse_query({text:?}) = Err({e:?})"))),
        Ok(Ok(q)) => q,
    };
    let got = match catch_unwind(AssertUnwindSafe(|| env.searcher.search(&parsed, &DocSetCollector))) {
        Ok(Ok(g)) => g,
        Ok(Err(e)) => return Some(("conformance_search_error".into(), format!("{text:?}: {e:?}"))),
        Err(_) => return None, // a search panic is not a parser matter (C03 / C13)
    };
    let ids: BTreeSet<u64> = got
        .into_iter()
        .map(|a| env.searcher.segment_reader(a.segment_ord).fast_fields().u64("id").unwrap().first(a.doc_id).unwrap())
        .collect();
    let missing: Vec<&u64> = yes.difference(&ids).collect();
    let extra: Vec<&u64> = ids.iter().filter(|i| !yes.contains(i) && !maybe.contains(i)).collect();
    if !missing.is_empty() || !extra.is_empty() {
        return Some((
            "conformance_wrong_documents".into(),
            format!("{text:?} ({} mode) matches documents {ids:?}, the documented grammar prescribes {yes:?}{}", if conj { "conjunction" } else { "disjunction" }, if maybe.is_empty() { String::new() } else { format!(" (+optional {maybe:?})") }),
        ));
    }
    None
}

/// the single literal a parse yields, if it is exactly one unquoted literal on field `s`
fn single_literal(ast: &tantivy_query_grammar::UserInputAst) -> Option<String> {
    use tantivy_query_grammar::{UserInputAst, UserInputLeaf};
    match ast {
        UserInputAst::Leaf(l) => match &**l {
            UserInputLeaf::Literal(lit) if lit.field_name.as_deref() == Some("s") && lit.slop == 0 && !lit.prefix => Some(lit.phrase.clone()),
            _ => None,
        },
        UserInputAst::Clause(v) if v.len() == 1 && v[0].0.is_none() => single_literal(&v[0].1),
        _ => None,
    }
}

/// Escapes: a character that can never stand unescaped inside a word (at the start, in the middle and at the
/// end the bare spelling does not parse to the one literal containing it) is written with a backslash in
/// front of it; that spelling parses, in both parsers and at every place, to exactly the literal - the
/// backslash is consumed. (Characters that are special only at some places, like a leading '-' or '<', are
/// left out: the grammar's documentation does not say how their escapes read.)
pub fn check_escapes(st: &mut Stats) -> Vec<Violation> {
    let mut out = vec![];
    let mut chars: Vec<char> = (0x20u8..0x7f).map(|b| b as char).filter(|c| !c.is_ascii_alphanumeric()).collect();
    chars.extend(['\t', '\u{a0}', '\u{3000}', 'é']);
    for c in chars {
        let places = [("", "a"), ("a", "a"), ("a", ""), ("ab", "cd")];
        let bare_ok_somewhere = places.iter().any(|(pre, post)| {
            let word = format!("{pre}{c}{post}");
            let bare = format!("s:{word}");
            catch_unwind(AssertUnwindSafe(|| tantivy_query_grammar::parse_query(&bare).ok().and_then(|a| single_literal(&a)))).unwrap_or(None).as_deref() == Some(word.as_str())
        });
        if bare_ok_somewhere {
            st.count("escape_not_needed");
            continue;
        }
        for (pos, (pre, post)) in places.iter().enumerate() {
            let word = format!("{pre}{c}{post}");
            let bare = format!("s:{word}");
            let escaped = format!("s:{pre}\\{c}{post}");
            st.eval();
            st.count("escape_cases");
            st.nontrivial(&("escape", c, pos));
            let strict = catch_unwind(AssertUnwindSafe(|| tantivy_query_grammar::parse_query(&escaped).ok().and_then(|a| single_literal(&a))));
            let lenient = catch_unwind(AssertUnwindSafe(|| {
                let (a, errs) = tantivy_query_grammar::parse_query_lenient(&escaped);
                if errs.is_empty() { single_literal(&a) } else { None }
            }));
            for (name, got) in [("strict", strict), ("lenient", lenient)] {
                let got = got.unwrap_or(None);
                if got.as_deref() != Some(word.as_str()) {
                    out.push(Violation::new(
                        "escape_does_not_yield_literal",
                        format!("{name} parser: {bare:?} does not parse to the literal {word:?} (the character needs escaping there), and the escaped spelling {escaped:?} parses to {got:?} instead of the literal {word:?}"),
                        json!({"kind":"escape","char":c.to_string(),"pos":pos}),
                    ));
                    break;
                }
            }
        }
    }
    out
}

pub fn run_family(ctx: &Ctx, thorough: bool) -> (Stats, bool) {
    let mut qs = leaves();
    qs.extend(compounds(thorough));
    let nq = qs.len();
    let (st, done) = par_for(ctx, nq, |i, st| {
        thread_local! { static ENV: Env = env(); }
        ENV.with(|env| {
            let q = &qs[i];
            for style in 0..4u8 {
                for conj in [false, true] {
                    st.eval();
                    st.count("conformance_cases");
                    let m = env.docs.iter().filter(|d| eval(q, d, conj, &None) == Tv::Yes).count();
                    if m > 0 && m < env.docs.len() {
                        st.nontrivial(&("conf", i, style, conj));
                    }
                    if let Some((rule, what)) = check(env, q, style, conj) {
                        st.violation(Violation::new(&rule, what, json!({"kind":"conformance","query":q,"style":style,"conj":conj})));
                    }
                }
            }
            if i % 97 == 0 {
                st.sample(json!({"kind":"conformance","text":print(q, 0),"styles":4,"modes":2}));
            }
        });
    });
    let mut st = st;
    for v in check_escapes(&mut st) {
        st.violation(v);
    }
    (st, done == nq)
}

pub fn replay(case: &serde_json::Value) -> Vec<Violation> {
    if case["kind"] == "escape" {
        let mut st = Stats::default();
        return check_escapes(&mut st).into_iter().filter(|v| v.case["char"] == case["char"] && v.case["pos"] == case["pos"]).collect();
    }
    let Ok(q) = serde_json::from_value::<Aq>(case["query"].clone()) else { return vec![] };
    let env = env();
    check(&env, &q, case["style"].as_u64().unwrap_or(0) as u8, case["conj"].as_bool().unwrap_or(false))
        .map(|(r, w)| Violation::new(&r, w, case.clone()))
        .into_iter()
        .collect()
}
