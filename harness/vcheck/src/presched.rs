//! E-PREEMPT: single-preemption exploration at storage-operation granularity.
//!
//! A scenario is run once per preemption point (logical thread T, k-th storage operation of T). When T reaches
//! that operation SimDirectory's gate parks it and an action (a collection, a commit, a merge, a writer
//! restart ...) runs to completion on another thread - or until it blocks on a directory lock that T holds,
//! which SimDirectory reports through the lock-retry hook - then T resumes. Enumerating every point of every
//! thread of the fault-free run covers all schedules with one preemption of T by the action at the seam where
//! the two interact: the shared directory.
use std::sync::{Arc, Condvar, Mutex};
use std::time::{Duration, Instant};

use crate::simdir::{set_logical_tid, OpDesc, SimDirectory};

#[derive(Default, Debug, Clone)]
pub struct Outcome {
    pub fired: bool,
    /// the action could not finish while T was parked: it blocked on a directory lock held by T
    pub blocked_on_lock: bool,
    /// neither finished nor reported a lock within the park limit (blocked on an in-memory lock held by T)
    pub timed_out: bool,
    pub action_panic: Option<String>,
    /// description of the operation T was parked at
    pub at_op: String,
}

#[derive(Default)]
struct PState {
    fired: bool,
    done: bool,
    blocked: bool,
    timed_out: bool,
    panic: Option<String>,
    at_op: String,
    handle: Option<std::thread::JoinHandle<()>>,
}

type Action = Box<dyn FnOnce() + Send>;

struct PInner {
    target: String,
    at: usize,
    action: Mutex<Option<Action>>,
    st: Mutex<PState>,
    cv: Condvar,
    /// T is released when the action has made no storage operation for this long (it is blocked on an
    /// in-memory lock that T holds); an action that keeps making progress is waited for (up to a hard cap),
    /// so that a loaded machine does not change which schedule is explored
    park_limit: Duration,
    sim: SimDirectory,
}

static ACTIVE: Mutex<Option<Arc<PInner>>> = Mutex::new(None);

/// called by the verification handler whenever a blocking lock acquisition finds the lock busy
pub fn on_lock_busy() {
    let a = ACTIVE.lock().unwrap().clone();
    if let Some(p) = a {
        let mut s = p.st.lock().unwrap();
        if s.fired && !s.done {
            s.blocked = true;
            p.cv.notify_all();
        }
    }
}

pub struct Preempt {
    inner: Arc<PInner>,
    sim: SimDirectory,
}

type GateFn = Arc<dyn Fn(&OpDesc) + Send + Sync>;
/// gate for the named in-memory hook points of /repo (`verif_hooks::point`): they are preemption points too;
/// the k-th point reached by logical thread T is addressed as thread "T@", index k
static POINT_GATE: Mutex<Option<GateFn>> = Mutex::new(None);
static POINT_COUNTS: Mutex<std::collections::BTreeMap<String, usize>> = Mutex::new(std::collections::BTreeMap::new());

pub fn reset_points() {
    POINT_COUNTS.lock().unwrap().clear();
}

/// hook points reached so far per logical thread (keys carry the "@" suffix)
pub fn point_counts() -> std::collections::BTreeMap<String, usize> {
    POINT_COUNTS.lock().unwrap().clone()
}

fn at_point(name: &'static str) {
    let tid = format!("{}@", crate::simdir::current_tid());
    let idx = {
        let mut c = POINT_COUNTS.lock().unwrap();
        let e = c.entry(tid.clone()).or_insert(0);
        let v = *e;
        *e += 1;
        v
    };
    let g = POINT_GATE.lock().unwrap().clone();
    if let Some(g) = g {
        g(&OpDesc { tid, kind: "point", path: name.to_string(), global_index: 0, thread_index: idx });
    }
}

impl Preempt {
    /// arms the gate: the `at`-th storage operation (per-thread index as counted by SimDirectory) of thread
    /// `target` is preceded by `action`
    pub fn arm(sim: &SimDirectory, target: &str, at: usize, action: Action) -> Preempt {
        let inner = Arc::new(PInner { target: target.to_string(), at, action: Mutex::new(Some(action)), st: Mutex::new(PState::default()), cv: Condvar::new(), park_limit: Duration::from_millis(300), sim: sim.clone() });
        *ACTIVE.lock().unwrap() = Some(inner.clone());
        let g = inner.clone();
        let f: GateFn = Arc::new(move |d: &OpDesc| gate(&g, d));
        sim.set_gate(Some(f.clone()));
        *POINT_GATE.lock().unwrap() = Some(f);
        Preempt { inner, sim: sim.clone() }
    }

    /// waits for the action (if it was started), removes the gate
    pub fn finish(self) -> Outcome {
        self.sim.set_gate(None);
        *POINT_GATE.lock().unwrap() = None;
        let h = self.inner.st.lock().unwrap().handle.take();
        if let Some(h) = h {
            let _ = h.join();
        }
        *ACTIVE.lock().unwrap() = None;
        let s = self.inner.st.lock().unwrap();
        Outcome { fired: s.fired, blocked_on_lock: s.blocked, timed_out: s.timed_out, action_panic: s.panic.clone(), at_op: s.at_op.clone() }
    }
}

fn gate(p: &Arc<PInner>, d: &OpDesc) {
    if d.tid != p.target || d.thread_index != p.at {
        return;
    }
    let Some(action) = p.action.lock().unwrap().take() else { return };
    {
        let mut s = p.st.lock().unwrap();
        s.fired = true;
        s.at_op = format!("{}#{} {}({})", d.tid, d.thread_index, d.kind, d.path);
    }
    let p2 = p.clone();
    let h = std::thread::Builder::new()
        .name("verif-action".into())
        .spawn(move || {
            set_logical_tid("P");
            let r = std::panic::catch_unwind(std::panic::AssertUnwindSafe(action));
            let mut s = p2.st.lock().unwrap();
            if let Err(e) = r {
                s.panic = Some(crate::common::panic_message(e));
            }
            s.done = true;
            p2.cv.notify_all();
        })
        .expect("spawn action thread");
    let t0 = Instant::now();
    let mut last_progress = Instant::now();
    let mut last_ops = p.sim.op_count();
    let mut s = p.st.lock().unwrap();
    s.handle = Some(h);
    while !s.done && !s.blocked {
        let ops = p.sim.op_count();
        if ops != last_ops {
            last_ops = ops;
            last_progress = Instant::now();
        }
        if last_progress.elapsed() >= p.park_limit || t0.elapsed() >= Duration::from_secs(5) {
            s.timed_out = true;
            break;
        }
        s = p.cv.wait_timeout(s, Duration::from_millis(20)).unwrap().0;
    }
}

/// Verification handler of the preemption scenarios: short lock retries that report the busy lock, and the
/// history engine's counters.
pub struct PreemptHandler;

static MERGE_ENDS: std::sync::atomic::AtomicU64 = std::sync::atomic::AtomicU64::new(0);

/// number of times a merge thread reached the point where it asks the updater to publish its result
pub fn merge_ends() -> u64 {
    MERGE_ENDS.load(std::sync::atomic::Ordering::SeqCst)
}

static FLUSH: std::sync::atomic::AtomicU32 = std::sync::atomic::AtomicU32::new(0);

/// segment cut after n documents (0 / None = off) for the scenarios
pub fn set_flush(n: Option<u32>) {
    FLUSH.store(n.unwrap_or(0), std::sync::atomic::Ordering::SeqCst);
}

impl tantivy::verif_hooks::VerifHandler for PreemptHandler {
    fn flush_after_docs(&self) -> Option<u32> {
        match FLUSH.load(std::sync::atomic::Ordering::SeqCst) {
            0 => None,
            n => Some(n),
        }
    }
    fn lock_retry_sleep(&self, _d: Duration) -> Duration {
        on_lock_busy();
        Duration::from_millis(2)
    }
    fn point(&self, name: &'static str) {
        use std::sync::atomic::Ordering::SeqCst;
        at_point(name);
        match name {
            "merge:scheduled" => {
                crate::hist::MERGES_SCHEDULED.fetch_add(1, SeqCst);
            }
            "merge:done" => {
                crate::hist::MERGES_DONE.fetch_add(1, SeqCst);
            }
            "merge:end" => {
                MERGE_ENDS.fetch_add(1, SeqCst);
            }
            _ => {}
        }
    }
}

pub fn install_handler() {
    tantivy::verif_hooks::set_handler(Some(Arc::new(PreemptHandler)));
}
