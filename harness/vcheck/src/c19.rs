//! C19 - tokens and snippets always point inside the text, on character boundaries.
//! Bounded-exhaustive enumeration of texts over a 17(+3)-symbol alphabet x analyzers x snippet params.
use std::collections::BTreeMap;
use std::panic::{catch_unwind, AssertUnwindSafe};

use serde_json::{json, Value};
use tantivy::schema::Field;
use tantivy::snippet::{collapse_overlapped_ranges, SnippetGenerator};
use tantivy::tokenizer::*;

use crate::common::*;

pub const ALPHABET: [&str; 17] = [
    "a", "B", " ", "\t", "1", "-", "/", "\u{e9}", "\u{df}", "\u{130}", "\u{1c5}", "\u{4e2d}",
    "\u{1f600}", "\u{301}", "\u{200d}", "\u{3000}", "\u{fb03}",
];
/// extra symbols used only by the snippet family (html-special) and the facet family (separator)
pub const SNIPPET_EXTRA: [&str; 3] = ["<", "&", "b"];

const TOKENIZERS: [&str; 17] = [
    "simple", "whitespace", "raw", "regex", "facet", "ngram:1:1:0", "ngram:1:2:0", "ngram:1:3:0",
    "ngram:2:2:0", "ngram:2:3:0", "ngram:3:3:0", "ngram:1:1:1", "ngram:1:2:1", "ngram:1:3:1",
    "ngram:2:2:1", "ngram:2:3:1", "ngram:3:3:1",
];
const FILTERS: [&str; 7] = [
    "lower", "ascii", "remove_long3", "alphanum", "stop", "stem", "compound",
];

fn is_rewriting(f: &str) -> bool {
    matches!(f, "lower" | "ascii" | "stem" | "compound")
}

pub fn build_analyzer(tok: &str, filters: &[String]) -> TextAnalyzer {
    let mut b = if tok == "simple" {
        TextAnalyzer::builder(SimpleTokenizer::default()).dynamic()
    } else if tok == "whitespace" {
        TextAnalyzer::builder(WhitespaceTokenizer::default()).dynamic()
    } else if tok == "raw" {
        TextAnalyzer::builder(RawTokenizer::default()).dynamic()
    } else if tok == "regex" {
        TextAnalyzer::builder(RegexTokenizer::new(r"\w+").unwrap()).dynamic()
    } else if tok == "facet" {
        TextAnalyzer::builder(FacetTokenizer::default()).dynamic()
    } else if let Some(rest) = tok.strip_prefix("ngram:") {
        let p: Vec<usize> = rest.split(':').map(|x| x.parse().unwrap()).collect();
        TextAnalyzer::builder(NgramTokenizer::new(p[0], p[1], p[2] == 1).unwrap()).dynamic()
    } else {
        panic!("unknown tokenizer {tok}");
    };
    for f in filters {
        b = match f.as_str() {
            "lower" => b.filter_dynamic(LowerCaser),
            "ascii" => b.filter_dynamic(AsciiFoldingFilter),
            "remove_long3" => b.filter_dynamic(RemoveLongFilter::limit(3)),
            "alphanum" => b.filter_dynamic(AlphaNumOnlyFilter),
            "stop" => b.filter_dynamic(StopWordFilter::remove(vec![
                "a".to_string(),
                "ab".to_string(),
                "1".to_string(),
            ])),
            "stem" => b.filter_dynamic(Stemmer::new(Language::English)),
            "compound" => b.filter_dynamic(
                SplitCompoundWords::from_dictionary(["a", "B", "1", "\u{e9}"]).unwrap(),
            ),
            _ => panic!("unknown filter {f}"),
        };
    }
    b.build()
}

fn text_of(idx: &[usize], extra: bool) -> String {
    let mut s = String::new();
    for &i in idx {
        if i < ALPHABET.len() {
            s.push_str(ALPHABET[i]);
        } else if extra {
            s.push_str(SNIPPET_EXTRA[i - ALPHABET.len()]);
        }
    }
    s
}

/// all index vectors of length 0..=l over n symbols, shortest first
fn texts_upto(n: usize, l: usize) -> Vec<Vec<usize>> {
    let mut out: Vec<Vec<usize>> = vec![vec![]];
    let mut frontier: Vec<Vec<usize>> = vec![vec![]];
    for _ in 0..l {
        let mut next = vec![];
        for t in &frontier {
            for s in 0..n {
                let mut u = t.clone();
                u.push(s);
                next.push(u);
            }
        }
        out.extend(next.iter().cloned());
        frontier = next;
    }
    out
}

pub fn check_tokens(text: &str, tok: &str, filters: &[String]) -> Option<Violation> {
    let case = json!({"kind":"tokens","text":text,"tokenizer":tok,"filters":filters});
    let rewriting = filters.iter().any(|f| is_rewriting(f)) || tok == "facet";
    let r = catch_unwind(AssertUnwindSafe(|| {
        let mut an = build_analyzer(tok, filters);
        let mut ts = an.token_stream(text);
        let mut toks: Vec<Token> = vec![];
        let mut guard = 0usize;
        while ts.advance() {
            toks.push(ts.token().clone());
            guard += 1;
            if guard > 4 * (text.len() + 2) * (text.len() + 2) + 64 {
                return Err("token stream does not terminate".to_string());
            }
        }
        Ok(toks)
    }));
    let toks = match r {
        Err(e) => {
            return Some(Violation::new(
                "tokenizer_panic",
                format!("analyzer {tok}+{filters:?} panicked on {text:?}: {}", panic_message(e)),
                case,
            ))
        }
        Ok(Err(m)) => return Some(Violation::new("tokenizer_nontermination", m, case)),
        Ok(Ok(t)) => t,
    };
    let mut last_pos: Option<usize> = None;
    for t in &toks {
        if !(t.offset_from <= t.offset_to && t.offset_to <= text.len()) {
            return Some(Violation::new(
                "token_offsets_out_of_text",
                format!("{tok}+{filters:?} on {text:?}: token {t:?} outside text of len {}", text.len()),
                case,
            ));
        }
        if !text.is_char_boundary(t.offset_from) || !text.is_char_boundary(t.offset_to) {
            return Some(Violation::new(
                "token_offsets_not_on_char_boundary",
                format!("{tok}+{filters:?} on {text:?}: token {t:?}"),
                case,
            ));
        }
        if let Some(lp) = last_pos {
            if t.position < lp {
                return Some(Violation::new(
                    "token_position_decreases",
                    format!("{tok}+{filters:?} on {text:?}: position {} after {}", t.position, lp),
                    case,
                ));
            }
        }
        last_pos = Some(t.position);
        if !rewriting && t.text != text[t.offset_from..t.offset_to] {
            return Some(Violation::new(
                "token_text_differs_from_slice",
                format!(
                    "{tok}+{filters:?} on {text:?}: token text {:?} != slice {:?}",
                    t.text,
                    &text[t.offset_from..t.offset_to]
                ),
                case,
            ));
        }
        if tok == "facet" && filters.is_empty() && !text.starts_with(t.text.as_str()) {
            return Some(Violation::new(
                "facet_token_not_a_prefix",
                format!("facet on {text:?}: token {:?}", t.text),
                case,
            ));
        }
    }
    None
}

fn html_unescape_and_ranges(html: &str) -> Result<(String, Vec<(usize, usize)>), String> {
    // tags are exactly <b> and </b>; everything else must be escaped
    let mut out = String::new();
    let mut ranges = vec![];
    let mut open: Option<usize> = None;
    let mut i = 0;
    let b = html.as_bytes();
    while i < b.len() {
        if html[i..].starts_with("<b>") {
            if open.is_some() {
                return Err("nested <b>".into());
            }
            open = Some(out.len());
            i += 3;
        } else if html[i..].starts_with("</b>") {
            let Some(s) = open.take() else {
                return Err("</b> without <b>".into());
            };
            ranges.push((s, out.len()));
            i += 4;
        } else if b[i] == b'<' || b[i] == b'>' {
            return Err(format!("raw {:?} at {i}", b[i] as char));
        } else if b[i] == b'&' {
            let end = html[i..].find(';').ok_or("unterminated entity")? + i;
            let ent = &html[i + 1..end];
            let c = match ent {
                "quot" => '"',
                "amp" => '&',
                "lt" => '<',
                "gt" => '>',
                "apos" => '\'',
                _ => {
                    if let Some(h) = ent.strip_prefix("#x") {
                        char::from_u32(u32::from_str_radix(h, 16).map_err(|e| e.to_string())?)
                            .ok_or("bad codepoint")?
                    } else if let Some(d) = ent.strip_prefix('#') {
                        char::from_u32(d.parse::<u32>().map_err(|e| e.to_string())?)
                            .ok_or("bad codepoint")?
                    } else {
                        return Err(format!("raw & / unknown entity &{ent};"));
                    }
                }
            };
            out.push(c);
            i = end + 1;
        } else {
            let ch = html[i..].chars().next().unwrap();
            out.push(ch);
            i += ch.len_utf8();
        }
    }
    if open.is_some() {
        return Err("unclosed <b>".into());
    }
    Ok((out, ranges))
}

pub fn check_snippet(
    text: &str,
    terms: &[String],
    max_num_chars: usize,
    tok: &str,
    filters: &[String],
) -> Option<Violation> {
    let case = json!({"kind":"snippet","text":text,"terms":terms,"max_num_chars":max_num_chars,
        "tokenizer":tok,"filters":filters});
    let r = catch_unwind(AssertUnwindSafe(|| {
        let an = build_analyzer(tok, filters);
        let mut tm: BTreeMap<String, f32> = BTreeMap::new();
        for (i, t) in terms.iter().enumerate() {
            tm.insert(t.clone(), 1.0 / (1.0 + i as f32));
        }
        let gen = SnippetGenerator::new(tm, an, Field::from_field_id(0), max_num_chars);
        let sn = gen.snippet(text);
        let html = sn.to_html();
        (sn.fragment().to_string(), sn.highlighted().to_vec(), html)
    }));
    let (fragment, hl, html) = match r {
        Err(e) => {
            return Some(Violation::new(
                "snippet_panic",
                format!(
                    "snippet({text:?}, terms {terms:?}, max {max_num_chars}, {tok}+{filters:?}) panicked: {}",
                    panic_message(e)
                ),
                case,
            ))
        }
        Ok(x) => x,
    };
    let ctxs = format!("text {text:?} terms {terms:?} max {max_num_chars} {tok}+{filters:?}");
    if !text.contains(fragment.as_str()) {
        return Some(Violation::new(
            "snippet_fragment_not_substring",
            format!("{ctxs}: fragment {fragment:?}"),
            case,
        ));
    }
    for r in &hl {
        if !(r.start <= r.end && r.end <= fragment.len())
            || !fragment.is_char_boundary(r.start)
            || !fragment.is_char_boundary(r.end)
        {
            return Some(Violation::new(
                "snippet_highlight_outside_fragment_or_boundary",
                format!("{ctxs}: fragment {fragment:?} highlight {r:?}"),
                case,
            ));
        }
        // the covered text must analyse to a query term
        let covered = &fragment[r.clone()];
        let mut an = build_analyzer(tok, filters);
        let mut ts = an.token_stream(covered);
        let mut ok = false;
        while ts.advance() {
            if terms.contains(&ts.token().text.to_lowercase()) {
                ok = true;
            }
        }
        if !ok {
            return Some(Violation::new(
                "snippet_highlight_not_a_term",
                format!("{ctxs}: highlight {r:?} covers {covered:?} which does not analyse to a query term"),
                case,
            ));
        }
    }
    let collapsed = collapse_overlapped_ranges(&hl);
    for w in collapsed.windows(2) {
        if !(w[0].end <= w[1].start) {
            return Some(Violation::new(
                "snippet_highlights_not_sorted_disjoint",
                format!("{ctxs}: collapsed {collapsed:?}"),
                case,
            ));
        }
    }
    // html rendering
    match html_unescape_and_ranges(&html) {
        Err(m) => {
            return Some(Violation::new(
                "snippet_html_not_escaped",
                format!("{ctxs}: html {html:?}: {m}"),
                case,
            ))
        }
        Ok((plain, ranges)) => {
            let want: Vec<(usize, usize)> = collapsed.iter().map(|r| (r.start, r.end)).collect();
            if plain != fragment || ranges != want {
                return Some(Violation::new(
                    "snippet_html_differs_from_fragment",
                    format!("{ctxs}: html {html:?} decodes to {plain:?} {ranges:?}, fragment {fragment:?} {want:?}"),
                    case,
                ));
            }
        }
    }
    let nchars = fragment.chars().count();
    if nchars > max_num_chars {
        // narrow signature: the fragment is one single token (of the analyzer) longer than the limit
        let mut an = build_analyzer(tok, filters);
        let mut ts = an.token_stream(&fragment);
        let mut spans: Vec<(usize, usize)> = vec![];
        while ts.advance() {
            spans.push((ts.token().offset_from, ts.token().offset_to));
        }
        // the fragment is exactly the span of one token that is by itself longer than the limit
        // (search_fragments opens a new fragment at that token and adds it unconditionally)
        let single = spans.contains(&(0, fragment.len()));
        let rule = if single {
            "snippet_single_token_longer_than_max"
        } else {
            "snippet_fragment_longer_than_max"
        };
        return Some(Violation::new(
            rule,
            format!("{ctxs}: fragment {fragment:?} has {nchars} chars"),
            case,
        ));
    }
    None
}

fn collect_tokens(ts: &mut dyn TokenStream, limit: usize) -> Vec<(String, usize, usize, usize)> {
    let mut v = vec![];
    while v.len() < limit && ts.advance() {
        let t = ts.token();
        v.push((t.text.clone(), t.offset_from, t.offset_to, t.position));
    }
    v
}

/// reuse protocol: an analyzer whose previous stream was dropped after k tokens must tokenize the next text
/// exactly like a fresh analyzer (no state leaks from one stream into the next)
pub fn check_reuse(t1: &str, k: usize, t2: &str, tok: &str, filters: &[String]) -> Option<Violation> {
    let case = json!({"kind":"reuse","text":t1,"k":k,"text2":t2,"tokenizer":tok,"filters":filters});
    let r = catch_unwind(AssertUnwindSafe(|| {
        let mut an = build_analyzer(tok, filters);
        {
            let mut s1 = an.token_stream(t1);
            let _ = collect_tokens(&mut s1, k);
        }
        let got = {
            let mut s2 = an.token_stream(t2);
            collect_tokens(&mut s2, 1000)
        };
        let mut fresh = build_analyzer(tok, filters);
        let mut s = fresh.token_stream(t2);
        let want = collect_tokens(&mut s, 1000);
        (got, want)
    }));
    match r {
        Err(e) => Some(Violation::new("tokenizer_panic", format!("analyzer {tok}+{filters:?} reused after {k} tokens of {t1:?} panicked on {t2:?}: {}", panic_message(e)), case)),
        Ok((got, want)) if got != want => Some(Violation::new(
            "analyzer_reuse_leaks_state",
            format!("analyzer {tok}+{filters:?}: after a stream on {t1:?} dropped after {k} tokens, the stream on {t2:?} yields {got:?}; a fresh analyzer yields {want:?}"),
            case,
        )),
        _ => None,
    }
}

/// snippet_from_doc on documents holding zero, one (also empty) or several values for the field
pub fn check_snippet_from_doc(values: &[String], other_first: bool) -> Option<Violation> {
    use tantivy::schema::{Schema, STORED, TEXT};
    let case = json!({"kind":"snippet_doc","values":values,"other_first":other_first});
    let r = catch_unwind(AssertUnwindSafe(|| {
        let mut sb = Schema::builder();
        let title = sb.add_text_field("title", TEXT | STORED);
        let body = sb.add_text_field("body", TEXT | STORED);
        let _schema = sb.build();
        let mut doc = tantivy::TantivyDocument::default();
        if other_first {
            doc.add_text(title, "a B");
        }
        for v in values {
            doc.add_text(body, v);
        }
        if !other_first {
            doc.add_text(title, "a B");
        }
        let mut tm: BTreeMap<String, f32> = BTreeMap::new();
        tm.insert("a".to_string(), 1.0);
        let gen = SnippetGenerator::new(tm, build_analyzer("simple", &["lower".to_string()]), body, 20);
        let sn = gen.snippet_from_doc(&doc);
        let joined = values.join(" ");
        (sn.fragment().to_string(), sn.highlighted().to_vec(), joined, sn.to_html())
    }));
    match r {
        Err(e) => Some(Violation::new("snippet_panic", format!("snippet_from_doc on a document with body values {values:?} panicked: {}", panic_message(e)), case)),
        Ok((fragment, hl, joined, _html)) => {
            if !joined.contains(fragment.as_str()) {
                return Some(Violation::new("snippet_fragment_not_substring", format!("snippet_from_doc, body values {values:?}: fragment {fragment:?} is not part of the field's text"), case));
            }
            for r in &hl {
                if !(r.start <= r.end && r.end <= fragment.len()) || !fragment.is_char_boundary(r.start) || !fragment.is_char_boundary(r.end) {
                    return Some(Violation::new("snippet_highlight_outside_fragment_or_boundary", format!("snippet_from_doc, body values {values:?}: fragment {fragment:?} highlight {r:?}"), case));
                }
            }
            None
        }
    }
}

/// SnippetGenerator::create on a real index with two text fields: for every query made of one or two term
/// clauses over (field, word), every field and every document, each highlighted range of the field's snippet
/// covers a word that the query asks for *in that field* (a term aimed at the other field is not a query term
/// of this one), and the fragment is part of the field's text.
pub fn check_snippet_create(clauses: &[(usize, String)]) -> Option<Violation> {
    use tantivy::query::{BooleanQuery, Occur, Query, TermQuery};
    use tantivy::schema::{IndexRecordOption, Schema, Value as _, STORED, TEXT};
    let case = json!({"kind":"snippet_create","clauses":clauses});
    let r = catch_unwind(AssertUnwindSafe(|| -> Result<(), (String, String)> {
        let mut sb = Schema::builder();
        let title = sb.add_text_field("title", TEXT | STORED);
        let body = sb.add_text_field("body", TEXT | STORED);
        let index = tantivy::Index::create_in_ram(sb.build());
        let mut w: tantivy::IndexWriter = index.writer_with_num_threads(1, 15_000_000).unwrap();
        for (t, b) in [("a B", "b a c"), ("c", "a"), ("b b", "C c a")] {
            let mut d = tantivy::TantivyDocument::default();
            d.add_text(title, t);
            d.add_text(body, b);
            w.add_document(d).unwrap();
        }
        w.commit().unwrap();
        let searcher = index.reader().unwrap().searcher();
        let fields = [title, body];
        let q = BooleanQuery::new(clauses.iter().map(|(f, wd)| (Occur::Should, Box::new(TermQuery::new(tantivy::Term::from_field_text(fields[*f], wd), IndexRecordOption::Basic)) as Box<dyn Query>)).collect());
        for (fi, field) in fields.iter().enumerate() {
            let asked: Vec<&str> = clauses.iter().filter(|c| c.0 == fi).map(|c| c.1.as_str()).collect();
            let gen = SnippetGenerator::create(&searcher, &q, *field).map_err(|e| ("snippet_create_error".to_string(), format!("{e:?}")))?;
            for doc_id in 0..3u32 {
                let doc: tantivy::TantivyDocument = searcher.doc(tantivy::DocAddress::new(0, doc_id)).map_err(|e| ("machinery".to_string(), format!("{e:?}")))?;
                let text: String = doc.get_first(*field).and_then(|v| v.as_str()).unwrap_or("").to_string();
                let sn = gen.snippet_from_doc(&doc);
                let fragment = sn.fragment();
                if !text.contains(fragment) {
                    return Err(("snippet_fragment_not_substring".into(), format!("field {fi} doc {doc_id}: fragment {fragment:?} is not part of {text:?}")));
                }
                for r in sn.highlighted() {
                    if !(r.start <= r.end && r.end <= fragment.len()) || !fragment.is_char_boundary(r.start) || !fragment.is_char_boundary(r.end) {
                        return Err(("snippet_highlight_outside_fragment_or_boundary".into(), format!("field {fi} doc {doc_id}: fragment {fragment:?} highlight {r:?}")));
                    }
                    let word = fragment[r.clone()].to_lowercase();
                    if !asked.contains(&word.as_str()) {
                        return Err(("snippet_highlight_not_a_query_term".into(), format!("field {} of document {doc_id} ({text:?}): {word:?} is highlighted, but the query asks this field for {asked:?} only", ["title", "body"][fi])));
                    }
                }
            }
        }
        Ok(())
    }));
    match r {
        Err(e) => Some(Violation::new("snippet_panic", format!("SnippetGenerator::create / snippet_from_doc for clauses {clauses:?} panicked: {}", panic_message(e)), case)),
        Ok(Err((rule, what))) => Some(Violation::new(&rule, format!("query clauses (field, word) {clauses:?}: {what}"), case)),
        Ok(Ok(())) => None,
    }
}

pub fn replay(case: &Value) -> Vec<Violation> {
    if case["kind"] == "snippet_create" {
        let clauses: Vec<(usize, String)> = serde_json::from_value(case["clauses"].clone()).unwrap_or_default();
        return check_snippet_create(&clauses).into_iter().collect();
    }
    if case["kind"] == "snippet_doc" {
        let values: Vec<String> = serde_json::from_value(case["values"].clone()).unwrap_or_default();
        return check_snippet_from_doc(&values, case["other_first"].as_bool().unwrap_or(false)).into_iter().collect();
    }
    if case["kind"] == "reuse" {
        let filters: Vec<String> = serde_json::from_value(case["filters"].clone()).unwrap_or_default();
        return check_reuse(case["text"].as_str().unwrap_or(""), case["k"].as_u64().unwrap_or(0) as usize, case["text2"].as_str().unwrap_or(""), case["tokenizer"].as_str().unwrap_or("simple"), &filters).into_iter().collect();
    }
    let filters: Vec<String> = case["filters"]
        .as_array()
        .map(|a| a.iter().map(|x| x.as_str().unwrap().to_string()).collect())
        .unwrap_or_default();
    let tok = case["tokenizer"].as_str().unwrap_or("simple");
    let text = case["text"].as_str().unwrap_or("");
    let v = if case["kind"] == "snippet" {
        let terms: Vec<String> = case["terms"]
            .as_array()
            .map(|a| a.iter().map(|x| x.as_str().unwrap().to_string()).collect())
            .unwrap_or_default();
        check_snippet(text, &terms, case["max_num_chars"].as_u64().unwrap_or(0) as usize, tok, &filters)
    } else {
        check_tokens(text, tok, &filters)
    };
    v.into_iter().collect()
}

fn chains(maxlen: usize) -> Vec<Vec<String>> {
    let mut out: Vec<Vec<String>> = vec![vec![]];
    if maxlen >= 1 {
        for f in FILTERS {
            out.push(vec![f.to_string()]);
        }
    }
    if maxlen >= 2 {
        for f in FILTERS {
            for g in FILTERS {
                out.push(vec![f.to_string(), g.to_string()]);
            }
        }
    }
    out
}

pub fn run(ctx: &Ctx) -> Report {
    quiet_panics();
    let mut rep = Report::new("model_checking");
    let thorough = ctx.tier.is_thorough();
    // ---- family T: tokens. texts <= L over the 17-symbol alphabet x analyzers
    let (l_all, l_plain) = if thorough { (4, 5) } else { (3, 4) };
    let texts_all = texts_upto(ALPHABET.len(), l_all);
    let texts_plain = texts_upto(ALPHABET.len(), l_plain);
    let all_chains = chains(2);
    let plain_chains = chains(1);
    // work items: (tokenizer, chain, which text set)
    let mut items: Vec<(usize, Vec<String>, bool)> = vec![];
    for (ti, _) in TOKENIZERS.iter().enumerate() {
        for c in &plain_chains {
            items.push((ti, c.clone(), true));
        }
        for c in &all_chains {
            if c.len() == 2 {
                items.push((ti, c.clone(), false));
            }
        }
    }
    let (mut st, done) = par_for(ctx, items.len(), |i, st| {
        let (ti, chain, plain) = &items[i];
        let tok = TOKENIZERS[*ti];
        let texts = if *plain { &texts_plain } else { &texts_all };
        for (k, t) in texts.iter().enumerate() {
            let mut text = text_of(t, false);
            if tok == "facet" {
                // the facet tokenizer splits on the 0 byte: map tab to it for this tokenizer
                text = text.replace('\t', "\u{0}");
            }
            st.eval();
            if t.len() >= 2 {
                st.nontrivial(&(tok, chain, t));
            }
            if k == 4321 && i % 97 == 0 {
                st.sample(json!({"kind":"tokens","text":text,"tokenizer":tok,"filters":chain}));
            }
            if let Some(v) = check_tokens(&text, tok, chain) {
                st.violation(v);
            }
        }
    });
    let tokens_complete = done == items.len();
    rep.set("tokens.analyzers", items.len() as u64);
    rep.set("tokens.text_len_all_chains", l_all as u64);
    rep.set("tokens.text_len_chains_le1", l_plain as u64);

    let mut reuse_incomplete = false;
    // ---- family R: reuse protocol. every analyzer with <= 1 filter (and every 2-chain containing the compound
    // splitter on the word tokenizers) x every pair of texts of <= 2 symbols over a reduced alphabet x the first
    // stream dropped after 0, 1, 2 or all of its tokens
    {
        let small: Vec<String> = {
            let sym = ["a", "B", " ", "\u{e9}", "1", "-"];
            let mut v = vec![String::new()];
            for a in sym {
                v.push(a.to_string());
                for b in sym {
                    v.push(format!("{a}{b}"));
                    if thorough {
                        for c in sym {
                            v.push(format!("{a}{b}{c}"));
                        }
                    }
                }
            }
            v
        };
        let mut ritems: Vec<(usize, Vec<String>)> = vec![];
        for (ti, tok) in TOKENIZERS.iter().enumerate() {
            for c in &plain_chains {
                ritems.push((ti, c.clone()));
            }
            if *tok == "simple" || *tok == "whitespace" {
                for c in &all_chains {
                    if c.len() == 2 && c.iter().any(|f| f == "compound") {
                        ritems.push((ti, c.clone()));
                    }
                }
            }
        }
        let (rst, rdone) = par_for(ctx, ritems.len(), |i, st| {
            let (ti, chain) = &ritems[i];
            let tok = TOKENIZERS[*ti];
            'outer: for t1 in &small {
                for t2 in &small {
                    for k in [0usize, 1, 2, 1000] {
                        st.eval();
                        st.count("reuse_cases");
                        if k > 0 && !t1.is_empty() {
                            st.nontrivial(&("reuse", tok, chain, t1, t2, k));
                        }
                        if let Some(v) = check_reuse(t1, k, t2, tok, chain) {
                            st.violation(v);
                            break 'outer;
                        }
                    }
                }
            }
        });
        if rdone != ritems.len() {
            reuse_incomplete = true;
        }
        st.merge(rst);
    }
    // ---- family D: snippet_from_doc over documents with 0..2 values for the field
    for values in [vec![], vec![String::new()], vec!["a".to_string()], vec!["B a".to_string(), "a".to_string()], vec![String::new(), "a B".to_string()], vec!["\u{e9}".to_string()], vec![" ".to_string()]] {
        for other_first in [false, true] {
            st.eval();
            st.count("snippet_from_doc_cases");
            if let Some(v) = check_snippet_from_doc(&values, other_first) {
                st.violation(v);
            }
        }
    }

    // ---- family E: SnippetGenerator::create over a two-field index, every query of one or two term clauses
    {
        let atoms: Vec<(usize, String)> = (0..2usize).flat_map(|f| ["a", "b", "c", "zz"].iter().map(move |w| (f, w.to_string()))).collect();
        let mut queries: Vec<Vec<(usize, String)>> = atoms.iter().map(|a| vec![a.clone()]).collect();
        for i in 0..atoms.len() {
            for j in 0..atoms.len() {
                if i != j {
                    queries.push(vec![atoms[i].clone(), atoms[j].clone()]);
                }
            }
        }
        for q in &queries {
            st.eval();
            st.count("snippet_create_cases");
            st.nontrivial(&("snippet_create", q));
            if let Some(v) = check_snippet_create(q) {
                st.violation(v);
            }
        }
    }

    // ---- designated long texts
    let long_texts: Vec<String> = vec![
        "\u{e9}".repeat(500_000),
        "a ".repeat(100_000),
        "\u{130}".repeat(70_000),
    ];
    for (ti, tok) in TOKENIZERS.iter().enumerate() {
        if tok.starts_with("ngram") && ti % 3 != 0 {
            continue;
        }
        for lt in &long_texts {
            if tok.starts_with("ngram") && lt.len() > 300_000 {
                continue;
            }
            for chain in [vec![], vec!["lower".to_string()], vec!["ascii".to_string(), "stem".to_string()]] {
                st.eval();
                st.count("long_text");
                if let Some(mut v) = check_tokens(lt, tok, &chain) {
                    v.what.truncate(300);
                    st.violation(v);
                }
            }
        }
    }

    // ---- family S: snippets
    let ls = if thorough { 5 } else { 4 };
    let sn_alpha = ALPHABET.len() + SNIPPET_EXTRA.len();
    let sn_texts = texts_upto(sn_alpha, if thorough { 4 } else { 3 });
    let _ = ls;
    let term_sets: Vec<Vec<String>> = vec![
        vec!["a".into()],
        vec!["a".into(), "b".into()],
        vec!["ab".into()],
        vec!["\u{e9}".into(), "\u{4e2d}".into()],
        vec!["b".into(), "<".into(), "&".into()],
        vec![],
    ];
    let maxes = [0usize, 1, 2, 3, 5, 150];
    let sn_analyzers: Vec<(&str, Vec<String>)> = vec![
        ("simple", vec![]),
        ("simple", vec!["lower".into()]),
        ("whitespace", vec!["lower".into()]),
        ("raw", vec!["lower".into()]),
        ("ngram:1:2:0", vec![]),
        ("ngram:2:3:0", vec!["lower".into()]),
        ("simple", vec!["lower".into(), "compound".into()]),
        ("regex", vec!["ascii".into(), "lower".into()]),
    ];
    let mut sitems = vec![];
    for (ai, _) in sn_analyzers.iter().enumerate() {
        for (si, _) in term_sets.iter().enumerate() {
            for &m in &maxes {
                sitems.push((ai, si, m));
            }
        }
    }
    let (st2, done2) = par_for(ctx, sitems.len(), |i, st| {
        let (ai, si, m) = sitems[i];
        let (tok, chain) = &sn_analyzers[ai];
        for (k, t) in sn_texts.iter().enumerate() {
            let text = text_of(t, true);
            st.eval();
            if k == 777 && i % 31 == 0 {
                st.sample(json!({"kind":"snippet","text":text,"terms":term_sets[si],"max_num_chars":m,"tokenizer":tok,"filters":chain}));
            }
            let v = check_snippet(&text, &term_sets[si], m, tok, chain);
            // non-trivial: some term occurs in the text
            if term_sets[si].iter().any(|q| text.to_lowercase().contains(q.as_str())) {
                st.nontrivial(&(ai, si, m, t));
                st.count("snippet_with_hit");
            }
            if let Some(v) = v {
                st.violation(v);
            }
        }
    });
    st.merge(st2);
    let complete = tokens_complete && done2 == sitems.len();
    rep.set("exhaustive", complete && !reuse_incomplete);
    rep.set("snippet.text_len", if thorough { 4u64 } else { 3 });
    rep.set("snippet.configs", sitems.len() as u64);
    rep.set(
        "rule",
        "every text of length <= L over the 17-symbol alphabet (snippets: +3 html symbols) x every tokenizer x every filter chain of length <= 2 \
         (chains of length 2 at L-1); snippets: x 6 term sets x 6 max_num_chars x 8 analyzers. Non-trivial: text of >= 2 symbols (tokens) / text containing a query term (snippets); \
         distinct by (analyzer, text[, terms, max]). SnippetGenerator::create over a two-field index: every query of one or two term clauses over (field, word in {a,b,c,absent}) x both fields x 3 documents - highlights only cover words the query asks that field for.",
    );
    rep.set("states", st.nontrivial.len() as u64);
    rep.set("transitions", st.evaluations);
    rep.set("traces_validated_against_impl", st.evaluations);
    if st.counters.get("snippet_with_hit").copied().unwrap_or(0) == 0 {
        rep.machinery_errors.push("vacuous: no snippet case contained a query term".into());
    }
    rep.assume("token text equality with the slice is only demanded for chains without a rewriting filter (lower-caser, ascii folding, stemmer, compound splitter) and not for the facet tokenizer, whose tokens are path prefixes");
    rep.assume("highlight ranges are checked for disjointness after collapse_overlapped_ranges (n-gram tokens legitimately overlap)");
    rep.merge_stats(&st);
    rep.violations = st.violations;
    rep.machinery_errors.extend(st.errors);
    rep
}
