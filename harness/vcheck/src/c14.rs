//! C14 - aggregations equal a direct computation and do not depend on partitioning.
use std::collections::BTreeMap;
use std::panic::{catch_unwind, AssertUnwindSafe};

use serde_json::{json, Map, Value};
use tantivy::aggregation::agg_req::Aggregations;
use tantivy::aggregation::intermediate_agg_result::IntermediateAggregationResults;
use tantivy::aggregation::{AggContextParams, AggregationCollector, AggregationLimitsGuard, DistributedAggregationCollector};
use tantivy::query::{AllQuery, Query, TermQuery};
use tantivy::schema::*;
use tantivy::{Index, IndexWriter, TantivyDocument, Term};

use crate::common::*;

#[derive(Clone, Debug)]
pub struct ADoc {
    pub val: Vec<f64>,
    pub n: Vec<i64>,
    pub g: u64,
    pub k: Vec<&'static str>,
    pub txt: &'static str,
    pub date: Option<i64>,
}

pub fn alphabet() -> Vec<ADoc> {
    let day = 86_400i64;
    let base = 1_600_000_000i64 / day * day;
    vec![
        ADoc { val: vec![-1.5], n: vec![-2], g: 0, k: vec!["a"], txt: "x", date: Some(base) },
        ADoc { val: vec![0.0], n: vec![0], g: 1, k: vec!["b"], txt: "x y", date: Some(base + 3600) },
        ADoc { val: vec![2.5], n: vec![3], g: 0, k: vec!["a"], txt: "y", date: Some(base + day) },
        ADoc { val: vec![10.0], n: vec![10], g: 1, k: vec!["c"], txt: "x", date: Some(base + 2 * day + 7200) },
        ADoc { val: vec![], n: vec![], g: 0, k: vec!["b"], txt: "x", date: None },
        ADoc { val: vec![2.5], n: vec![3], g: 1, k: vec![], txt: "y", date: Some(base + day) },
        ADoc { val: vec![0.0, 0.0, 10.0], n: vec![1, 7], g: 0, k: vec!["a", "c"], txt: "x y", date: Some(base - day) },
        ADoc { val: vec![-1.5], n: vec![-2], g: 1, k: vec!["c"], txt: "y", date: Some(base + 3 * day) },
    ]
}

pub fn schema() -> Schema {
    let mut sb = Schema::builder();
    sb.add_u64_field("id", INDEXED | FAST | STORED);
    sb.add_f64_field("val", FAST | INDEXED);
    sb.add_i64_field("n", FAST | INDEXED);
    sb.add_u64_field("g", FAST | INDEXED);
    sb.add_text_field("k", STRING | FAST);
    sb.add_text_field("txt", TEXT);
    sb.add_date_field("date", FAST | INDEXED);
    sb.build()
}

/// one index holding `docs` (indexes into the alphabet) split into segments of the given sizes
pub fn build(docs: &[usize], segments: &[usize]) -> Index {
    build_over(&alphabet(), docs, segments)
}

/// a second, wider alphabet for the large-segment family: 64 documents, n = i - 20 (negative minimum: the
/// first histogram bucket is not bucket 0), val = n / 2, dates one day apart, three groups, five keys
pub fn wide_alphabet() -> Vec<ADoc> {
    let day = 86_400i64;
    let base = 1_600_000_000i64 / day * day;
    (0..64i64)
        .map(|i| ADoc {
            val: if i % 9 == 4 { vec![] } else { vec![(i - 20) as f64 * 0.5] },
            n: vec![i - 20],
            g: (i % 3) as u64,
            k: vec![["a", "b", "c", "d", "e"][(i % 5) as usize]],
            txt: ["x", "y", "x y"][(i % 3) as usize],
            date: if i % 11 == 7 { None } else { Some(base + (i - 20) * day + 3600) },
        })
        .collect()
}

/// document pattern of the large family: the first 320 documents cycle through the first 40 alphabet entries
/// (enough distinct buckets early for a histogram collector to switch to dense storage), later documents use
/// all 64 (buckets whose first document appears after the switch), every 97th is the extreme entry 63
pub fn large_docs(n: usize) -> Vec<usize> {
    (0..n).map(|i| if i < 320 { (i * 7) % 40 } else if i % 97 == 0 { 63 } else { (i * 11) % 64 }).collect()
}

pub fn build_over(alpha: &[ADoc], docs: &[usize], segments: &[usize]) -> Index {
    let schema = schema();
    let index = Index::create_in_ram(schema.clone());
    let f = |n: &str| schema.get_field(n).unwrap();
    let mut w: IndexWriter = index.writer_with_num_threads(1, 15_000_000).unwrap();
    w.set_merge_policy(Box::new(tantivy::merge_policy::NoMergePolicy));
    let mut k = 0;
    for &sz in segments {
        for _ in 0..sz {
            let a = &alpha[docs[k]];
            let mut d = TantivyDocument::default();
            d.add_u64(f("id"), k as u64);
            for v in &a.val {
                d.add_f64(f("val"), *v);
            }
            for v in &a.n {
                d.add_i64(f("n"), *v);
            }
            d.add_u64(f("g"), a.g);
            for v in &a.k {
                d.add_text(f("k"), v);
            }
            d.add_text(f("txt"), a.txt);
            if let Some(s) = a.date {
                d.add_date(f("date"), tantivy::DateTime::from_timestamp_secs(s));
            }
            w.add_document(d).unwrap();
            k += 1;
        }
        if sz > 0 {
            w.commit().unwrap();
        }
    }
    w.wait_merging_threads().unwrap();
    index
}

pub fn requests(thorough: bool) -> Vec<(String, Value)> {
    let mut v: Vec<(String, Value)> = vec![];
    let mut add = |name: &str, req: Value| v.push((name.to_string(), req));
    for field in ["val", "n"] {
        for m in ["value_count", "sum", "min", "max", "avg", "stats"] {
            add(&format!("{m}_{field}"), json!({"m": {m: {"field": field}}}));
            add(&format!("{m}_{field}_missing"), json!({"m": {m: {"field": field, "missing": 5.0}}}));
        }
        add(&format!("extstats_{field}"), json!({"m": {"extended_stats": {"field": field}}}));
        add(&format!("card_{field}"), json!({"m": {"cardinality": {"field": field}}}));
        add(&format!("pct_{field}"), json!({"pct_m": {"percentiles": {"field": field}}}));
    }
    add("card_k", json!({"m": {"cardinality": {"field": "k"}}}));
    // terms
    for (field, miss) in [("k", json!("zz")), ("n", json!(99)), ("g", json!(7))] {
        for order in [json!({"_count": "desc"}), json!({"_key": "asc"}), json!({"_key": "desc"})] {
            for mdc in [0, 1, 2] {
                if mdc == 0 && order.get("_count").is_none() {
                    continue;
                }
                add(&format!("terms_{field}_{order}_{mdc}"), json!({"t": {"terms": {"field": field, "size": 10, "segment_size": 10, "order": order, "min_doc_count": mdc}}}));
            }
            add(&format!("terms_{field}_{order}_missing"), json!({"t": {"terms": {"field": field, "size": 10, "segment_size": 10, "order": order, "missing": miss}}}));
        }
        // truncation by key order (exact whatever the partition: the best keys of the whole are among the best keys of every part)
        for size in [1, 2, 3] {
            for dir in ["asc", "desc"] {
                add(&format!("terms_{field}_key_{dir}_size{size}"), json!({"t": {"terms": {"field": field, "size": size, "segment_size": size, "order": {"_key": dir}}}}));
            }
        }
        add(&format!("terms_{field}_sub"), json!({"t": {"terms": {"field": field, "size": 10, "segment_size": 10, "order": {"_key": "asc"}}, "aggs": {"s": {"sum": {"field": "val"}}, "c": {"value_count": {"field": "n"}}}}}));
        add(&format!("terms_{field}_by_sub"), json!({"t": {"terms": {"field": field, "size": 10, "segment_size": 10, "order": {"s": "desc"}}, "aggs": {"s": {"max": {"field": "n"}}}}}));
    }
    // range
    // (integer bounds on the integer field: a fractional bound on an i64 column is truncated; overlapping
    // ranges are rejected by the implementation)
    for (field, mid) in [("val", 2.5), ("n", 3.0)] {
        add(&format!("range_{field}"), json!({"r": {"range": {"field": field, "ranges": [{"to": 0.0}, {"from": 0.0, "to": mid}, {"from": mid}]}}}));
        add(&format!("range_{field}_keyed"), json!({"r": {"range": {"field": field, "ranges": [{"from": -2.0, "to": 0.0}, {"from": mid, "to": 10.0}, {"from": 10.0, "to": 11.0}], "keyed": true}}}));
        add(&format!("range_{field}_sub"), json!({"r": {"range": {"field": field, "ranges": [{"to": mid}, {"from": mid}]}, "aggs": {"a": {"avg": {"field": "val"}}, "t": {"terms": {"field": "k", "size": 10, "segment_size": 10, "order": {"_key": "asc"}}}}}}));
    }
    // histogram
    for field in ["val", "n"] {
        for interval in [1.0, 2.5, 10.0] {
            for offset in [0.0, 0.5] {
                for mdc in [0, 1] {
                    add(&format!("hist_{field}_{interval}_{offset}_{mdc}"), json!({"h": {"histogram": {"field": field, "interval": interval, "offset": offset, "min_doc_count": mdc}}}));
                }
            }
        }
        add(&format!("hist_{field}_hard"), json!({"h": {"histogram": {"field": field, "interval": 2.5, "hard_bounds": {"min": 0.0, "max": 5.0}}}}));
        add(&format!("hist_{field}_ext"), json!({"h": {"histogram": {"field": field, "interval": 2.5, "extended_bounds": {"min": -5.0, "max": 12.5}}}}));
        // extended bounds narrower than the data (they only widen the bucket range, never shrink it) and inside a gap
        add(&format!("hist_{field}_ext_narrow"), json!({"h": {"histogram": {"field": field, "interval": 2.5, "extended_bounds": {"min": 0.0, "max": 2.5}}}}));
        add(&format!("hist_{field}_ext_gap"), json!({"h": {"histogram": {"field": field, "interval": 2.5, "extended_bounds": {"min": 5.0, "max": 6.0}}}}));
        add(&format!("hist_{field}_ext_left"), json!({"h": {"histogram": {"field": field, "interval": 2.5, "extended_bounds": {"min": -10.0, "max": 0.0}}}}));
        add(&format!("hist_{field}_sub"), json!({"h": {"histogram": {"field": field, "interval": 2.5, "min_doc_count": 1}, "aggs": {"mx": {"max": {"field": "n"}}}}}));
    }
    // terms (single-valued) x histogram (multi-valued) and other depth-2 nestings
    add("terms_g_hist_val", json!({"t": {"terms": {"field": "g", "size": 10, "segment_size": 10, "order": {"_key": "asc"}}, "aggs": {"h": {"histogram": {"field": "val", "interval": 2.5, "min_doc_count": 1}}}}}));
    add("terms_g_hist_n", json!({"t": {"terms": {"field": "g", "size": 10, "segment_size": 10, "order": {"_key": "asc"}}, "aggs": {"h": {"histogram": {"field": "n", "interval": 5.0}}}}}));
    add("terms_g_datehist", json!({"t": {"terms": {"field": "g", "size": 10, "segment_size": 10, "order": {"_key": "asc"}}, "aggs": {"h": {"date_histogram": {"field": "date", "fixed_interval": "1d"}}}}}));
    add("hist_terms_keydesc", json!({"h": {"histogram": {"field": "val", "interval": 5.0, "min_doc_count": 1}, "aggs": {"t": {"terms": {"field": "k", "size": 2, "segment_size": 2, "order": {"_key": "desc"}}}}}}));
    add("range_hist_stats", json!({"r": {"range": {"field": "n", "ranges": [{"to": 3.0}, {"from": 3.0}]}, "aggs": {"h": {"histogram": {"field": "val", "interval": 2.5, "min_doc_count": 1}, "aggs": {"s": {"stats": {"field": "n"}}}}}}}));
    // date histogram, filter, composite, top_hits (partition invariance only)
    for iv in ["1d", "1h"] {
        for mdc in [0, 1] {
            add(&format!("datehist_{iv}_{mdc}"), json!({"d": {"date_histogram": {"field": "date", "fixed_interval": iv, "min_doc_count": mdc}}}));
        }
    }
    add("datehist_offset", json!({"d": {"date_histogram": {"field": "date", "fixed_interval": "1d", "offset": "-4h"}}}));
    // disjoint ranges with several gaps (values falling into the second and third gap), open ends
    for field in ["val", "n"] {
        // (integer bounds: the integer column rejects fractional ones)
        add(&format!("range_gaps_{field}"), json!({"r": {"range": {"field": field, "ranges": [{"from": -3.0, "to": -1.0}, {"from": 0.0, "to": 1.0}, {"from": 2.0, "to": 3.0}, {"from": 9.0, "to": 11.0}]}}}));
        add(&format!("range_gaps_open_{field}"), json!({"r": {"range": {"field": field, "ranges": [{"to": -2.0}, {"from": -1.0, "to": 0.0}, {"from": 1.0, "to": 3.0}, {"from": 8.0}]}, "aggs": {"c": {"value_count": {"field": "n"}}}}}));
    }
    // terms whose per-partition counts stay below min_doc_count while the total reaches it
    for mdc in [2, 3] {
        add(&format!("terms_k_mdc{mdc}"), json!({"t": {"terms": {"field": "k", "size": 10, "segment_size": 10, "min_doc_count": mdc, "order": {"_key": "asc"}}}}));
        add(&format!("terms_g_mdc{mdc}_sum"), json!({"t": {"terms": {"field": "g", "size": 10, "segment_size": 10, "min_doc_count": mdc, "order": {"_key": "asc"}}, "aggs": {"s": {"sum": {"field": "val"}}}}}));
    }
    // zero-count buckets carrying sub-aggregations: a term without a hit in one partition
    add("terms_mdc0_filter_sum", json!({"t": {"terms": {"field": "k", "size": 10, "segment_size": 10, "min_doc_count": 0, "order": {"_key": "asc"}}, "aggs": {"f": {"filter": "txt:x", "aggs": {"s": {"sum": {"field": "val"}}}}}}}));
    add("terms_mdc0_avg", json!({"t": {"terms": {"field": "k", "size": 10, "segment_size": 10, "min_doc_count": 0, "order": {"_key": "asc"}}, "aggs": {"a": {"avg": {"field": "val"}}, "c": {"value_count": {"field": "n"}}}}}));
    add("filter_terms_mdc0", json!({"f": {"filter": "txt:y", "aggs": {"t": {"terms": {"field": "k", "size": 10, "segment_size": 10, "min_doc_count": 0, "order": {"_key": "desc"}}, "aggs": {"m": {"max": {"field": "n"}}}}}}}));
    add("filter_q", json!({"f": {"filter": "txt:x", "aggs": {"s": {"sum": {"field": "val"}}}}}));
    add("composite_1", json!({"c": {"composite": {"size": 2, "sources": [{"kk": {"terms": {"field": "k"}}}]}}}));
    add("composite_2", json!({"c": {"composite": {"size": 10, "sources": [{"gg": {"terms": {"field": "g"}}}, {"nn": {"histogram": {"field": "n", "interval": 5.0}}}]}}}));
    add("top_hits", json!({"th": {"top_hits": {"size": 2, "sort": [{"n": "desc"}], "docvalue_fields": ["n", "g"]}}}));
    add("top_hits_from", json!({"th": {"top_hits": {"size": 2, "from": 3, "sort": [{"n": "desc"}], "docvalue_fields": ["n"]}}}));
    add("terms_top_hits_from", json!({"t": {"terms": {"field": "g", "size": 10, "segment_size": 10, "order": {"_key": "asc"}}, "aggs": {"th": {"top_hits": {"size": 1, "from": 1, "sort": [{"n": "asc"}], "docvalue_fields": ["n"]}}}}}));
    if thorough {
        add("terms_k_terms_n", json!({"t": {"terms": {"field": "k", "size": 10, "segment_size": 10, "order": {"_key": "asc"}}, "aggs": {"u": {"terms": {"field": "n", "size": 10, "segment_size": 10, "order": {"_key": "desc"}}, "aggs": {"a": {"avg": {"field": "val"}}}}}}}));
        add("hist_range_count", json!({"h": {"histogram": {"field": "n", "interval": 5.0}, "aggs": {"r": {"range": {"field": "val", "ranges": [{"to": 1.0}, {"from": 1.0}]}}}}}));
    }
    v
}

fn field_values(d: &ADoc, field: &str) -> Vec<f64> {
    match field {
        "val" => d.val.clone(),
        "n" => d.n.iter().map(|x| *x as f64).collect(),
        "g" => vec![d.g as f64],
        _ => vec![],
    }
}

fn num(x: f64) -> Value {
    json!(x)
}

/// direct evaluation of an aggregation request over `docs`; None when a construct is not modelled
pub fn direct(req: &Value, docs: &[&ADoc]) -> Option<Value> {
    let mut out = Map::new();
    for (name, agg) in req.as_object()? {
        let obj = agg.as_object()?;
        let sub = obj.get("aggs");
        let (ty, params) = obj.iter().find(|(k, _)| *k != "aggs")?;
        let field = params.get("field").and_then(|f| f.as_str()).unwrap_or("");
        let missing = params.get("missing");
        let res: Value = match ty.as_str() {
            "value_count" | "sum" | "min" | "max" | "avg" | "stats" => {
                let mut vals: Vec<f64> = vec![];
                for d in docs {
                    let v = field_values(d, field);
                    if v.is_empty() {
                        if let Some(m) = missing.and_then(|m| m.as_f64()) {
                            vals.push(m);
                        }
                    } else {
                        vals.extend(v);
                    }
                }
                let cnt = vals.len() as f64;
                let sum: f64 = vals.iter().sum();
                let min = vals.iter().cloned().fold(f64::INFINITY, f64::min);
                let max = vals.iter().cloned().fold(f64::NEG_INFINITY, f64::max);
                let opt = |x: f64| if vals.is_empty() { Value::Null } else { num(x) };
                match ty.as_str() {
                    "value_count" => json!({"value": cnt}),
                    "sum" => json!({"value": sum}),
                    "min" => json!({"value": opt(min)}),
                    "max" => json!({"value": opt(max)}),
                    "avg" => json!({"value": opt(sum / cnt)}),
                    _ => json!({"count": cnt as u64, "sum": sum, "min": opt(min), "max": opt(max), "avg": opt(sum / cnt)}),
                }
            }
            "cardinality" => {
                let mut set: Vec<String> = vec![];
                for d in docs {
                    if field == "k" {
                        set.extend(d.k.iter().map(|s| s.to_string()));
                    } else {
                        set.extend(field_values(d, field).iter().map(|x| format!("{x}")));
                    }
                }
                set.sort();
                set.dedup();
                json!({"value": set.len() as f64})
            }
            "terms" => {
                // term -> (occurrences, docs)
                let mut groups: BTreeMap<String, (u64, Vec<&ADoc>)> = BTreeMap::new();
                let mut numeric_key: BTreeMap<String, f64> = BTreeMap::new();
                for d in docs {
                    let keys: Vec<(String, Option<f64>)> = if field == "k" { d.k.iter().map(|s| (s.to_string(), None)).collect() } else { field_values(d, field).iter().map(|x| (format!("{x}"), Some(*x))).collect() };
                    let keys = if keys.is_empty() {
                        match missing {
                            Some(Value::String(s)) => vec![(s.clone(), None)],
                            Some(m) if m.is_number() => vec![(format!("{}", m.as_f64()?), m.as_f64())],
                            _ => vec![],
                        }
                    } else {
                        keys
                    };
                    for (k, nk) in keys {
                        let e = groups.entry(k.clone()).or_insert((0, vec![]));
                        e.0 += 1;
                        e.1.push(d);
                        if let Some(x) = nk {
                            numeric_key.insert(k, x);
                        }
                    }
                }
                let mdc = params.get("min_doc_count").and_then(|x| x.as_u64()).unwrap_or(1);
                if mdc == 0 {
                    // min_doc_count 0 also lists the dictionary terms of documents the query filtered out:
                    // compared for partition invariance only
                    return None;
                }
                let size = params.get("size").and_then(|x| x.as_u64()).unwrap_or(10) as usize;
                let order = params.get("order").and_then(|o| o.as_object()).and_then(|o| o.iter().next()).map(|(k, v)| (k.clone(), v.as_str().unwrap_or("desc").to_string())).unwrap_or(("_count".into(), "desc".into()));
                let total: u64 = groups.values().map(|g| g.0).sum();
                let mut buckets: Vec<(String, u64, Vec<&ADoc>)> = groups.into_iter().map(|(k, (c, ds))| (k, c, ds)).collect();
                let keycmp = |a: &String, b: &String| match (numeric_key.get(a), numeric_key.get(b)) {
                    (Some(x), Some(y)) => x.partial_cmp(y).unwrap(),
                    _ => a.cmp(b),
                };
                match order.0.as_str() {
                    "_key" => buckets.sort_by(|a, b| if order.1 == "asc" { keycmp(&a.0, &b.0) } else { keycmp(&b.0, &a.0) }),
                    "_count" => buckets.sort_by(|a, b| b.1.cmp(&a.1).then(keycmp(&a.0, &b.0))),
                    _ => return None, // ordering by a sub-aggregation: partition invariance only
                }
                buckets.truncate(size);
                let kept: u64 = buckets.iter().map(|b| b.1).sum();
                buckets.retain(|b| b.1 >= mdc);
                let mut bl = vec![];
                for (k, c, ds) in buckets {
                    let mut b = Map::new();
                    b.insert("key".into(), numeric_key.get(&k).map(|x| num(*x)).unwrap_or(json!(k)));
                    b.insert("doc_count".into(), json!(c));
                    if let Some(s) = sub {
                        let mut uniq: Vec<&ADoc> = vec![];
                        for d in ds {
                            if !uniq.iter().any(|u| std::ptr::eq(*u, d)) {
                                uniq.push(d);
                            }
                        }
                        for (sk, sv) in direct(s, &uniq)?.as_object()? {
                            b.insert(sk.clone(), sv.clone());
                        }
                    }
                    bl.push(Value::Object(b));
                }
                json!({"buckets": bl, "sum_other_doc_count": total - kept, "__order": order.0})
            }
            "range" => {
                let mut bl = vec![];
                for r in params.get("ranges")?.as_array()? {
                    let from = r.get("from").and_then(|x| x.as_f64());
                    let to = r.get("to").and_then(|x| x.as_f64());
                    let inr = |x: f64| from.map(|f| x >= f).unwrap_or(true) && to.map(|t| x < t).unwrap_or(true);
                    let mut cnt = 0u64;
                    let mut ds: Vec<&ADoc> = vec![];
                    for d in docs {
                        let c = field_values(d, field).iter().filter(|x| inr(**x)).count() as u64;
                        cnt += c;
                        if c > 0 {
                            ds.push(d);
                        }
                    }
                    let mut b = Map::new();
                    b.insert("from".into(), from.map(num).unwrap_or(Value::Null));
                    b.insert("to".into(), to.map(num).unwrap_or(Value::Null));
                    b.insert("doc_count".into(), json!(cnt));
                    if let Some(s) = sub {
                        // a document whose several values fall in the range is counted per value: avoid that zone
                        if docs.iter().any(|d| field_values(d, field).iter().filter(|x| inr(**x)).count() > 1) {
                            return None;
                        }
                        for (sk, sv) in direct(s, &ds)?.as_object()? {
                            b.insert(sk.clone(), sv.clone());
                        }
                    }
                    bl.push(Value::Object(b));
                }
                json!({"range_buckets": bl})
            }
            "histogram" => {
                let interval = params.get("interval")?.as_f64()?;
                let offset = params.get("offset").and_then(|x| x.as_f64()).unwrap_or(0.0);
                let mdc = params.get("min_doc_count").and_then(|x| x.as_u64()).unwrap_or(0);
                let hard = params.get("hard_bounds").map(|b| (b["min"].as_f64().unwrap(), b["max"].as_f64().unwrap()));
                let ext = params.get("extended_bounds").map(|b| (b["min"].as_f64().unwrap(), b["max"].as_f64().unwrap()));
                let key_of = |x: f64| ((x - offset) / interval).floor() * interval + offset;
                let mut counts: BTreeMap<i64, (f64, u64, Vec<&ADoc>)> = BTreeMap::new();
                for d in docs {
                    let mut seen_keys: Vec<i64> = vec![];
                    for x in field_values(d, field) {
                        if let Some((lo, hi)) = hard {
                            if x < lo || x > hi {
                                continue;
                            }
                        }
                        let k = key_of(x);
                        let ik = ((x - offset) / interval).floor() as i64;
                        let e = counts.entry(ik).or_insert((k, 0, vec![]));
                        e.1 += 1;
                        if !seen_keys.contains(&ik) {
                            e.2.push(d);
                            seen_keys.push(ik);
                        } else if sub.is_some() {
                            // several values of one document in one bucket: sub-aggregation zone left open
                            return None;
                        }
                    }
                }
                let mut bl = vec![];
                if mdc == 0 && (!counts.is_empty() || ext.is_some()) {
                    let mut lo = counts.keys().next().copied();
                    let mut hi = counts.keys().last().copied();
                    if let Some((emin, emax)) = ext {
                        let (a, b) = (((emin - offset) / interval).floor() as i64, ((emax - offset) / interval).floor() as i64);
                        lo = Some(lo.map(|x| x.min(a)).unwrap_or(a));
                        hi = Some(hi.map(|x| x.max(b)).unwrap_or(b));
                    }
                    for ik in lo?..=hi? {
                        counts.entry(ik).or_insert((ik as f64 * interval + offset, 0, vec![]));
                    }
                }
                for (_ik, (k, c, ds)) in counts {
                    if c < mdc {
                        continue;
                    }
                    let mut b = Map::new();
                    b.insert("key".into(), num(k));
                    b.insert("doc_count".into(), json!(c));
                    if let Some(s) = sub {
                        for (sk, sv) in direct(s, &ds)?.as_object()? {
                            b.insert(sk.clone(), sv.clone());
                        }
                    }
                    bl.push(Value::Object(b));
                }
                json!({"buckets": bl})
            }
            _ => return None,
        };
        out.insert(name.clone(), res);
    }
    Some(Value::Object(out))
}

fn nearly(a: f64, b: f64, tol: f64) -> bool {
    (a - b).abs() <= tol * a.abs().max(b.abs()).max(1e-12) || (a - b).abs() < 1e-12
}

/// structural comparison of `got` (tantivy result JSON) against `want`: only what `want` defines is compared
fn matches_expected(got: &Value, want: &Value, path: &str) -> Result<(), String> {
    match want {
        Value::Object(w) => {
            // special forms
            if let Some(rb) = w.get("range_buckets") {
                let gb = got.get("buckets").ok_or(format!("{path}: no buckets"))?;
                let glist: Vec<Value> = match gb {
                    Value::Array(a) => a.clone(),
                    Value::Object(o) => o.values().cloned().collect(),
                    _ => return Err(format!("{path}: buckets malformed")),
                };
                for wb in rb.as_array().unwrap() {
                    let found = glist.iter().find(|g| {
                        let gf = g.get("from").and_then(|x| x.as_f64());
                        let gt = g.get("to").and_then(|x| x.as_f64());
                        gf == wb["from"].as_f64() && gt == wb["to"].as_f64()
                    });
                    let Some(g) = found else { return Err(format!("{path}: no bucket for range {:?}..{:?}", wb["from"], wb["to"])) };
                    for (k, v) in wb.as_object().unwrap() {
                        if k == "from" || k == "to" {
                            continue;
                        }
                        matches_expected(g.get(k).unwrap_or(&Value::Null), v, &format!("{path}/range[{}..{}]/{k}", wb["from"], wb["to"]))?;
                    }
                }
                return Ok(());
            }
            if let (Some(Value::Array(wb)), Some(order)) = (w.get("buckets"), w.get("__order")) {
                let gb = got.get("buckets").and_then(|b| b.as_array()).ok_or(format!("{path}: no buckets array"))?;
                if gb.len() != wb.len() {
                    return Err(format!("{path}: {} buckets, direct computation has {} ({})", gb.len(), wb.len(), serde_json::to_string(&gb.iter().map(|b| (b["key"].clone(), b["doc_count"].clone())).collect::<Vec<_>>()).unwrap()));
                }
                // count order: ties between equal counts may come in any order -> match by key
                let by_key = order == "_count";
                for (i, wbk) in wb.iter().enumerate() {
                    let g = if by_key { gb.iter().find(|g| keys_equal(&g["key"], &wbk["key"])).ok_or(format!("{path}: bucket {} missing", wbk["key"]))? } else { &gb[i] };
                    if wbk["doc_count"].as_u64() == Some(0) {
                        // an empty bucket (a gap of a histogram, a zero-count term): what its sub-aggregations
                        // report is not specified; key and count are
                        if !keys_equal(&g["key"], &wbk["key"]) || g["doc_count"].as_u64() != Some(0) {
                            return Err(format!("{path}/bucket[{}]: got key {} count {}, direct computation has an empty bucket", wbk["key"], g["key"], g["doc_count"]));
                        }
                        continue;
                    }
                    matches_expected(g, wbk, &format!("{path}/bucket[{}]", wbk["key"]))?;
                }
                if by_key {
                    let counts: Vec<u64> = gb.iter().map(|b| b["doc_count"].as_u64().unwrap_or(0)).collect();
                    if counts.windows(2).any(|w| w[0] < w[1]) {
                        return Err(format!("{path}: buckets not ordered by descending count: {counts:?}"));
                    }
                }
                if let Some(s) = w.get("sum_other_doc_count") {
                    matches_expected(got.get("sum_other_doc_count").unwrap_or(&Value::Null), s, &format!("{path}/sum_other_doc_count"))?;
                }
                return Ok(());
            }
            if w.get("doc_count").and_then(|c| c.as_u64()) == Some(0) && w.contains_key("key") {
                // an empty bucket (a gap of a histogram): what its sub-aggregations report is not specified
                if !keys_equal(got.get("key").unwrap_or(&Value::Null), &w["key"]) || got.get("doc_count").and_then(|c| c.as_u64()) != Some(0) {
                    return Err(format!("{path}: got {got}, direct computation has the empty bucket {}", w["key"]));
                }
                return Ok(());
            }
            for (k, v) in w {
                if k == "__order" {
                    continue;
                }
                matches_expected(got.get(k).unwrap_or(&Value::Null), v, &format!("{path}/{k}"))?;
            }
            Ok(())
        }
        Value::Array(w) => {
            let g = got.as_array().ok_or(format!("{path}: expected an array, got {got}"))?;
            if g.len() != w.len() {
                return Err(format!("{path}: {} entries, direct computation has {}", g.len(), w.len()));
            }
            for (i, (a, b)) in g.iter().zip(w.iter()).enumerate() {
                matches_expected(a, b, &format!("{path}[{i}]"))?;
            }
            Ok(())
        }
        Value::Number(wn) => {
            let Some(gn) = got.as_f64() else { return Err(format!("{path}: {got}, direct computation gives {wn}")) };
            if nearly(gn, wn.as_f64().unwrap(), 1e-9) {
                Ok(())
            } else {
                Err(format!("{path}: {gn}, direct computation gives {wn}"))
            }
        }
        other => {
            if keys_equal(got, other) {
                Ok(())
            } else {
                Err(format!("{path}: {got}, direct computation gives {other}"))
            }
        }
    }
}

fn keys_equal(a: &Value, b: &Value) -> bool {
    match (a.as_f64(), b.as_f64()) {
        (Some(x), Some(y)) => nearly(x, y, 1e-9),
        _ => a == b,
    }
}

/// The relative order of buckets with equal doc_count is not specified (it depends on the partition for
/// count-ordered terms): runs of consecutive buckets with equal doc_count are sorted by key on both sides.
fn canon_ties(v: &mut Value) {
    match v {
        Value::Object(o) => {
            // top_hits: which of several documents with equal sort values comes first is not specified;
            // the sort values are compared, the per-hit document values are not
            if o.contains_key("sort") && o.contains_key("docvalue_fields") {
                o.remove("docvalue_fields");
                o.remove("id");
            }
            for (_, x) in o.iter_mut() {
                canon_ties(x);
            }
        }
        Value::Array(a) => {
            for x in a.iter_mut() {
                canon_ties(x);
            }
            let is_buckets = !a.is_empty() && a.iter().all(|b| b.get("doc_count").is_some() && b.get("key").is_some());
            if is_buckets {
                let mut i = 0;
                while i < a.len() {
                    let mut j = i + 1;
                    // ordered by the sub-aggregation "s" when present (requests named *_by_sub), else by count / key
                    let crit = |b: &Value| if b.get("s").is_some() { b["s"]["value"].clone() } else { b["doc_count"].clone() };
                    while j < a.len() && crit(&a[j]) == crit(&a[i]) {
                        j += 1;
                    }
                    a[i..j].sort_by_key(|b| b["key"].to_string());
                    i = j;
                }
            }
        }
        _ => {}
    }
}

fn same_json(a: &Value, b: &Value, path: &str) -> Result<(), String> {
    let (mut a2, mut b2) = (a.clone(), b.clone());
    canon_ties(&mut a2);
    canon_ties(&mut b2);
    same_json_inner(&a2, &b2, path)
}

/// equality of two result JSONs up to float tolerance (looser under percentile aggregations)
fn same_json_inner(a: &Value, b: &Value, path: &str) -> Result<(), String> {
    let tol = if path.contains("pct_") { 0.03 } else { 1e-9 };
    match (a, b) {
        (Value::Object(x), Value::Object(y)) => {
            let kx: Vec<&String> = x.keys().collect();
            let ky: Vec<&String> = y.keys().collect();
            if kx != ky {
                return Err(format!("{path}: keys {kx:?} vs {ky:?}"));
            }
            for k in kx {
                same_json_inner(&x[k], &y[k], &format!("{path}/{k}"))?;
            }
            Ok(())
        }
        (Value::Array(x), Value::Array(y)) => {
            if x.len() != y.len() {
                return Err(format!("{path}: {} vs {} entries", x.len(), y.len()));
            }
            for (i, (p, q)) in x.iter().zip(y.iter()).enumerate() {
                same_json_inner(p, q, &format!("{path}[{i}]"))?;
            }
            Ok(())
        }
        (Value::Number(x), Value::Number(y)) => {
            if nearly(x.as_f64().unwrap(), y.as_f64().unwrap(), tol) {
                Ok(())
            } else {
                Err(format!("{path}: {x} vs {y}"))
            }
        }
        _ => {
            if a == b {
                Ok(())
            } else {
                Err(format!("{path}: {a} vs {b}"))
            }
        }
    }
}

fn ctx_params() -> AggContextParams {
    AggContextParams::new(AggregationLimitsGuard::default(), Default::default())
}

fn run_agg(index: &Index, req: &Value, query: &dyn Query) -> Result<Value, String> {
    let aggs: Aggregations = serde_json::from_value(req.clone()).map_err(|e| format!("request does not parse: {e}"))?;
    let coll = AggregationCollector::from_aggs(aggs, ctx_params());
    let searcher = index.reader().map_err(|e| e.to_string())?.searcher();
    let res = searcher.search(query, &coll).map_err(|e| format!("{e:?}"))?;
    serde_json::to_value(&res).map_err(|e| e.to_string())
}

fn run_intermediate(index: &Index, req: &Value, query: &dyn Query) -> Result<IntermediateAggregationResults, String> {
    let aggs: Aggregations = serde_json::from_value(req.clone()).map_err(|e| e.to_string())?;
    let coll = DistributedAggregationCollector::from_aggs(aggs, ctx_params());
    let searcher = index.reader().map_err(|e| e.to_string())?.searcher();
    searcher.search(query, &coll).map_err(|e| format!("{e:?}"))
}

fn roundtrip(x: IntermediateAggregationResults) -> Result<IntermediateAggregationResults, String> {
    let bytes = postcard::to_allocvec(&x).map_err(|e| format!("postcard serialise: {e}"))?;
    postcard::from_bytes(&bytes).map_err(|e| format!("postcard deserialise: {e}"))
}

fn query_of(qi: usize) -> Box<dyn Query> {
    let s = schema();
    match qi {
        1 => Box::new(TermQuery::new(Term::from_field_text(s.get_field("txt").unwrap(), "x"), IndexRecordOption::Basic)),
        2 => Box::new(tantivy::query::RangeQuery::new(std::ops::Bound::Included(Term::from_field_i64(s.get_field("n").unwrap(), 0)), std::ops::Bound::Unbounded)),
        _ => Box::new(AllQuery),
    }
}

fn query_matches(qi: usize, d: &ADoc) -> bool {
    match qi {
        1 => d.txt.split(' ').any(|t| t == "x"),
        2 => d.n.iter().any(|x| *x >= 0),
        _ => true,
    }
}

/// the indexes of one corpus: single segment, every contiguous split (as one index and as separate indexes)
pub struct Prepared {
    alpha: Vec<ADoc>,
    docs: Vec<usize>,
    single: Index,
    splits: Vec<(Vec<usize>, Index, Vec<Index>)>,
    /// an index without any document (a shard that holds nothing)
    empty: Index,
}

pub fn prepare(docs: &[usize]) -> Prepared {
    let n = docs.len();
    let single = build(docs, &[n]);
    let mut splits = vec![];
    for segs in crate::qmodel::compositions(n).into_iter().filter(|c| c.len() >= 2 && c.len() <= 3) {
        let idx = build(docs, &segs);
        let mut parts: Vec<Index> = vec![];
        let mut k = 0;
        for &s in &segs {
            parts.push(build(&docs[k..k + s], &[s]));
            k += s;
        }
        splits.push((segs, idx, parts));
    }
    Prepared { alpha: alphabet(), docs: docs.to_vec(), single, splits, empty: build(&[], &[]) }
}

/// large family: `n` documents of the wide alphabet in one segment, and three two-way splits (halves, a 64-doc
/// head, a 1-doc tail), each as one index and as separate indexes
pub fn prepare_large(n: usize) -> Prepared {
    let alpha = wide_alphabet();
    let docs = large_docs(n);
    let single = build_over(&alpha, &docs, &[n]);
    let mut splits = vec![];
    for segs in [vec![n / 2, n - n / 2], vec![64, n - 64], vec![n - 1, 1]] {
        let idx = build_over(&alpha, &docs, &segs);
        let mut parts = vec![];
        let mut k = 0;
        for &s in &segs {
            parts.push(build_over(&alpha, &docs[k..k + s], &[s]));
            k += s;
        }
        splits.push((segs, idx, parts));
    }
    Prepared { alpha, docs, single, splits, empty: build(&[], &[]) }
}

/// requests of the large family: bucket aggregations with and without nested metrics / buckets
pub fn large_requests() -> Vec<(String, Value)> {
    let mut v: Vec<(String, Value)> = vec![];
    let mut add = |name: &str, req: Value| v.push((name.to_string(), req));
    let subs = json!({"s": {"sum": {"field": "val"}}, "mx": {"max": {"field": "n"}}, "c": {"value_count": {"field": "val"}}});
    for (field, interval) in [("n", 1.0), ("n", 5.0), ("val", 0.5), ("val", 2.5)] {
        for mdc in [0, 1] {
            add(&format!("L_hist_{field}_{interval}_{mdc}"), json!({"h": {"histogram": {"field": field, "interval": interval, "min_doc_count": mdc}}}));
        }
        add(&format!("L_hist_{field}_{interval}_sub"), json!({"h": {"histogram": {"field": field, "interval": interval, "min_doc_count": 1}, "aggs": subs}}));
    }
    add("L_hist_n_offset", json!({"h": {"histogram": {"field": "n", "interval": 4.0, "offset": 1.0}, "aggs": {"a": {"avg": {"field": "val"}}}}}));
    add("L_datehist", json!({"d": {"date_histogram": {"field": "date", "fixed_interval": "1d"}}}));
    add("L_datehist_sub", json!({"d": {"date_histogram": {"field": "date", "fixed_interval": "1d", "min_doc_count": 1}, "aggs": subs}}));
    for field in ["k", "g", "n"] {
        add(&format!("L_terms_{field}"), json!({"t": {"terms": {"field": field, "size": 100, "segment_size": 100, "order": {"_key": "asc"}}}}));
        add(&format!("L_terms_{field}_sub"), json!({"t": {"terms": {"field": field, "size": 100, "segment_size": 100, "order": {"_key": "asc"}}, "aggs": subs}}));
    }
    add("L_range_sub", json!({"r": {"range": {"field": "n", "ranges": [{"to": -5.0}, {"from": -5.0, "to": 10.0}, {"from": 10.0}]}, "aggs": subs}}));
    add("L_terms_g_hist_n", json!({"t": {"terms": {"field": "g", "size": 10, "segment_size": 10, "order": {"_key": "asc"}}, "aggs": {"h": {"histogram": {"field": "n", "interval": 2.0, "min_doc_count": 1}, "aggs": {"s": {"sum": {"field": "val"}}}}}}}));
    add("L_hist_terms_k", json!({"h": {"histogram": {"field": "n", "interval": 8.0, "min_doc_count": 1}, "aggs": {"t": {"terms": {"field": "k", "size": 10, "segment_size": 10, "order": {"_key": "asc"}}, "aggs": {"s": {"sum": {"field": "val"}}}}}}}));
    add("L_filter_hist", json!({"f": {"filter": "txt:x", "aggs": {"h": {"histogram": {"field": "n", "interval": 3.0}, "aggs": {"s": {"sum": {"field": "val"}}}}}}}));
    // top_hits below buckets (per-bucket collectors that are flushed in batches); ties hold identical documents
    add("L_hist_top_hits", json!({"h": {"histogram": {"field": "n", "interval": 1.0, "min_doc_count": 1}, "aggs": {"th": {"top_hits": {"size": 1, "sort": [{"n": "desc"}], "docvalue_fields": ["n", "g"]}}}}}));
    add("L_terms_top_hits", json!({"t": {"terms": {"field": "k", "size": 10, "segment_size": 10, "order": {"_key": "asc"}}, "aggs": {"th": {"top_hits": {"size": 2, "from": 1, "sort": [{"n": "desc"}], "docvalue_fields": ["n"]}}}}}));
    for m in ["sum", "stats", "avg"] {
        add(&format!("L_{m}"), json!({"m": {m: {"field": "val"}}}));
    }
    v
}

/// all checks of one (corpus, request, query)
pub fn check(p: &Prepared, name: &str, req: &Value, qi: usize, st: &mut Stats) -> Option<(String, String)> {
    let alpha = &p.alpha;
    let q = query_of(qi);
    let docs = &p.docs;
    let reference = match run_agg(&p.single, req, q.as_ref()) {
        Ok(r) => r,
        Err(e) => return Some(("aggregation_error".into(), format!("single segment: {e}"))),
    };
    if std::env::var("VERIF_TRACE").is_ok() {
        eprintln!("reference = {reference}");
    }
    // (a) direct computation (owned copies: two occurrences of one alphabet document are two documents)
    let owned: Vec<ADoc> = docs.iter().map(|&i| alpha[i].clone()).collect();
    let matching: Vec<&ADoc> = owned.iter().filter(|d| query_matches(qi, d)).collect();
    if let Some(want) = direct(req, &matching) {
        st.count("direct_comparisons");
        if let Err(e) = matches_expected(&reference, &want, "") {
            return Some(("differs_from_direct_computation".into(), format!("single segment: {e}")));
        }
    }
    // (c0) an empty shard merged before / after the single index must not change anything
    {
        let aggs: Aggregations = serde_json::from_value(req.clone()).ok()?;
        for empty_first in [true, false] {
            st.count("empty_shard_merges");
            let e = match run_intermediate(&p.empty, req, q.as_ref()) {
                Ok(x) => x,
                Err(e) => return Some(("aggregation_error".into(), format!("empty index: {e}"))),
            };
            let f = match run_intermediate(&p.single, req, q.as_ref()) {
                Ok(x) => x,
                Err(e) => return Some(("aggregation_error".into(), format!("single index (intermediate): {e}"))),
            };
            let (mut a, b) = if empty_first { (e, f) } else { (f, e) };
            if let Err(e) = a.merge_fruits(b) {
                return Some(("merge_fruits_error".into(), format!("with an empty shard: {e:?}")));
            }
            let fin = match a.into_final_result(aggs.clone(), AggregationLimitsGuard::default()) {
                Ok(f) => serde_json::to_value(&f).ok()?,
                Err(e) => return Some(("into_final_result_error".into(), format!("{e:?}"))),
            };
            if let Err(e) = same_json(&fin, &reference, "") {
                return Some(("depends_on_partition".into(), format!("the intermediate result of an index without documents merged {} the single index: {e}", if empty_first { "before" } else { "after" })));
            }
        }
    }
    // (b) every contiguous split into <= 3 segments of one index
    for (segs, idx, parts) in &p.splits {
        st.count("segmentations");
        match run_agg(idx, req, q.as_ref()) {
            Ok(r) => {
                if let Err(e) = same_json(&r, &reference, "") {
                    return Some(("depends_on_segmentation".into(), format!("segments {segs:?} vs one segment: {e}")));
                }
            }
            Err(e) => return Some(("aggregation_error".into(), format!("segments {segs:?}: {e}"))),
        }
        // (c) the same split as separate indexes, intermediate results merged in every order / grouping
        let aggs: Aggregations = serde_json::from_value(req.clone()).ok()?;
        let orders: Vec<Vec<usize>> = if parts.len() == 2 { vec![vec![0, 1], vec![1, 0]] } else { vec![vec![0, 1, 2], vec![2, 1, 0], vec![1, 0, 2], vec![0, 2, 1]] };
        // re-pruning a partition's result with the per-segment rules must not lose anything as long as every
        // terms aggregation's segment_size covers all terms (true for all requests but the marked ones)
        let prunable = !req.to_string().contains("\"segment_size\":2");
        for (oi, order) in orders.iter().enumerate() {
            for variant in 0..3u8 {
                let rt = variant == 1;
                if variant == 2 && !prunable {
                    continue;
                }
                st.count("distributed_merges");
                let mut inter: Vec<IntermediateAggregationResults> = vec![];
                for &pi in order {
                    match run_intermediate(&parts[pi], req, q.as_ref()) {
                        Ok(mut x) => inter.push(if variant == 2 {
                            st.count("intermediate_prunes");
                            if let Err(e) = x.prune_intermediate_results(&aggs, tantivy::aggregation::intermediate_agg_result::PruneMode::Intermediate) {
                                return Some(("prune_error".into(), format!("{e:?}")));
                            }
                            x
                        } else if rt {
                            match roundtrip(x) {
                                Ok(y) => y,
                                Err(e) => return Some(("intermediate_serialisation".into(), e)),
                            }
                        } else {
                            x
                        }),
                        Err(e) => return Some(("aggregation_error".into(), format!("part {pi}: {e}"))),
                    }
                }
                // grouping: left fold, or (for 3 parts, odd orders) right-nested
                let merged = if inter.len() == 3 && oi % 2 == 1 {
                    let c = inter.pop().unwrap();
                    let mut b = inter.pop().unwrap();
                    if let Err(e) = b.merge_fruits(c) {
                        return Some(("merge_fruits_error".into(), format!("{e:?}")));
                    }
                    let mut a = inter.pop().unwrap();
                    if let Err(e) = a.merge_fruits(b) {
                        return Some(("merge_fruits_error".into(), format!("{e:?}")));
                    }
                    a
                } else {
                    let mut it = inter.into_iter();
                    let mut a = it.next().unwrap();
                    for x in it {
                        if let Err(e) = a.merge_fruits(x) {
                            return Some(("merge_fruits_error".into(), format!("{e:?}")));
                        }
                    }
                    a
                };
                let fin = match merged.into_final_result(aggs.clone(), AggregationLimitsGuard::default()) {
                    Ok(f) => serde_json::to_value(&f).ok()?,
                    Err(e) => return Some(("into_final_result_error".into(), format!("{e:?}"))),
                };
                if let Err(e) = same_json(&fin, &reference, "") {
                    return Some((
                        "depends_on_partition".into(),
                        format!("documents split into separate indexes {segs:?}, merged in order {order:?}{}: {e}", match variant { 1 => " after a postcard round trip", 2 => " after prune_intermediate_results(Intermediate) on every part", _ => "" }),
                    ));
                }
            }
        }
    }
    let _ = name;
    None
}

pub fn replay(case: &Value) -> Vec<Violation> {
    quiet_panics();
    let docs: Vec<usize> = serde_json::from_value(case["docs"].clone()).unwrap_or_default();
    let req = case["request"].clone();
    let qi = case["query"].as_u64().unwrap_or(0) as usize;
    let mut st = Stats::default();
    let prep = || if let Some(n) = case["large"].as_u64() { prepare_large(n as usize) } else { prepare(&docs) };
    match catch_unwind(AssertUnwindSafe(|| check(&prep(), case["name"].as_str().unwrap_or(""), &req, qi, &mut st))) {
        Ok(None) => vec![],
        Ok(Some((r, w))) => vec![Violation::new(&r, w, case.clone())],
        Err(e) => vec![Violation::new("aggregation_panic", panic_message(e), case.clone())],
    }
}

pub fn run(ctx: &Ctx) -> Report {
    quiet_panics();
    let mut rep = Report::new("model_checking");
    let thorough = ctx.tier.is_thorough();
    let reqs = requests(thorough);
    let maxd = if thorough { 5 } else { 3 };
    let mut corpora: Vec<Vec<usize>> = vec![];
    for nd in 1..=maxd {
        for ms in crate::qmodel::multisets(8, nd) {

            corpora.push(ms);
        }
    }
    // work item = corpus (its indexes are built once); all requests x queries inside
    let work: Vec<usize> = (0..corpora.len()).collect();
    let (st, done) = par_for(ctx, work.len(), |i, st| {
        let ci = work[i];
        let docs = &corpora[ci];
        let p = prepare(docs);
        for (ri, (name, req)) in reqs.iter().enumerate() {
            for qi in 0..3usize {
                if qi > 0 && (ci + ri) % 4 != 0 {
                    continue;
                }
                st.eval();
                if docs.len() >= 2 {
                    st.nontrivial(&(ci, ri, qi));
                }
                let r = catch_unwind(AssertUnwindSafe(|| check(&p, name, req, qi, st)));
                let (rule, what) = match r {
                    Ok(None) => continue,
                    Ok(Some(x)) => x,
                    Err(e) => ("aggregation_panic".to_string(), format!("{} [{}]", panic_message(e), last_panic())),
                };
                st.violation(Violation::new(&rule, format!("docs {docs:?} request {name} = {req} query {qi}: {what}"), json!({"docs":docs,"name":name,"request":req,"query":qi})));
            }
        }
        if i % 37 == 0 {
            st.sample(json!({"docs":docs,"requests":reqs.len(),"example_request":reqs[(i * 7) % reqs.len()].1,"queries":"all, term txt:x, range n>=0"}));
        }
    });
    // large-segment family (collectors that buffer, flush every 2048 documents and switch storage layouts)
    let lreqs = large_requests();
    let lsizes: Vec<usize> = if thorough { vec![130, 2049, 2500, 4200, 9000] } else { vec![130, 2500, 4200] };
    let lwork: Vec<(usize, usize)> = lsizes.iter().flat_map(|&n| (0..4).map(move |chunk| (n, chunk))).collect();
    let (stl, donel) = par_for(ctx, lwork.len(), |i, st| {
        let (n, chunk) = lwork[i];
        let p = prepare_large(n);
        for (ri, (name, req)) in lreqs.iter().enumerate() {
            if ri % 4 != chunk {
                continue;
            }
            for qi in 0..3usize {
                if qi > 0 && ri % 3 != 0 {
                    continue;
                }
                st.eval();
                st.count("large_cases");
                st.nontrivial(&("L", n, ri, qi));
                let r = catch_unwind(AssertUnwindSafe(|| check(&p, name, req, qi, st)));
                let (rule, what) = match r {
                    Ok(None) => continue,
                    Ok(Some(x)) => x,
                    Err(e) => ("aggregation_panic".to_string(), format!("{} [{}]", panic_message(e), last_panic())),
                };
                let what: String = what.chars().take(700).collect();
                st.violation(Violation::new(&rule, format!("large family: {n} documents, request {name} = {req} query {qi}: {what}"), json!({"large":n,"name":name,"request":req,"query":qi})));
            }
        }
    });
    let mut st = st;
    st.merge(stl);
    rep.set("large_family", json!({"sizes": lsizes, "requests": lreqs.len(), "work_items": lwork.len(), "completed": donel}));
    rep.set("exhaustive", done == work.len() && donel == lwork.len());
    rep.set("corpora", corpora.len() as u64);
    rep.set("requests", reqs.len() as u64);
    rep.set("rule", "every multiset of 1..3 (thorough 5) documents over an 8-document alphabet (negative / fractional / boundary values, missing fields, a multi-valued document with a duplicate value) x ~200 aggregation requests (6 metrics with / without missing, extended stats, cardinality, percentiles, terms with order / size / min_doc_count / missing, ranges, histograms with interval / offset / min_doc_count / hard and extended bounds, date histograms, filter, composite, top_hits, depth-2 nestings) x 3 filtering queries: (a) direct evaluation of the request over the model documents (metrics, terms, range, histogram and their nestings), (b) every contiguous split into <= 3 segments, (c) the same split as separate indexes whose intermediate results are merged in every order and two groupings, with and without a postcard round trip; all must equal the single-segment result. Large-segment family: 130 / 2500 / 4200 (thorough also 2049, 9000) documents over a 64-entry alphabet (negative minimum, later-appearing buckets, missing values) x 31 bucket requests with nested metrics and buckets (histograms, date histograms, terms, ranges, filter) x up to 3 queries, with the same three oracles over splits {halves, 64-doc head, 1-doc tail}. Non-trivial: >= 2 documents; distinct by (corpus, request, query)");
    for k in ["direct_comparisons", "segmentations", "distributed_merges"] {
        if st.counters.get(k).copied().unwrap_or(0) == 0 {
            rep.machinery_errors.push(format!("vacuous: {k} = 0"));
        }
    }
    rep.set("states", st.nontrivial.len() as u64);
    rep.set("transitions", st.counters.get("segmentations").copied().unwrap_or(0) + st.counters.get("distributed_merges").copied().unwrap_or(0) + st.counters.get("direct_comparisons").copied().unwrap_or(0));
    rep.set("traces_validated_against_impl", st.evaluations);
    rep.assume("terms aggregations are requested with segment_size >= cardinality (the documented exact regime), except key-ordered ones where truncating by key is exact for any partition");
    rep.assume("sub-aggregations below a bucket that holds several values of one document, and orderings by a sub-aggregation, are compared for partition invariance only; percentiles within 3%");
    rep.merge_stats(&st);
    rep.violations = st.violations;
    rep.machinery_errors.extend(st.errors);
    rep
}
