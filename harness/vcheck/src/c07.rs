//! C07 - the inverted index records exactly the terms, documents, frequencies and positions.
use std::collections::BTreeMap;
use std::panic::{catch_unwind, AssertUnwindSafe};

use serde::{Deserialize, Serialize};
use serde_json::{json, Value};
use tantivy::fieldnorm::FieldNormReader;
use tantivy::schema::*;
use tantivy::tokenizer::{FacetTokenizer, NgramTokenizer, TextAnalyzer, TokenStream, Tokenizer};
use tantivy::postings::Postings;
use tantivy::{DocSet, Index, IndexWriter, TantivyDocument, Term, TERMINATED};

use crate::common::*;
use crate::dump::*;

const MAX_TOKEN_LEN: usize = 65530;

#[derive(Clone, Debug, Serialize, Deserialize, PartialEq)]
pub enum Val {
    Text(String),
    U64(u64),
    I64(i64),
    F64(f64),
    Date(i64),
    Bool(bool),
    Bytes(Vec<u8>),
    /// IPv6 address in textual form (u128 does not survive JSON)
    Ip(String),
    Facet(String),
    Json(Value),
}

pub type MDoc = Vec<(String, Val)>;

#[derive(Clone, Debug, Serialize, Deserialize, PartialEq)]
pub struct TextCfg {
    pub record: u8, // 0 basic, 1 freqs, 2 positions
    pub fieldnorms: bool,
    pub tokenizer: String,
}

fn record_of(r: u8) -> IndexRecordOption {
    match r {
        0 => IndexRecordOption::Basic,
        1 => IndexRecordOption::WithFreqs,
        _ => IndexRecordOption::WithFreqsAndPositions,
    }
}

/// schema: `txt` configured by cfg, a second text field `txt2` (always positions + norms), typed fields, a
/// facet and two JSON fields
pub fn make_schema(cfg: &TextCfg) -> Schema {
    make_schema_sorted(cfg, false)
}

pub fn make_schema_sorted(cfg: &TextCfg, sorted: bool) -> Schema {
    let mut sb = Schema::builder();
    if sorted {
        sb.add_u64_field("sk", tantivy::schema::FAST);
    }
    let idx = TextFieldIndexing::default().set_tokenizer(&cfg.tokenizer).set_index_option(record_of(cfg.record)).set_fieldnorms(cfg.fieldnorms);
    sb.add_text_field("txt", TextOptions::default().set_indexing_options(idx).set_stored());
    sb.add_text_field("txt2", TEXT);
    sb.add_u64_field("u", INDEXED);
    sb.add_i64_field("i", INDEXED);
    sb.add_f64_field("f", INDEXED);
    sb.add_date_field("d", INDEXED);
    sb.add_bool_field("b", INDEXED);
    sb.add_bytes_field("y", INDEXED);
    sb.add_ip_addr_field("p", INDEXED);
    sb.add_facet_field("c", FacetOptions::default());
    sb.add_json_field("j1", TEXT);
    sb.add_json_field("j2", TEXT);
    sb.build()
}

pub fn make_index(cfg: &TextCfg) -> Index {
    make_index_sorted(cfg, None)
}

/// `sort`: None, or Some(ascending) - the index is sorted by the fast field `sk` (documents are remapped when a
/// segment is written, and merges interleave their sources)
pub fn make_index_sorted(cfg: &TextCfg, sort: Option<bool>) -> Index {
    let settings = tantivy::IndexSettings {
        sort_by_field: sort.map(|asc| tantivy::IndexSortByField { field: "sk".to_string(), order: if asc { tantivy::Order::Asc } else { tantivy::Order::Desc } }),
        ..tantivy::IndexSettings::default()
    };
    let index = Index::builder().schema(make_schema_sorted(cfg, sort.is_some())).settings(settings).create_in_ram().unwrap();
    index.tokenizers().register("ngram12", NgramTokenizer::new(1, 2, false).unwrap());
    index
}

fn to_doc(schema: &Schema, d: &MDoc) -> TantivyDocument {
    let mut t = TantivyDocument::default();
    for (fname, v) in d {
        let f = schema.get_field(fname).unwrap();
        match v {
            Val::Text(s) => t.add_text(f, s),
            Val::U64(x) => t.add_u64(f, *x),
            Val::I64(x) => t.add_i64(f, *x),
            Val::F64(x) => t.add_f64(f, *x),
            Val::Date(x) => t.add_date(f, tantivy::DateTime::from_timestamp_secs(*x)),
            Val::Bool(x) => t.add_bool(f, *x),
            Val::Bytes(x) => t.add_bytes(f, x),
            Val::Ip(x) => t.add_ip_addr(f, x.parse::<std::net::Ipv6Addr>().unwrap()),
            Val::Facet(x) => t.add_facet(f, Facet::from(x.as_str())),
            Val::Json(x) => {
                let obj: BTreeMap<String, OwnedValue> = serde_json::from_value(x.clone()).unwrap();
                t.add_object(f, obj)
            }
        }
    }
    t
}

/// Builds the index: `segments` = sizes; `merge` merges all at the end
pub fn index_docs(index: &Index, docs: &[MDoc], segments: &[usize], merge: bool) {
    let schema = index.schema();
    let mut w: IndexWriter = index.writer_with_num_threads(1, 100_000_000).unwrap();
    w.set_merge_policy(Box::new(tantivy::merge_policy::NoMergePolicy));
    let mut k = 0;
    for &sz in segments {
        for _ in 0..sz {
            w.add_document(to_doc(&schema, &docs[k])).unwrap();
            k += 1;
        }
        w.commit().unwrap();
    }
    if merge {
        let ids = index.searchable_segment_ids().unwrap();
        if ids.len() > 1 {
            w.merge(&ids).wait().unwrap();
        }
    }
    w.wait_merging_threads().unwrap();
}

#[derive(Default)]
struct PosState {
    end_position: u32,
    num_tokens: u32,
}

fn index_text_model(ts: &mut dyn TokenStream, st: &mut PosState, out: &mut Vec<(Vec<u8>, u32)>) {
    let mut end_position = st.end_position;
    let base = st.end_position;
    let mut n = 0;
    while ts.advance() {
        let tok = ts.token();
        if tok.text.len() > MAX_TOKEN_LEN {
            continue;
        }
        let start = base + tok.position as u32;
        end_position = end_position.max(start + tok.position_length as u32);
        out.push((tok.text.as_bytes().to_vec(), start));
        n += 1;
    }
    st.end_position = end_position + 1;
    st.num_tokens += n;
}

/// (term bytes -> positions) of one document for one field, plus its token count
fn doc_terms(index: &Index, schema: &Schema, fname: &str, d: &MDoc, analyzers: &mut BTreeMap<String, TextAnalyzer>) -> (BTreeMap<Vec<u8>, Vec<u32>>, u32) {
    let field = schema.get_field(fname).unwrap();
    let entry = schema.get_field_entry(field);
    let mut terms: BTreeMap<Vec<u8>, Vec<u32>> = BTreeMap::new();
    let mut ntok = 0u32;
    let vals: Vec<&Val> = d.iter().filter(|(f, _)| f == fname).map(|(_, v)| v).collect();
    match entry.field_type() {
        FieldType::Str(_) => {
            let an = analyzers.entry(fname.to_string()).or_insert_with(|| index.tokenizer_for_field(field).unwrap());
            let mut st = PosState::default();
            let mut toks = vec![];
            for v in vals {
                if let Val::Text(s) = v {
                    let mut ts = an.token_stream(s);
                    index_text_model(&mut ts, &mut st, &mut toks);
                }
            }
            for (t, p) in toks {
                terms.entry(t).or_default().push(p);
            }
            ntok = st.num_tokens;
        }
        FieldType::Facet(_) => {
            for v in vals {
                if let Val::Facet(s) = v {
                    let facet = Facet::from(s.as_str());
                    let mut tk = FacetTokenizer::default();
                    let mut ts = tk.token_stream(facet.encoded_str());
                    while ts.advance() {
                        terms.entry(ts.token().text.as_bytes().to_vec()).or_default().push(0);
                        ntok += 1;
                    }
                }
            }
        }
        FieldType::JsonObject(_) => {
            let an = analyzers.entry(fname.to_string()).or_insert_with(|| index.tokenizer_for_field(field).unwrap());
            let mut per_path: BTreeMap<String, PosState> = BTreeMap::new();
            for v in vals {
                if let Val::Json(j) = v {
                    json_terms(field, j, &mut vec![], an, &mut per_path, &mut terms);
                }
            }
        }
        _ => {
            for v in vals {
                let t = match v {
                    Val::U64(x) => Term::from_field_u64(field, *x),
                    Val::I64(x) => Term::from_field_i64(field, *x),
                    Val::F64(x) => Term::from_field_f64(field, *x),
                    Val::Date(x) => Term::from_field_date(field, tantivy::DateTime::from_timestamp_secs(*x)),
                    Val::Bool(x) => Term::from_field_bool(field, *x),
                    Val::Bytes(x) => Term::from_field_bytes(field, x),
                    Val::Ip(x) => Term::from_field_ip_addr(field, x.parse::<std::net::Ipv6Addr>().unwrap()),
                    _ => continue,
                };
                terms.entry(t.serialized_value_bytes().to_vec()).or_default().push(0);
                ntok += 1;
            }
        }
    }
    (terms, ntok)
}

fn json_terms(
    field: Field,
    v: &Value,
    path: &mut Vec<String>,
    an: &mut TextAnalyzer,
    per_path: &mut BTreeMap<String, PosState>,
    out: &mut BTreeMap<Vec<u8>, Vec<u32>>,
) {
    let path_str = path.join(".");
    let mk = || Term::from_field_json_path(field, &path_str, false);
    match v {
        Value::Null => {}
        Value::Bool(b) => {
            let mut t = mk();
            t.append_type_and_fast_value(*b);
            out.entry(t.serialized_value_bytes().to_vec()).or_default().push(u32::MAX);
        }
        Value::Number(n) => {
            let mut t = mk();
            if let Some(i) = n.as_i64() {
                t.append_type_and_fast_value(i);
            } else if let Some(u) = n.as_u64() {
                t.append_type_and_fast_value(u);
            } else {
                t.append_type_and_fast_value(n.as_f64().unwrap());
            }
            // u32::MAX marks a position-less occurrence (numeric / bool JSON terms carry neither tf nor positions)
            out.entry(t.serialized_value_bytes().to_vec()).or_default().push(u32::MAX);
        }
        Value::String(s) => {
            let st = per_path.entry(path_str.clone()).or_default();
            let mut toks = vec![];
            let mut ts = an.token_stream(s);
            index_text_model(&mut ts, st, &mut toks);
            for (tok, pos) in toks {
                let mut t = mk();
                t.append_type_and_str(std::str::from_utf8(&tok).unwrap());
                out.entry(t.serialized_value_bytes().to_vec()).or_default().push(pos);
            }
        }
        Value::Array(a) => {
            for x in a {
                json_terms(field, x, path, an, per_path, out);
            }
        }
        Value::Object(o) => {
            for (k, x) in o {
                path.push(k.clone());
                json_terms(field, x, path, an, per_path, out);
                path.pop();
            }
        }
    }
}

/// expected FieldDump of `fname` for the documents of one segment (in doc-id order)
pub fn model_field(index: &Index, fname: &str, docs: &[MDoc]) -> FieldDump {
    let schema = index.schema();
    let field = schema.get_field(fname).unwrap();
    let entry = schema.get_field_entry(field);
    let record = entry.field_type().get_index_record_option();
    let mut analyzers = BTreeMap::new();
    let mut all: BTreeMap<Vec<u8>, Vec<PostingEntry>> = BTreeMap::new();
    let mut total = 0u64;
    let mut norms = vec![];
    for (doc_id, d) in docs.iter().enumerate() {
        let (terms, ntok) = doc_terms(index, &schema, fname, d, &mut analyzers);
        total += ntok as u64;
        norms.push(FieldNormReader::id_to_fieldnorm(FieldNormReader::fieldnorm_to_id(ntok)));
        for (t, mut pos) in terms {
            pos.sort();
            if pos.contains(&u32::MAX) {
                all.entry(t).or_default().push((doc_id as u32, 1, vec![]));
                continue;
            }
            let tf = pos.len() as u32;
            let with_pos = record.map(|r| r.has_positions()).unwrap_or(false);
            all.entry(t).or_default().push((doc_id as u32, tf, if with_pos { pos } else { vec![] }));
        }
    }
    let terms: Vec<(Vec<u8>, Vec<PostingEntry>)> = all.into_iter().collect();
    FieldDump {
        doc_freqs: terms.iter().map(|t| t.1.len() as u32).collect(),
        terms,
        total_num_tokens: total,
        fieldnorms: if entry.has_fieldnorms() { Some(norms) } else { None },
        record,
    }
}

fn hexs(b: &[u8]) -> String {
    if b.len() > 20 {
        format!("{}..[{}B]", String::from_utf8_lossy(&b[..12]), b.len())
    } else {
        String::from_utf8_lossy(b).to_string()
    }
}

/// compare dump with model for one field
pub fn compare_field(fname: &str, got: &FieldDump, want: &FieldDump, is_text: bool) -> Result<(), (String, String)> {
    let gkeys: Vec<&Vec<u8>> = got.terms.iter().map(|t| &t.0).collect();
    let wkeys: Vec<&Vec<u8>> = want.terms.iter().map(|t| &t.0).collect();
    if gkeys.windows(2).any(|w| w[0] >= w[1]) {
        return Err(("terms_not_in_byte_order".into(), format!("field {fname}: dictionary keys are not strictly increasing")));
    }
    if gkeys != wkeys {
        let missing: Vec<String> = wkeys.iter().filter(|k| !gkeys.contains(k)).take(3).map(|k| hexs(k)).collect();
        let extra: Vec<String> = gkeys.iter().filter(|k| !wkeys.contains(k)).take(3).map(|k| hexs(k)).collect();
        return Err(("term_set_differs".into(), format!("field {fname}: {} terms in the dictionary, {} expected; missing {missing:?} unexpected {extra:?}", gkeys.len(), wkeys.len())));
    }
    let with_freq = want.record.map(|r| r.has_freq()).unwrap_or(false);
    for (i, ((k, gl), (_, wl))) in got.terms.iter().zip(want.terms.iter()).enumerate() {
        let gd: Vec<u32> = gl.iter().map(|x| x.0).collect();
        let wd: Vec<u32> = wl.iter().map(|x| x.0).collect();
        if gd != wd {
            let first = gd.iter().zip(wd.iter()).position(|(a, b)| a != b).unwrap_or(gd.len().min(wd.len()));
            return Err(("posting_docs_differ".into(), format!("field {fname} term {:?}: posting list has {} docs, expected {}; first difference at index {first}: {:?} vs {:?}", hexs(k), gd.len(), wd.len(), gd.get(first), wd.get(first))));
        }
        if got.doc_freqs[i] as usize != wl.len() {
            return Err(("doc_freq_differs".into(), format!("field {fname} term {:?}: doc_freq {} but {} documents contain it", hexs(k), got.doc_freqs[i], wl.len())));
        }
        if with_freq {
            for (g, w) in gl.iter().zip(wl.iter()) {
                if g.1 != w.1 {
                    return Err(("term_freq_differs".into(), format!("field {fname} term {:?} doc {}: term frequency {} expected {}", hexs(k), g.0, g.1, w.1)));
                }
                if g.2 != w.2 {
                    return Err(("positions_differ".into(), format!("field {fname} term {:?} doc {}: positions {:?} expected {:?}", hexs(k), g.0, &g.2[..g.2.len().min(8)], &w.2[..w.2.len().min(8)])));
                }
            }
        }
    }
    if is_text {
        if got.total_num_tokens != want.total_num_tokens {
            return Err(("total_num_tokens_differs".into(), format!("field {fname}: total_num_tokens {} expected {}", got.total_num_tokens, want.total_num_tokens)));
        }
        if got.fieldnorms != want.fieldnorms {
            let (g, w) = (got.fieldnorms.clone().unwrap_or_default(), want.fieldnorms.clone().unwrap_or_default());
            let first = g.iter().zip(w.iter()).position(|(a, b)| a != b);
            return Err(("fieldnorms_differ".into(), format!("field {fname}: field norms differ (present {} / expected present {}), first difference at doc {first:?}: {:?} vs {:?}", got.fieldnorms.is_some(), want.fieldnorms.is_some(), first.map(|i| g[i]), first.map(|i| w[i]))));
        }
    }
    Ok(())
}

/// seek-based and block-based reading of every posting list must agree with the advance-based dump
pub fn check_reading_modes(index: &Index, fname: &str, seg: usize, dump: &FieldDump, st: &mut Stats) -> Result<(), (String, String)> {
    let searcher = index.reader().unwrap().searcher();
    let reader = searcher.segment_reader(seg as u32);
    let schema = index.schema();
    let field = schema.get_field(fname).unwrap();
    let inv = reader.inverted_index(field).map_err(|e| ("machinery".to_string(), format!("{e:?}")))?;
    let opt = dump.record.unwrap_or(IndexRecordOption::Basic);
    let mut stream = inv.terms().stream().unwrap();
    let mut ti_list = vec![];
    while stream.advance() {
        ti_list.push(stream.value().clone());
    }
    let mut prev: Option<(tantivy::postings::TermInfo, IndexRecordOption)> = None;
    for (k, ((term, list), ti)) in dump.terms.iter().zip(ti_list.iter()).enumerate() {
        if list.len() > 3000 && k % 7 != 0 {
            continue;
        }
        st.count("posting_lists_reread");
        let is_json = matches!(schema.get_field_entry(field).field_type(), FieldType::JsonObject(_));
        let json_text_term = term.iter().position(|b| *b == 0).map(|p| term.get(p + 1) == Some(&b's')).unwrap_or(false);
        let opt = if is_json && !json_text_term { IndexRecordOption::Basic } else { opt };
        // block-wise
        let mut bp = inv.read_block_postings_from_terminfo(ti, opt).map_err(|e| ("machinery".to_string(), format!("{e:?}")))?;
        let mut docs = vec![];
        let mut freqs = vec![];
        let mut guard = 0;
        loop {
            let n = bp.block_len();
            if n == 0 {
                break;
            }
            docs.extend_from_slice(&bp.docs()[..n]);
            if opt.has_freq() {
                freqs.extend_from_slice(&bp.freqs()[..n]);
            }
            bp.advance();
            guard += 1;
            if guard > 1_000_000 {
                return Err(("block_postings_do_not_terminate".into(), format!("field {fname} term {:?}", hexs(term))));
            }
        }
        let want_docs: Vec<u32> = list.iter().map(|x| x.0).collect();
        if docs != want_docs {
            return Err(("block_postings_differ".into(), format!("field {fname} term {:?}: block-wise reading yields {} docs, sequential {}", hexs(term), docs.len(), want_docs.len())));
        }
        if opt.has_freq() && freqs != list.iter().map(|x| x.1).collect::<Vec<_>>() {
            return Err(("block_postings_freqs_differ".into(), format!("field {fname} term {:?}: block-wise term frequencies differ", hexs(term))));
        }
        // every requested record option, below and above what the field was indexed with: the reader hands out
        // min(indexed, requested) - the same documents, the indexed term frequencies whenever both sides have
        // them, the indexed positions whenever both sides have them
        for req in [IndexRecordOption::Basic, IndexRecordOption::WithFreqs, IndexRecordOption::WithFreqsAndPositions] {
            if req == opt {
                continue;
            }
            st.count("requested_option_rereads");
            let mut p = inv.read_postings_from_terminfo(ti, req).map_err(|e| ("machinery".to_string(), format!("{e:?}")))?;
            let mut j = 0usize;
            while p.doc() != TERMINATED {
                if j >= list.len() || p.doc() != list[j].0 {
                    return Err(("postings_differ_by_requested_option".into(), format!("field {fname} (indexed {opt:?}) term {:?}: read with {req:?} yields doc {} at position {j}, expected {:?}", hexs(term), p.doc(), list.get(j).map(|x| x.0))));
                }
                if opt.has_freq() && req.has_freq() && p.term_freq() != list[j].1 {
                    return Err(("postings_freq_differs_by_requested_option".into(), format!("field {fname} (indexed {opt:?}) term {:?}: read with {req:?} doc {} term_freq {} expected {}", hexs(term), p.doc(), p.term_freq(), list[j].1)));
                }
                if opt.has_positions() && req.has_positions() && !ti.positions_range.is_empty() {
                    let mut pos = vec![];
                    p.positions(&mut pos);
                    if pos != list[j].2 {
                        return Err(("postings_positions_differ_by_requested_option".into(), format!("field {fname} term {:?}: read with {req:?} doc {} positions differ", hexs(term), p.doc())));
                    }
                }
                j += 1;
                p.advance();
            }
            if j != list.len() {
                return Err(("postings_differ_by_requested_option".into(), format!("field {fname} (indexed {opt:?}) term {:?}: read with {req:?} yields {j} docs, expected {}", hexs(term), list.len())));
            }
        }
        // a block cursor opened on the previous term and re-targeted (not advanced / advanced by one block /
        // drained) reads this term's list exactly
        if let Some((pti, popt)) = &prev {
            if *popt == opt {
                for state in 0..3u8 {
                    let mut cur = inv.read_block_postings_from_terminfo(pti, opt).map_err(|e| ("machinery".to_string(), format!("{e:?}")))?;
                    match state {
                        1 => {
                            cur.advance();
                        }
                        2 => {
                            let mut g = 0;
                            while cur.block_len() > 0 && g < 1_000_000 {
                                cur.advance();
                                g += 1;
                            }
                        }
                        _ => {}
                    }
                    inv.reset_block_postings_from_terminfo(ti, &mut cur).map_err(|e| ("machinery".to_string(), format!("{e:?}")))?;
                    st.count("block_cursor_reuses");
                    let mut rdocs = vec![];
                    let mut rfreqs = vec![];
                    let mut g = 0;
                    loop {
                        let n = cur.block_len();
                        if n == 0 {
                            break;
                        }
                        rdocs.extend_from_slice(&cur.docs()[..n]);
                        if opt.has_freq() {
                            rfreqs.extend_from_slice(&cur.freqs()[..n]);
                        }
                        cur.advance();
                        g += 1;
                        if g > 1_000_000 {
                            return Err(("block_postings_do_not_terminate".into(), format!("field {fname} term {:?} (re-targeted cursor)", hexs(term))));
                        }
                    }
                    if rdocs != want_docs || (opt.has_freq() && rfreqs != list.iter().map(|x| x.1).collect::<Vec<_>>()) {
                        let first = rdocs.iter().zip(want_docs.iter()).position(|(a, b)| a != b);
                        return Err(("block_postings_differ_after_reset".into(), format!("field {fname} term {:?}: a block cursor of the previous term (state {state}: 0 fresh, 1 advanced one block, 2 drained) re-targeted with reset_block_postings_from_terminfo yields {} docs (first difference at {first:?}: {:?} vs {:?}), the list has {}", hexs(term), rdocs.len(), first.map(|i| rdocs[i]), first.map(|i| want_docs[i]), want_docs.len())));
                    }
                }
            }
        }
        prev = Some((ti.clone(), opt));
        // seeks: to every element, element - 1 and element + 1 (bounded for long lists)
        let idxs: Vec<usize> = if list.len() <= 600 { (0..list.len()).collect() } else { (0..list.len()).filter(|i| i % 128 < 2 || i % 128 > 125 || i % 97 == 0).collect() };
        for &i in &idxs {
            for delta in [-1i64, 0, 1] {
                let target = list[i].0 as i64 + delta;
                if target < 0 {
                    continue;
                }
                let target = target as u32;
                let mut p = inv.read_postings_from_terminfo(ti, opt).map_err(|e| ("machinery".to_string(), format!("{e:?}")))?;
                if p.doc() > target {
                    continue;
                }
                let got = p.seek(target);
                let j = list.partition_point(|x| x.0 < target);
                let want = list.get(j).map(|x| x.0).unwrap_or(TERMINATED);
                if got != want {
                    return Err(("postings_seek_differs".into(), format!("field {fname} term {:?}: seek({target}) = {got}, expected {want}", hexs(term))));
                }
                if got != TERMINATED && opt.has_freq() {
                    if p.term_freq() != list[j].1 {
                        return Err(("postings_seek_freq_differs".into(), format!("field {fname} term {:?}: after seek({target}) term_freq {} expected {}", hexs(term), p.term_freq(), list[j].1)));
                    }
                    if opt.has_positions() && !ti.positions_range.is_empty() {
                        let mut pos = vec![];
                        p.positions(&mut pos);
                        if pos != list[j].2 {
                            return Err(("postings_seek_positions_differ".into(), format!("field {fname} term {:?}: after seek({target}) positions differ", hexs(term))));
                        }
                    }
                }
            }
        }
    }
    Ok(())
}

#[derive(Clone, Debug, Serialize, Deserialize)]
pub struct Case {
    pub cfg: TextCfg,
    pub docs: Vec<MDoc>,
    pub segments: Vec<usize>,
    pub merge: bool,
    pub fields: Vec<String>,
    /// index sorted by the key field `sk` (Some(ascending)); every document then carries a distinct key
    #[serde(default)]
    pub sort: Option<bool>,
}

fn sort_key(d: &MDoc) -> u64 {
    d.iter().find_map(|(f, v)| if f == "sk" { if let Val::U64(x) = v { Some(*x) } else { None } } else { None }).unwrap_or(0)
}

/// documents of one segment in the order the segment must hold them
fn arrange(docs: &[MDoc], sort: Option<bool>) -> Vec<MDoc> {
    let mut v = docs.to_vec();
    match sort {
        Some(true) => v.sort_by_key(sort_key),
        Some(false) => v.sort_by_key(|d| std::cmp::Reverse(sort_key(d))),
        None => {}
    }
    v
}

/// distinct, non-monotone sort keys: residue classes mod 3 first, insertion order inside a class
fn with_sort_keys(docs: &[MDoc]) -> Vec<MDoc> {
    let n = docs.len() as u64;
    docs.iter().enumerate().map(|(i, d)| {
        let mut d = d.clone();
        d.push(("sk".to_string(), Val::U64((i as u64 % 3) * n + i as u64)));
        d
    }).collect()
}

pub fn check_case(c: &Case, st: &mut Stats) -> Option<(String, String)> {
    let index = make_index_sorted(&c.cfg, c.sort);
    index_docs(&index, &c.docs, &c.segments, c.merge);
    let searcher = index.reader().unwrap().searcher();
    let schema = index.schema();
    // segments in the order of their documents
    let seg_docs: Vec<&[MDoc]> = if c.merge || c.segments.len() <= 1 {
        vec![&c.docs[..]]
    } else {
        let mut v = vec![];
        let mut k = 0;
        for &s in &c.segments {
            v.push(&c.docs[k..k + s]);
            k += s;
        }
        v
    };
    let readers = searcher.segment_readers();
    if readers.len() != seg_docs.iter().filter(|d| !d.is_empty()).count() {
        return Some(("segment_count".into(), format!("{} segments, expected {}", readers.len(), seg_docs.len())));
    }
    if c.segments.len() > 1 {
        // segment readers are not listed in creation order, and a merged segment stacks its sources in the
        // order the merge received them: every assignment of source blocks to positions is tried (source
        // order is C04's matter)
        let mut blocks: Vec<&[MDoc]> = vec![];
        let mut k = 0;
        for &s in &c.segments {
            blocks.push(&c.docs[k..k + s]);
            k += s;
        }
        let mut perms: Vec<Vec<usize>> = vec![];
        fn permute(n: usize, cur: &mut Vec<usize>, out: &mut Vec<Vec<usize>>) {
            if cur.len() == n {
                out.push(cur.clone());
                return;
            }
            for i in 0..n {
                if !cur.contains(&i) {
                    cur.push(i);
                    permute(n, cur, out);
                    cur.pop();
                }
            }
        }
        permute(blocks.len(), &mut vec![], &mut perms);
        let mut first_err = None;
        for p in perms {
            // expected documents per reader under this assignment
            let per_reader: Vec<Vec<MDoc>> = if c.merge {
                vec![p.iter().flat_map(|&b| blocks[b].iter().cloned()).collect()]
            } else {
                p.iter().map(|&b| blocks[b].to_vec()).collect()
            };
            let per_reader: Vec<Vec<MDoc>> = per_reader.iter().map(|d| arrange(d, c.sort)).collect();
            if per_reader.iter().zip(readers.iter()).any(|(d, r)| d.len() as u32 != r.max_doc()) {
                continue;
            }
            let mut ok = true;
            'outer: for (ri, docs) in per_reader.iter().enumerate() {
                for fname in &c.fields {
                    let got = match dump_field(&readers[ri], &schema, fname) {
                        Ok(g) => g,
                        Err(e) => return Some(("dump_error".into(), format!("segment {ri} field {fname}: {e}"))),
                    };
                    let want = model_field(&index, fname, docs);
                    let is_text = matches!(schema.get_field_entry(schema.get_field(fname).unwrap()).field_type(), FieldType::Str(_));
                    if let Err((r, w)) = compare_field(fname, &got, &want, is_text) {
                        if std::env::var("VERIF_TRACE").is_ok() {
                            eprintln!("perm {p:?}: {r}: {w}");
                        }
                        if first_err.is_none() {
                            first_err = Some((r, format!("segment {ri}{}: {w}", if c.merge { " (merged)" } else { "" })));
                        }
                        ok = false;
                        break 'outer;
                    }
                }
            }
            if ok {
                for ri in 0..per_reader.len() {
                    for fname in &c.fields {
                        st.count("field_dumps");
                        let got = dump_field(&readers[ri], &schema, fname).unwrap();
                        if let Err((r, w)) = check_reading_modes(&index, fname, ri, &got, st) {
                            return Some((r, format!("segment {ri}: {w}")));
                        }
                    }
                }
                return None;
            }
        }
        return first_err.or(Some(("segment_sizes".into(), "no assignment of source blocks matches the segment sizes".into())));
    }
    for (si, docs) in seg_docs.iter().filter(|d| !d.is_empty()).enumerate() {
        let docs = &arrange(docs, c.sort);
        for fname in &c.fields {
            st.count("field_dumps");
            let got = match dump_field(&readers[si], &schema, fname) {
                Ok(g) => g,
                Err(e) => return Some(("dump_error".into(), format!("segment {si} field {fname}: {e}"))),
            };
            let want = model_field(&index, fname, docs);
            let is_text = matches!(schema.get_field_entry(schema.get_field(fname).unwrap()).field_type(), FieldType::Str(_));
            if let Err((r, w)) = compare_field(fname, &got, &want, is_text) {
                return Some((r, format!("segment {si}{}: {w}", if c.merge { " (merged)" } else { "" })));
            }
            if let Err((r, w)) = check_reading_modes(&index, fname, si, &got, st) {
                return Some((r, format!("segment {si}: {w}")));
            }
        }
    }
    None
}

fn text_doc(vals: &[&str]) -> MDoc {
    vals.iter().map(|v| ("txt".to_string(), Val::Text(v.to_string()))).collect()
}

pub fn tiny_texts() -> Vec<String> {
    crate::qmodel::texts_over(&["a", "b", "c"], 3)
}

fn typed_docs() -> Vec<MDoc> {
    let mut v: Vec<MDoc> = vec![];
    let j = |x: Value| Val::Json(x);
    for i in 0..12u64 {
        let mut d: MDoc = vec![];
        d.push(("u".into(), Val::U64([0, 1, 255, 256, u64::MAX, 1 << 32][i as usize % 6])));
        if i % 3 == 0 {
            d.push(("u".into(), Val::U64(7)));
        }
        d.push(("i".into(), Val::I64([i64::MIN, -1, 0, 1, i64::MAX][i as usize % 5])));
        d.push(("f".into(), Val::F64([-1.5, 0.0, 2.5, f64::MAX, f64::MIN_POSITIVE][i as usize % 5])));
        d.push(("d".into(), Val::Date(1_000_000_000 + (i as i64 % 4) * 86_400)));
        d.push(("b".into(), Val::Bool(i % 2 == 0)));
        d.push(("y".into(), Val::Bytes(vec![(i % 3) as u8; (i % 4) as usize])));
        d.push(("p".into(), Val::Ip(std::net::Ipv6Addr::from(if i % 2 == 0 { 0xffff_0a00_0001 + i as u128 } else { (1u128 << 100) + i as u128 }).to_string())));
        d.push(("c".into(), Val::Facet(["/a", "/a/b", "/a/b/c", "/z"][i as usize % 4].into())));
        if i % 4 == 1 {
            d.push(("c".into(), Val::Facet("/a/x".into())));
        }
        let jt = ["a b", "c"][i as usize % 2];
        d.push(("j1".into(), j(json!({"t": jt, "n": i as i64 - 3, "o": {"t": "b b a", "f": 1.5, "ok": i % 2 == 0}, "arr": ["a", "b a"], "nul": null}))));
        d.push(("j2".into(), j(json!({"t": "c a", "o": {"t": "a"}, "big": 18_000_000_000_000_000_000u64}))));
        d.push(("txt2".into(), Val::Text(["a b c", "b", "", "c c c a"][i as usize % 4].into())));
        if i % 5 == 2 {
            d.push(("txt2".into(), Val::Text("a".into())));
        }
        v.push(d);
    }
    v
}

/// structured posting lists: term `t` in docs k*gap for k < len with tf from the pattern; filler docs between
fn structured_docs(len: usize, gap: usize, tfs: &[usize]) -> Vec<MDoc> {
    let n = (len - 1) * gap + 1;
    (0..n)
        .map(|i| {
            if i % gap == 0 {
                let k = i / gap;
                let tf = tfs[k % tfs.len()];
                let mut s = String::with_capacity(tf * 2 + 4);
                for _ in 0..tf {
                    s.push_str("t ");
                }
                s.push_str(["x", "y y", ""][k % 3]);
                text_doc(&[&s])
            } else {
                text_doc(&["x"])
            }
        })
        .collect()
}

fn long_term_docs() -> Vec<MDoc> {
    // raw-tokenised field: terms of length 0, 1, 255, 256, 65530, 65531 (dropped) and a 300-byte shared prefix family
    let p = "q".repeat(300);
    let mut v = vec![text_doc(&[""]), text_doc(&["z"]), text_doc(&[&"k".repeat(255)]), text_doc(&[&"k".repeat(256)]), text_doc(&[&"m".repeat(65530)]), text_doc(&[&"n".repeat(65531)])];
    for i in 0..40 {
        v.push(text_doc(&[&format!("{p}{:03}", i * 7 % 40)]));
    }
    v
}

pub fn replay(case: &Value) -> Vec<Violation> {
    quiet_panics();
    let c = if let Some(i) = case["case_index"].as_u64() {
        match all_cases(case["thorough"].as_bool().unwrap_or(false)).into_iter().nth(i as usize) {
            Some(c) => c,
            None => return vec![],
        }
    } else {
        let Ok(c) = serde_json::from_value::<Case>(case.clone()) else { return vec![] };
        c
    };
    let mut st = Stats::default();
    match catch_unwind(AssertUnwindSafe(|| check_case(&c, &mut st))) {
        Ok(None) => vec![],
        Ok(Some((r, w))) => vec![Violation::new(&r, w, case.clone())],
        Err(e) => vec![Violation::new("index_panic", panic_message(e), case.clone())],
    }
}

/// the (deterministic) case list of a tier, big cases first
pub fn all_cases(thorough: bool) -> Vec<Case> {
    let mut cases: Vec<Case> = vec![];
    let texts = tiny_texts();
    let cfgs: Vec<TextCfg> = {
        let mut v = vec![];
        for record in 0..3u8 {
            for fieldnorms in [true, false] {
                for tok in ["default", "raw", "whitespace", "ngram12"] {
                    if !thorough && !(tok == "default" || (record == 2 && fieldnorms)) {
                        continue;
                    }
                    v.push(TextCfg { record, fieldnorms, tokenizer: tok.to_string() });
                }
            }
        }
        v
    };
    // family A: multisets of <= 2 (thorough 3) docs, each 1 value, plus two-valued docs
    let maxd = if thorough { 3 } else { 2 };
    let mut corpora: Vec<Vec<MDoc>> = vec![];
    for nd in 1..=maxd {
        for ms in crate::qmodel::multisets(texts.len(), nd) {
            if nd == 3 && ms.iter().any(|&i| texts[i].split(' ').count() > 2) {
                continue;
            }
            if !thorough && nd == 2 && ms.iter().any(|&i| texts[i].split(' ').count() > 2) {
                continue;
            }
            corpora.push(ms.iter().map(|&i| text_doc(&[&texts[i]])).collect());
        }
    }
    // multi-valued documents: every pair of values (position gap)
    for a in texts.iter().filter(|t| t.split(' ').count() <= 2) {
        for b in texts.iter().filter(|t| t.split(' ').count() <= 2) {
            corpora.push(vec![text_doc(&[a, b]), text_doc(&[b])]);
        }
    }
    for cfg in &cfgs {
        for (ci, docs) in corpora.iter().enumerate() {
            let n = docs.len();
            cases.push(Case { cfg: cfg.clone(), docs: docs.clone(), segments: vec![n], merge: false, fields: vec!["txt".into()], sort: None });
            if n >= 2 && (thorough || ci % 5 == 0) {
                cases.push(Case { cfg: cfg.clone(), docs: docs.clone(), segments: vec![1, n - 1], merge: true, fields: vec!["txt".into()], sort: None });
            }
            // sorted index: the segment writer remaps doc ids (asc / desc), a merge interleaves its sources
            if n >= 2 && (thorough || ci % 3 == 0) {
                for asc in [true, false] {
                    cases.push(Case { cfg: cfg.clone(), docs: with_sort_keys(docs), segments: vec![n], merge: false, fields: vec!["txt".into()], sort: Some(asc) });
                    if thorough || ci % 6 == 0 {
                        cases.push(Case { cfg: cfg.clone(), docs: with_sort_keys(docs), segments: vec![1, n - 1], merge: true, fields: vec!["txt".into()], sort: Some(asc) });
                    }
                }
            }
        }
    }
    // family C: typed / facet / json, one segment, two segments, merged
    let typed = typed_docs();
    let all_fields: Vec<String> = ["txt2", "u", "i", "f", "d", "b", "y", "p", "c", "j1", "j2"].iter().map(|s| s.to_string()).collect();
    let cfg0 = TextCfg { record: 2, fieldnorms: true, tokenizer: "default".into() };
    for (segs, merge) in [(vec![12], false), (vec![5, 7], false), (vec![5, 7], true), (vec![4, 4, 4], true)] {
        cases.push(Case { cfg: cfg0.clone(), docs: typed.clone(), segments: segs, merge, fields: all_fields.clone(), sort: None });
    }
    // family B: structured posting lists
    let lens: Vec<usize> = if thorough { vec![1, 127, 128, 129, 255, 256, 257, 384, 5000, 40_000] } else { vec![1, 127, 128, 129, 257, 384] };
    let gaps: Vec<usize> = if thorough { vec![1, 2, 255, 256, 65_535] } else { vec![1, 2, 256] };
    for &len in &lens {
        for &gap in &gaps {
            if (len - 1) * gap > 450_000 {
                continue;
            }
            for tfs in [vec![1usize], vec![1, 2, 127, 128, 129, 300]] {
                if len >= 5000 && tfs.len() > 1 && gap > 2 {
                    continue;
                }
                for record in [1u8, 2] {
                    let cfg = TextCfg { record, fieldnorms: true, tokenizer: "default".into() };
                    let docs = structured_docs(len, gap, &tfs);
                    let n = docs.len();
                    if (len == 129 || len == 257) && gap <= 2 {
                        cases.push(Case { cfg: cfg.clone(), docs: with_sort_keys(&docs), segments: vec![n], merge: false, fields: vec!["txt".into()], sort: Some(tfs.len() > 1) });
                        cases.push(Case { cfg: cfg.clone(), docs: with_sort_keys(&docs), segments: vec![n / 3, n - n / 3], merge: true, fields: vec!["txt".into()], sort: Some(tfs.len() == 1) });
                    }
                    cases.push(Case { cfg, docs, segments: vec![n], merge: false, fields: vec!["txt".into()], sort: None });
                }
            }
        }
    }
    {
        let cfg = TextCfg { record: 2, fieldnorms: true, tokenizer: "raw".into() };
        let docs = long_term_docs();
        let n = docs.len();
        cases.push(Case { cfg: cfg.clone(), docs: docs.clone(), segments: vec![n], merge: false, fields: vec!["txt".into()], sort: None });
        cases.push(Case { cfg, docs, segments: vec![n / 2, n - n / 2], merge: true, fields: vec!["txt".into()], sort: None });
    }
    // big cases first (better load balancing)
    cases.sort_by_key(|c| std::cmp::Reverse(c.docs.len()));
    cases
}

pub fn run(ctx: &Ctx) -> Report {
    quiet_panics();
    let mut rep = Report::new("model_checking");
    let thorough = ctx.tier.is_thorough();
    let cases = all_cases(thorough);
    let (st, done) = par_for(ctx, cases.len(), |i, st| {
        let c = &cases[i];
        st.eval();
        if c.docs.len() >= 2 {
            st.nontrivial(&(i, c.docs.len(), c.cfg.record, c.cfg.fieldnorms, &c.cfg.tokenizer, c.merge));
        }
        if c.merge {
            st.count("merged_cases");
        }
        if i % 701 == 0 || c.fields.len() > 1 && !c.merge && c.segments.len() == 1 {
            let docs_show: Vec<&MDoc> = c.docs.iter().take(2).collect();
            st.sample(json!({"cfg":c.cfg,"docs(first 2)":docs_show,"ndocs":c.docs.len(),"segments":c.segments,"merge":c.merge,"fields":c.fields}));
        }
        let r = catch_unwind(AssertUnwindSafe(|| check_case(c, st)));
        let (rule, what) = match r {
            Ok(None) => return,
            Ok(Some(x)) => x,
            Err(e) => ("index_panic".to_string(), format!("{} [{}]", panic_message(e), last_panic())),
        };
        let small = c.docs.len() <= 50;
        let casej = if small { serde_json::to_value(c).unwrap() } else { json!({"note":"large structured case: regenerated from the tier's case list","case_index":i,"thorough":thorough,"ndocs":c.docs.len(),"cfg":c.cfg}) };
        st.violation(Violation::new(&rule, format!("cfg {:?} {} docs segments {:?} merge {}: {what}", c.cfg, c.docs.len(), c.segments, c.merge), casej));
    });
    rep.set("exhaustive", done == cases.len());
    rep.set("cases", cases.len() as u64);
    rep.set("rule", "family A: every multiset of <= 2 (thorough 3) documents over token sequences of <= 3 over {a,b,c} and every two-valued document, x record option {basic, freqs, positions} x fieldnorms on/off x tokenizer {default, raw, whitespace, ngram(1,2)}, single segment and merged; family B: posting lists of length {1,127,128,129,255,256,257,384,5000,40000} x doc-id gaps {1,2,255,256,65535} x term-frequency patterns crossing the 128-position block; terms of length 0 / 1 / 255 / 256 / 65530 / 65531 and a 300-byte shared-prefix family; family C: u64 / i64 / f64 / date / bool / bytes / ip / facet / two JSON fields (nested paths, arrays, mixed types) in 1-3 segments and merged. Each field dump (terms in byte order, postings, tf, positions, doc_freq, total tokens, field norms) equals the model computed with the index's own analyzer; every posting list is re-read block-wise, by seeks to every element +-1, and with every requested record option below and above the indexed one. Sorted indexes (sort_by_field on a fast key, ascending / descending, distinct non-monotone keys): one third of family A and the 129 / 257-element lists of family B, single segment and merged. Non-trivial: >= 2 documents; distinct by case index");
    for k in ["merged_cases", "posting_lists_reread", "field_dumps"] {
        if st.counters.get(k).copied().unwrap_or(0) == 0 {
            rep.machinery_errors.push(format!("vacuous: {k} = 0"));
        }
    }
    rep.set("states", st.nontrivial.len() as u64);
    rep.set("transitions", st.counters.get("posting_lists_reread").copied().unwrap_or(0) + st.counters.get("field_dumps").copied().unwrap_or(0));
    rep.set("traces_validated_against_impl", st.evaluations);
    rep.assume("tokenizers are black boxes (checked on their own in C19): the model analyses text with the analyzer taken from the index; typed terms are encoded with the public Term constructors");
    rep.assume("documented conventions mirrored by the model: position gap of 1 between the values of a multi-valued text field, tokens longer than 65530 bytes are dropped, dates are indexed with second precision");
    rep.merge_stats(&st);
    rep.violations = st.violations;
    rep.machinery_errors.extend(st.errors);
    rep
}
