//! C08 - fast fields return exactly the values that were indexed (columnar crate directly + via tantivy).
use std::collections::BTreeMap;
use std::net::Ipv6Addr;
use std::panic::{catch_unwind, AssertUnwindSafe};

use serde::{Deserialize, Serialize};
use serde_json::{json, Value};
use tantivy_columnar::{
    merge_columnar, Cardinality, ColumnarReader, ColumnarWriter, DynamicColumn, MergeRowOrder, RowAddr, ShuffleMergeOrder, StackMergeOrder,
};

use crate::common::*;

#[derive(Clone, Copy, Debug, PartialEq, Eq, Serialize, Deserialize, Hash)]
pub enum Ty {
    U64,
    I64,
    F64,
    Bool,
    Date,
    Ip,
    Bytes,
    Str,
}

#[derive(Clone, Copy, Debug, PartialEq, Eq, Serialize, Deserialize, Hash)]
pub enum Presence {
    All,
    None,
    Every(u32),
    FirstHalf,
    LastOnly,
    /// first K rows only
    FirstK(u32),
    /// 0..=3 values per row by pattern (multi-valued)
    Multi,
}

#[derive(Clone, Copy, Debug, PartialEq, Eq, Serialize, Deserialize, Hash)]
pub enum ValFn {
    Constant,
    Linear,
    LinearOutlier,
    TwoLevel,
    Lcg,
    Gcd,
    Extremes,
    /// values in [1e3, 1e9] packed on <= 32 bits with gcd 1000
    Wide32,
}

#[derive(Clone, Debug, PartialEq, Serialize, Deserialize, Hash, Eq)]
pub struct Spec {
    pub n: u32,
    pub presence: Presence,
    pub valfn: ValFn,
    pub ty: Ty,
}

/// canonical value: integers as i128, floats as bit pattern, others as bytes
#[derive(Clone, Debug, PartialEq, PartialOrd)]
pub enum Cv {
    Int(i128),
    F(f64),
    B(Vec<u8>),
}

fn lcg(i: u64) -> u64 {
    let mut x = i.wrapping_mul(6364136223846793005).wrapping_add(1442695040888963407);
    x ^= x >> 33;
    x.wrapping_mul(0xff51afd7ed558ccd)
}

fn raw_value(valfn: ValFn, i: u64, k: u64) -> u64 {
    let j = i * 3 + k;
    match valfn {
        ValFn::Constant => 42,
        ValFn::Linear => 1000 + 7 * j,
        ValFn::LinearOutlier => {
            if i == 5 {
                u64::MAX / 3
            } else {
                1000 + 7 * j
            }
        }
        ValFn::TwoLevel => {
            if (j / 100) % 2 == 0 {
                10 + j % 7
            } else {
                1_000_000 + j % 5
            }
        }
        ValFn::Lcg => lcg(j) % 1_000_003,
        ValFn::Gcd => 5000 + 1000 * (lcg(j) % 97),
        ValFn::Extremes => [0u64, u64::MAX, 1, u64::MAX - 1, 1 << 63, (1 << 63) - 1][(j % 6) as usize],
        ValFn::Wide32 => 1000 + 1000 * (lcg(j) % 1_000_000),
    }
}

/// values of row i (possibly several)
fn row_values(spec: &Spec, i: u32) -> Vec<Cv> {
    let count = match spec.presence {
        Presence::All => 1,
        Presence::None => 0,
        Presence::Every(p) => u32::from(i % p == 0),
        Presence::FirstHalf => u32::from(i < spec.n / 2),
        Presence::LastOnly => u32::from(i + 1 == spec.n),
        Presence::FirstK(k) => u32::from(i < k),
        Presence::Multi => [0u32, 1, 3, 2, 1, 0, 2][(i % 7) as usize],
    };
    (0..count as u64)
        .map(|k| {
            let r = raw_value(spec.valfn, i as u64, k);
            match spec.ty {
                Ty::U64 => Cv::Int(r as i128),
                Ty::I64 => Cv::Int((r as i64) as i128),
                Ty::F64 => {
                    let f = match spec.valfn {
                        ValFn::Extremes => [0.0f64, -0.0, f64::INFINITY, f64::NEG_INFINITY, f64::MIN_POSITIVE / 2.0, f64::MAX][(r % 6) as usize],
                        _ => (r % 1_000_000) as f64 * 0.25 - 1000.0,
                    };
                    Cv::F(f)
                }
                Ty::Bool => Cv::Int((r % 2) as i128),
                Ty::Date => Cv::Int(((r % (1 << 40)) as i64 * 1_000_000) as i128),
                Ty::Ip => {
                    let v: u128 = match spec.valfn {
                        ValFn::Extremes => [0u128, u128::MAX, 0xffff_0000_0000u128 + (r as u128 % 1000), 1u128 << 100][(r % 4) as usize],
                        _ => 0xffff_0000_0000u128 + (r as u128 % 100_000),
                    };
                    Cv::B(v.to_be_bytes().to_vec())
                }
                Ty::Bytes => Cv::B(format!("b{:05}", r % 1000).into_bytes()),
                Ty::Str => Cv::B(format!("s{:04}", r % 500).into_bytes()),
            }
        })
        .collect()
}

pub fn model_of(spec: &Spec) -> Vec<Vec<Cv>> {
    (0..spec.n).map(|i| row_values(spec, i)).collect()
}

fn record(w: &mut ColumnarWriter, name: &str, row: u32, ty: Ty, v: &Cv) {
    match (ty, v) {
        (Ty::U64, Cv::Int(x)) => w.record_numerical(row, name, *x as u64),
        (Ty::I64, Cv::Int(x)) => w.record_numerical(row, name, *x as i64),
        (Ty::F64, Cv::F(x)) => w.record_numerical(row, name, *x),
        (Ty::Bool, Cv::Int(x)) => w.record_bool(row, name, *x != 0),
        (Ty::Date, Cv::Int(x)) => w.record_datetime(row, name, tantivy_columnar::DateTime::from_timestamp_nanos(*x as i64)),
        (Ty::Ip, Cv::B(b)) => w.record_ip_addr(row, name, Ipv6Addr::from(u128::from_be_bytes(b[..].try_into().unwrap()))),
        (Ty::Bytes, Cv::B(b)) => w.record_bytes(row, name, b),
        (Ty::Str, Cv::B(b)) => w.record_str(row, name, std::str::from_utf8(b).unwrap()),
        _ => panic!("type / value mismatch"),
    }
}

pub fn build_columnar(cols: &[(&str, &Spec)], n: u32) -> ColumnarReader {
    let mut w = ColumnarWriter::default();
    for (name, spec) in cols {
        for i in 0..spec.n.min(n) {
            for v in row_values(spec, i) {
                record(&mut w, name, i, spec.ty, &v);
            }
        }
    }
    let mut buf = vec![];
    w.serialize(n, None, &mut buf).unwrap();
    ColumnarReader::open(buf).unwrap()
}

/// read back all values of a dynamic column in canonical form
fn read_rows(col: &DynamicColumn, n: u32) -> Result<Vec<Vec<Cv>>, String> {
    let mut out = Vec::with_capacity(n as usize);
    for d in 0..n {
        let vals: Vec<Cv> = match col {
            DynamicColumn::Bool(c) => c.values_for_doc(d).map(|v| Cv::Int(v as i128)).collect(),
            DynamicColumn::I64(c) => c.values_for_doc(d).map(|v| Cv::Int(v as i128)).collect(),
            DynamicColumn::U64(c) => c.values_for_doc(d).map(|v| Cv::Int(v as i128)).collect(),
            DynamicColumn::F64(c) => c.values_for_doc(d).map(Cv::F).collect(),
            DynamicColumn::IpAddr(c) => c.values_for_doc(d).map(|v| Cv::B(u128::from(v).to_be_bytes().to_vec())).collect(),
            DynamicColumn::DateTime(c) => c.values_for_doc(d).map(|v| Cv::Int(v.into_timestamp_nanos() as i128)).collect(),
            DynamicColumn::Bytes(c) => {
                let mut v = vec![];
                for ord in c.term_ords(d) {
                    let mut b = vec![];
                    if !c.ord_to_bytes(ord, &mut b).map_err(|e| e.to_string())? {
                        return Err(format!("row {d}: ordinal {ord} has no term"));
                    }
                    v.push(Cv::B(b));
                }
                v
            }
            DynamicColumn::Str(c) => {
                let mut v = vec![];
                for ord in c.term_ords(d) {
                    let mut s = String::new();
                    if !c.ord_to_str(ord, &mut s).map_err(|e| e.to_string())? {
                        return Err(format!("row {d}: ordinal {ord} has no term"));
                    }
                    v.push(Cv::B(s.into_bytes()));
                }
                v
            }
        };
        out.push(vals);
    }
    Ok(out)
}

fn same_value(a: &Cv, b: &Cv) -> bool {
    match (a, b) {
        (Cv::F(x), Cv::F(y)) => x.to_bits() == y.to_bits() || (x == y && *x != 0.0),
        // numeric coercion between columns of different numeric types
        (Cv::Int(x), Cv::F(y)) | (Cv::F(y), Cv::Int(x)) => (*x as f64) == *y,
        _ => a == b,
    }
}

fn rows_equal(got: &[Vec<Cv>], want: &[Vec<Cv>]) -> Option<usize> {
    if got.len() != want.len() {
        return Some(got.len().min(want.len()));
    }
    for (i, (g, w)) in got.iter().zip(want.iter()).enumerate() {
        if g.len() != w.len() || !g.iter().zip(w.iter()).all(|(a, b)| same_value(a, b)) {
            return Some(i);
        }
    }
    None
}

fn show_row(r: &[Cv]) -> String {
    let s: Vec<String> = r
        .iter()
        .map(|v| match v {
            Cv::Int(x) => x.to_string(),
            Cv::F(x) => format!("{x:?}"),
            Cv::B(b) => String::from_utf8_lossy(b).to_string(),
        })
        .collect();
    format!("[{}]", s.join(","))
}

/// checks of one column against the model rows
fn check_column(col: &DynamicColumn, want: &[Vec<Cv>], n: u32, st: &mut Stats) -> Result<(), (String, String)> {
    let got = read_rows(col, n).map_err(|e| ("column_read_error".to_string(), e))?;
    if let Some(i) = rows_equal(&got, want) {
        return Err((
            "column_values_differ".into(),
            format!("row {i}: column returns {} but {} was added", got.get(i).map(|r| show_row(r)).unwrap_or_default(), want.get(i).map(|r| show_row(r)).unwrap_or_default()),
        ));
    }
    // cardinality consistency
    let card = col.get_cardinality();
    let maxv = want.iter().map(|r| r.len()).max().unwrap_or(0);
    let minv = want.iter().map(|r| r.len()).min().unwrap_or(0);
    let ok = match card {
        Cardinality::Full => maxv <= 1 && (minv == 1 || want.is_empty()),
        Cardinality::Optional => maxv <= 1,
        Cardinality::Multivalued => true,
    };
    if !ok {
        return Err(("cardinality_inconsistent".into(), format!("cardinality {card:?} but rows hold between {minv} and {maxv} values")));
    }
    if col.num_values() as usize != want.iter().map(|r| r.len()).sum::<usize>() {
        return Err(("num_values_differs".into(), format!("num_values {} but {} values were added", col.num_values(), want.iter().map(|r| r.len()).sum::<usize>())));
    }
    macro_rules! numeric_checks {
        ($c:expr, $conv:expr, $back:expr) => {{
            let c = $c;
            if c.num_docs() != n {
                return Err(("num_docs_differs".into(), format!("column num_docs {} expected {n}", c.num_docs())));
            }
            let all: Vec<Cv> = want.iter().flatten().cloned().collect();
            if !all.is_empty() {
                let (mn, mx) = ($conv(c.min_value()), $conv(c.max_value()));
                for v in &all {
                    if !(mn <= *v && *v <= mx) && !matches!(v, Cv::F(f) if f.is_nan()) {
                        return Err(("min_max_do_not_bound".into(), format!("value {} outside reported [min, max] = [{}, {}]", show_row(&[v.clone()]), show_row(&[mn.clone()]), show_row(&[mx.clone()]))));
                    }
                }
            }
            for (i, r) in want.iter().enumerate().take(2000) {
                let f = c.first(i as u32).map(|v| $conv(v));
                if f.as_ref().map(|x| same_value(x, &r[0])) != r.first().map(|_| true) {
                    return Err(("first_differs".into(), format!("row {i}: first() = {f:?}, expected {:?}", r.first())));
                }
            }
            // value-range lookups
            let mut sorted: Vec<Cv> = all.clone();
            sorted.sort_by(|a, b| a.partial_cmp(b).unwrap());
            sorted.dedup();
            let mut bounds: Vec<Cv> = vec![];
            if !sorted.is_empty() {
                for idx in [0, sorted.len() / 3, sorted.len() / 2, sorted.len() - 1] {
                    bounds.push(sorted[idx].clone());
                }
            }
            let mut ranges: Vec<(Cv, Cv)> = vec![];
            for a in &bounds {
                for b in &bounds {
                    ranges.push((a.clone(), b.clone()));
                }
            }
            for (lo, hi) in ranges {
                for (dlo, dhi) in [(0i128, 0i128), (1, 0), (0, -1), (-1, 1), (0, 5_000_000_000), (0, i64::MAX as i128), (-5_000_000_000, 0)] {
                    let shift = |v: &Cv, d: i128| -> Option<Cv> {
                        match v {
                            Cv::Int(x) => Some(Cv::Int(x + d)),
                            Cv::F(x) => Some(Cv::F(x + d as f64)),
                            _ => None,
                        }
                    };
                    let (Some(lo2), Some(hi2)) = (shift(&lo, dlo), shift(&hi, dhi)) else { continue };
                    let (Some(tlo), Some(thi)) = ($back(&lo2), $back(&hi2)) else { continue };
                    st.count("range_lookups");
                    let mut docs = vec![];
                    c.get_docids_for_value_range(tlo..=thi, 0..n, &mut docs);
                    let (clo, chi) = ($conv(tlo), $conv(thi));
                    let mut wantd: Vec<u32> = vec![];
                    let mut optional: Vec<u32> = vec![];
                    // -0.0 vs +0.0: IEEE comparison puts -0.0 inside [0.0, 0.0], the total order of the
                    // monotonic mapping does not; rows whose membership depends on that are optional
                    let tot = |v: &Cv| -> Option<i64> {
                        if let Cv::F(f) = v {
                            let b = f.to_bits() as i64;
                            Some(if b < 0 { !b ^ i64::MIN } else { b })
                        } else {
                            None
                        }
                    };
                    for (i, r) in want.iter().enumerate() {
                        for v in r {
                            let ieee = clo <= *v && *v <= chi;
                            let total = match (tot(&clo), tot(v), tot(&chi)) {
                                (Some(a), Some(x), Some(b)) => a <= x && x <= b,
                                _ => ieee,
                            };
                            if ieee && total {
                                wantd.push(i as u32);
                            } else if ieee || total {
                                optional.push(i as u32);
                            }
                        }
                    }
                    // a multi-valued row may be reported once per matching value or once: compare as sets
                    let mut gs = docs.clone();
                    gs.dedup();
                    wantd.dedup();
                    if !optional.is_empty() {
                        gs.retain(|d| !optional.contains(d) || wantd.contains(d));
                    }
                    if gs != wantd {
                        let first = gs.iter().zip(wantd.iter()).position(|(a, b)| a != b).unwrap_or(gs.len().min(wantd.len()));
                        return Err((
                            "value_range_lookup_differs".into(),
                            format!("get_docids_for_value_range({} ..= {}) returns {} docs, {} hold a value in the range; first difference at index {first}: {:?} vs {:?}", show_row(&[clo.clone()]), show_row(&[chi.clone()]), gs.len(), wantd.len(), gs.get(first), wantd.get(first)),
                        ));
                    }
                    if !wantd.is_empty() && wantd.len() < want.len() {
                        st.count("range_lookups_nontrivial");
                    }
                }
            }
        }};
    }
    match col {
        DynamicColumn::U64(c) => numeric_checks!(c, |v: u64| Cv::Int(v as i128), |v: &Cv| match v {
            Cv::Int(x) if *x >= 0 && *x <= u64::MAX as i128 => Some(*x as u64),
            _ => None,
        }),
        DynamicColumn::I64(c) => numeric_checks!(c, |v: i64| Cv::Int(v as i128), |v: &Cv| match v {
            Cv::Int(x) if *x >= i64::MIN as i128 && *x <= i64::MAX as i128 => Some(*x as i64),
            _ => None,
        }),
        DynamicColumn::F64(c) => numeric_checks!(c, |v: f64| Cv::F(v), |v: &Cv| match v {
            Cv::F(x) if !x.is_nan() => Some(*x),
            _ => None,
        }),
        DynamicColumn::DateTime(c) => numeric_checks!(c, |v: tantivy_columnar::DateTime| Cv::Int(v.into_timestamp_nanos() as i128), |v: &Cv| match v {
            Cv::Int(x) if *x >= i64::MIN as i128 && *x <= i64::MAX as i128 => Some(tantivy_columnar::DateTime::from_timestamp_nanos(*x as i64)),
            _ => None,
        }),
        DynamicColumn::IpAddr(c) => {
            // range lookups on the compact-space codec
            let all: Vec<u128> = want.iter().flatten().map(|v| if let Cv::B(b) = v { u128::from_be_bytes(b[..].try_into().unwrap()) } else { 0 }).collect();
            if !all.is_empty() {
                let mut s = all.clone();
                s.sort();
                s.dedup();
                for &lo in [s[0], s[s.len() / 2]].iter() {
                    for &hi in [s[s.len() / 2], s[s.len() - 1], u128::MAX].iter() {
                        if lo > hi {
                            continue;
                        }
                        st.count("range_lookups");
                        let mut docs = vec![];
                        c.get_docids_for_value_range(Ipv6Addr::from(lo)..=Ipv6Addr::from(hi), 0..n, &mut docs);
                        docs.dedup();
                        let mut wantd: Vec<u32> = vec![];
                        for (i, r) in want.iter().enumerate() {
                            if r.iter().any(|v| if let Cv::B(b) = v { let x = u128::from_be_bytes(b[..].try_into().unwrap()); lo <= x && x <= hi } else { false }) {
                                wantd.push(i as u32);
                            }
                        }
                        if docs != wantd {
                            return Err(("value_range_lookup_differs".into(), format!("ip range lookup returns {} docs, expected {}", docs.len(), wantd.len())));
                        }
                    }
                }
            }
        }
        DynamicColumn::Str(c) => {
            let mut distinct: Vec<&Vec<u8>> = want.iter().flatten().filter_map(|v| if let Cv::B(b) = v { Some(b) } else { None }).collect();
            distinct.sort();
            distinct.dedup();
            if c.num_terms() != distinct.len() {
                return Err(("dictionary_size_differs".into(), format!("dictionary holds {} terms, {} distinct values were added", c.num_terms(), distinct.len())));
            }
            for (ord, t) in distinct.iter().enumerate() {
                let mut s = String::new();
                c.ord_to_str(ord as u64, &mut s).map_err(|e| ("column_read_error".to_string(), e.to_string()))?;
                if s.as_bytes() != t.as_slice() {
                    return Err(("dictionary_order_differs".into(), format!("ordinal {ord} is {s:?}, expected {:?}", String::from_utf8_lossy(t))));
                }
            }
        }
        DynamicColumn::Bytes(c) => {
            let mut distinct: Vec<&Vec<u8>> = want.iter().flatten().filter_map(|v| if let Cv::B(b) = v { Some(b) } else { None }).collect();
            distinct.sort();
            distinct.dedup();
            if c.num_terms() != distinct.len() {
                return Err(("dictionary_size_differs".into(), format!("dictionary holds {} terms, {} distinct values were added", c.num_terms(), distinct.len())));
            }
        }
        DynamicColumn::Bool(_) => {}
    }
    Ok(())
}


/// Batch accessors and row-range restricted lookups of one typed column against its own per-row reading
/// (which `check_column` compares with the model): `first_vals` over batches of every length 1..=9 and 63..=66
/// (contiguous from three offsets, and strided), `get_vals` / `get_vals_opt` / `get_range` on the value store of
/// a full column, and value-range lookups restricted to sub-ranges of the rows.
fn check_batches_and_row_ranges<T>(c: &tantivy_columnar::Column<T>, n: u32, what: &str, st: &mut Stats) -> Result<(), (String, String)>
where T: Copy + PartialOrd + std::fmt::Debug + Send + Sync + 'static {
    let same = |a: &T, b: &T| a == b || (a != a && b != b);
    let rows: Vec<Vec<T>> = (0..n).map(|d| c.values_for_doc(d).collect()).collect();
    let card = c.get_cardinality();
    let lens: Vec<usize> = (1..=9).chain(63..=66).collect();
    for &start in &[0u32, 1, n / 2] {
        for &len in &lens {
            for stride in [1u32, 3] {
                let docids: Vec<u32> = (0..len as u32).map(|k| start + k * stride).filter(|d| *d < n).collect();
                if docids.is_empty() {
                    continue;
                }
                st.count("batch_reads");
                let mut out: Vec<Option<T>> = vec![None; docids.len()];
                c.first_vals(&docids, &mut out);
                for (k, d) in docids.iter().enumerate() {
                    let want = rows[*d as usize].first();
                    let ok = match (&out[k], want) {
                        (Some(a), Some(b)) => same(a, b),
                        (None, None) => true,
                        _ => false,
                    };
                    if !ok {
                        return Err(("batch_read_differs".into(), format!("{what}: first_vals over {} docs from {start} step {stride}: entry {k} (doc {d}) = {:?}, values_for_doc gives {:?}", docids.len(), out[k], want)));
                    }
                }
                if card == Cardinality::Full {
                    let mut o2: Vec<Option<T>> = vec![None; docids.len()];
                    c.values.get_vals_opt(&docids, &mut o2);
                    let mut o3: Vec<T> = vec![rows[0][0]; docids.len()];
                    c.values.get_vals(&docids, &mut o3);
                    for (k, d) in docids.iter().enumerate() {
                        let want = &rows[*d as usize][0];
                        if !o2[k].as_ref().map(|x| same(x, want)).unwrap_or(false) || !same(&o3[k], want) {
                            return Err(("batch_read_differs".into(), format!("{what}: get_vals / get_vals_opt over {} rows from {start} step {stride}: entry {k} (row {d}) = {:?} / {:?}, get_val gives {:?}", docids.len(), o3[k], o2[k], want)));
                        }
                    }
                    if stride == 1 {
                        let mut o4: Vec<T> = vec![rows[0][0]; docids.len()];
                        c.values.get_range(start as u64, &mut o4);
                        for (k, d) in docids.iter().enumerate() {
                            if !same(&o4[k], &rows[*d as usize][0]) {
                                return Err(("batch_read_differs".into(), format!("{what}: get_range({start}, {} rows): entry {k} = {:?}, get_val gives {:?}", docids.len(), o4[k], rows[*d as usize][0])));
                            }
                        }
                    }
                }
            }
        }
    }
    // value ranges from the column's own values
    let mut vals: Vec<T> = rows.iter().flatten().copied().filter(|v| v == v).collect();
    vals.sort_by(|a, b| a.partial_cmp(b).unwrap());
    if vals.is_empty() {
        return Ok(());
    }
    let (lo, med, hi) = (vals[0], vals[vals.len() / 2], vals[vals.len() - 1]);
    let mut doc_ranges: Vec<(u32, u32)> = vec![(0, n), (1, n.saturating_sub(1)), (n / 3, 2 * n / 3), (n / 2, n), (0, n / 2)];
    // row ranges stay inside the column: the bit-packed codec asserts "Requested index is out of bounds" for a
    // range past the last row, so that is a precondition of the lookup and not a behaviour to compare
    for (vlo, vhi) in [(lo, hi), (med, hi), (lo, med), (med, med)] {
        for &(dlo, dhi) in &doc_ranges {
            if dlo > dhi {
                continue;
            }
            st.count("row_range_lookups");
            let mut got = vec![];
            c.get_docids_for_value_range(vlo..=vhi, dlo..dhi, &mut got);
            got.dedup();
            // -0.0 vs +0.0: equal for IEEE comparison, distinct in the total order of the monotonic mapping; a
            // row that is in the range only through such a value may be reported either way
            let ambiguous = |v: &T| (*v == vlo && format!("{v:?}") != format!("{vlo:?}")) || (*v == vhi && format!("{v:?}") != format!("{vhi:?}"));
            let sure = |d: &u32| rows[*d as usize].iter().any(|v| vlo <= *v && *v <= vhi && !ambiguous(v));
            let maybe = |d: &u32| rows[*d as usize].iter().any(|v| vlo <= *v && *v <= vhi);
            got.retain(|d| (*d as usize) >= rows.len() || sure(d) || !maybe(d));
            let want: Vec<u32> = (dlo..dhi.min(n)).filter(sure).collect();
            if got != want {
                let first = got.iter().zip(want.iter()).position(|(a, b)| a != b).unwrap_or(got.len().min(want.len()));
                return Err(("row_range_lookup_differs".into(), format!("{what} ({n} rows, {card:?}): get_docids_for_value_range({vlo:?} ..= {vhi:?}, rows {dlo}..{dhi}) returns {} docs, a scan finds {}; first difference at index {first}: {:?} vs {:?}", got.len(), want.len(), got.get(first), want.get(first))));
            }
        }
    }
    Ok(())
}

/// The u64 view of a column (`open_u64_lenient`: monotonic mapping of numbers, compact space of ip addresses,
/// term ordinals of strings and bytes) orders the rows exactly like the typed values, and answers batch reads
/// and row-range restricted lookups like a scan of itself.
fn check_u64_view(c64: &tantivy_columnar::Column<u64>, want: &[Vec<Cv>], n: u32, st: &mut Stats) -> Result<(), (String, String)> {
    st.count("u64_views");
    let codes: Vec<Vec<u64>> = (0..n).map(|d| c64.values_for_doc(d).collect()).collect();
    for (i, r) in want.iter().enumerate() {
        if codes[i].len() != r.len() {
            return Err(("u64_view_differs".into(), format!("row {i}: the u64 view holds {} values, the typed column {}", codes[i].len(), r.len())));
        }
    }
    let flat: Vec<(&Cv, u64)> = want.iter().zip(codes.iter()).flat_map(|(r, c)| r.iter().zip(c.iter().copied())).collect();
    for w in flat.windows(2) {
        let ((a, ca), (b, cb)) = (w[0], w[1]);
        let Some(ord) = a.partial_cmp(b) else { continue };
        if matches!((a, b), (Cv::F(x), Cv::F(y)) if x == y && x.to_bits() != y.to_bits()) {
            continue;
        }
        if ord != ca.cmp(&cb) {
            return Err(("u64_view_order_differs".into(), format!("values {} and {} compare {ord:?} but their u64 codes {ca} and {cb} compare {:?}", show_row(&[a.clone()]), show_row(&[b.clone()]), ca.cmp(&cb))));
        }
    }
    check_batches_and_row_ranges(c64, n, "u64 view", st)
}

fn open_col(r: &ColumnarReader, name: &str) -> Result<Option<DynamicColumn>, String> {
    let hs = r.read_columns(name).map_err(|e| e.to_string())?;
    match hs.len() {
        0 => Ok(None),
        1 => hs[0].open().map(Some).map_err(|e| e.to_string()),
        k => Err(format!("{k} columns named {name}")),
    }
}

pub fn check_spec(spec: &Spec, st: &mut Stats) -> Option<(String, String)> {
    let want = model_of(spec);
    let r = build_columnar(&[("c", spec)], spec.n);
    if r.num_docs() != spec.n {
        return Some(("num_docs_differs".into(), format!("columnar num_docs {} expected {}", r.num_docs(), spec.n)));
    }
    let col = match open_col(&r, "c") {
        Ok(c) => c,
        Err(e) => return Some(("column_open_error".into(), e)),
    };
    match col {
        None => {
            if want.iter().any(|r| !r.is_empty()) {
                return Some(("column_missing".into(), "the column does not exist although values were added".into()));
            }
            None
        }
        Some(c) => {
            st.count(&format!("cardinality.{:?}", c.get_cardinality()));
            if let Err(e) = check_column(&c, &want, spec.n, st) {
                return Some(e);
            }
            let typed = match &c {
                DynamicColumn::Bool(c) => check_batches_and_row_ranges(c, spec.n, "bool column", st),
                DynamicColumn::I64(c) => check_batches_and_row_ranges(c, spec.n, "i64 column", st),
                DynamicColumn::U64(c) => check_batches_and_row_ranges(c, spec.n, "u64 column", st),
                DynamicColumn::F64(c) => check_batches_and_row_ranges(c, spec.n, "f64 column", st),
                DynamicColumn::IpAddr(c) => check_batches_and_row_ranges(c, spec.n, "ip column", st),
                DynamicColumn::DateTime(c) => check_batches_and_row_ranges(c, spec.n, "date column", st),
                DynamicColumn::Bytes(_) | DynamicColumn::Str(_) => Ok(()),
            };
            if let Err(e) = typed {
                return Some(e);
            }
            if let Ok(hs) = r.read_columns("c") {
                for h in hs {
                    match h.open_u64_lenient() {
                        Ok(Some(c64)) => {
                            if let Err(e) = check_u64_view(&c64, &want, spec.n, st) {
                                return Some(e);
                            }
                        }
                        Ok(None) => {}
                        Err(e) => return Some(("column_open_error".into(), format!("open_u64_lenient: {e}"))),
                    }
                }
            }
            None
        }
    }
}

#[derive(Clone, Debug, Serialize, Deserialize)]
pub struct MergeCase {
    pub inputs: Vec<Vec<Spec>>, // per input: its columns (named by index c0, c1 ..; a missing index = column absent)
    pub names: Vec<Vec<String>>,
    pub ns: Vec<u32>,
    /// None = stack; Some(list) = shuffle with the given (input, row) order (rows not listed are deleted)
    pub order: Option<Vec<(u32, u32)>>,
}

pub fn check_merge(mc: &MergeCase, st: &mut Stats) -> Option<(String, String)> {
    let readers: Vec<ColumnarReader> = (0..mc.inputs.len())
        .map(|k| {
            let cols: Vec<(&str, &Spec)> = mc.names[k].iter().map(|s| s.as_str()).zip(mc.inputs[k].iter()).collect();
            build_columnar(&cols, mc.ns[k])
        })
        .collect();
    let refs: Vec<&ColumnarReader> = readers.iter().collect();
    let (order, mapping): (MergeRowOrder, Vec<(u32, u32)>) = match &mc.order {
        None => {
            let mut m = vec![];
            for (k, n) in mc.ns.iter().enumerate() {
                for r in 0..*n {
                    m.push((k as u32, r));
                }
            }
            (MergeRowOrder::Stack(StackMergeOrder::stack(&refs)), m)
        }
        Some(o) => {
            let addrs: Vec<RowAddr> = o.iter().map(|(s, r)| RowAddr { segment_ord: *s, row_id: *r }).collect();
            (MergeRowOrder::Shuffled(ShuffleMergeOrder::for_test(&mc.ns, addrs)), o.clone())
        }
    };
    let mut out = vec![];
    if let Err(e) = merge_columnar(&refs, &[], order, &mut out) {
        return Some(("merge_error".into(), e.to_string()));
    }
    let merged = match ColumnarReader::open(out) {
        Ok(m) => m,
        Err(e) => return Some(("merge_output_unreadable".into(), e.to_string())),
    };
    if merged.num_docs() as usize != mapping.len() {
        return Some(("merged_num_docs".into(), format!("merged num_docs {} expected {}", merged.num_docs(), mapping.len())));
    }
    // every column name
    let mut all_names: Vec<&String> = mc.names.iter().flatten().collect();
    all_names.sort();
    all_names.dedup();
    for name in all_names {
        let models: Vec<Option<Vec<Vec<Cv>>>> = (0..mc.inputs.len())
            .map(|k| mc.names[k].iter().position(|x| x == name).map(|p| {
                let mut m = model_of(&mc.inputs[k][p]);
                m.resize(mc.ns[k] as usize, vec![]);
                m
            }))
            .collect();
        let want: Vec<Vec<Cv>> = mapping.iter().map(|(s, r)| models[*s as usize].as_ref().map(|m| m[*r as usize].clone()).unwrap_or_default()).collect();
        let hs = match merged.read_columns(name) {
            Ok(h) => h,
            Err(e) => return Some(("merge_output_unreadable".into(), e.to_string())),
        };
        if hs.is_empty() {
            if want.iter().any(|r| !r.is_empty()) {
                return Some(("merged_column_missing".into(), format!("column {name} is missing from the merge output")));
            }
            continue;
        }
        // several columns may carry the name when types cannot be coerced (e.g. str + numeric): compare per type class
        let mut got_all: Vec<Vec<Cv>> = vec![vec![]; mapping.len()];
        for h in &hs {
            let c = match h.open() {
                Ok(c) => c,
                Err(e) => return Some(("merge_output_unreadable".into(), e.to_string())),
            };
            st.count("merged_columns");
            let rows = match read_rows(&c, mapping.len() as u32) {
                Ok(r) => r,
                Err(e) => return Some(("merged_column_read_error".into(), e)),
            };
            for (i, r) in rows.into_iter().enumerate() {
                got_all[i].extend(r);
            }
        }
        if hs.len() == 1 {
            if let Some(i) = rows_equal(&got_all, &want) {
                return Some((
                    "merged_values_differ".into(),
                    format!("column {name} merged row {i} (from input {:?}): {} expected {}", mapping.get(i), got_all.get(i).map(|r| show_row(r)).unwrap_or_default(), want.get(i).map(|r| show_row(r)).unwrap_or_default()),
                ));
            }
        } else {
            // compare as multisets per row
            for (i, (g, w)) in got_all.iter().zip(want.iter()).enumerate() {
                let mut gg: Vec<String> = g.iter().map(|v| show_row(&[v.clone()])).collect();
                let mut ww: Vec<String> = w.iter().map(|v| show_row(&[v.clone()])).collect();
                gg.sort();
                ww.sort();
                if gg != ww {
                    return Some(("merged_values_differ".into(), format!("column {name} (split over {} typed columns) merged row {i}: {gg:?} expected {ww:?}", hs.len())));
                }
            }
        }
    }
    None
}

fn specs(thorough: bool) -> Vec<Spec> {
    let ns: Vec<u32> = if thorough { vec![0, 1, 2, 63, 64, 65, 127, 128, 129, 511, 512, 513, 1025, 4095, 4096, 4097, 5119, 5120, 5121, 10_240, 65_535, 65_536, 65_537, 70_000] } else { vec![0, 1, 2, 63, 64, 65, 511, 512, 513, 1025, 10_240, 65_536, 70_000] };
    let small_pres = vec![Presence::All, Presence::None, Presence::Every(2), Presence::Every(3), Presence::Every(64), Presence::FirstHalf, Presence::LastOnly, Presence::Multi];
    let valfns = [ValFn::Constant, ValFn::Linear, ValFn::LinearOutlier, ValFn::TwoLevel, ValFn::Lcg, ValFn::Gcd, ValFn::Extremes, ValFn::Wide32];
    let tys = [Ty::U64, Ty::I64, Ty::F64, Ty::Bool, Ty::Date, Ty::Ip, Ty::Bytes, Ty::Str];
    let mut v = vec![];
    for &n in &ns {
        for &p in &small_pres {
            for &f in &valfns {
                for &ty in &tys {
                    // (thorough: the full value-function x type product up to 10240 rows)
                    let big = if thorough { n > 10_240 } else { n > 513 };
                    if big {
                        // reduced value set above 513 rows
                        let keep = matches!((f, ty), (ValFn::Linear, Ty::U64) | (ValFn::Lcg, Ty::I64) | (ValFn::Wide32, Ty::U64) | (ValFn::TwoLevel, Ty::Str) | (ValFn::Lcg, Ty::F64) | (ValFn::Extremes, Ty::Ip) | (ValFn::Gcd, Ty::Date));
                        if !keep {
                            continue;
                        }
                        if !thorough && !matches!(ty, Ty::U64 | Ty::I64 | Ty::Str) {
                            continue;
                        }
                    } else if !thorough && !matches!(ty, Ty::U64 | Ty::I64 | Ty::Str | Ty::F64) && n > 65 {
                        continue;
                    }
                    if matches!(ty, Ty::Bool | Ty::Bytes | Ty::Str) && !matches!(f, ValFn::Lcg | ValFn::Constant | ValFn::TwoLevel) {
                        continue;
                    }
                    v.push(Spec { n, presence: p, valfn: f, ty });
                }
            }
        }
        // sparse / dense switch of the optional index: exactly around 5120 non-null rows in one 65536-row block
        if n >= 10_240 {
            for k in [5119u32, 5120, 5121] {
                v.push(Spec { n, presence: Presence::FirstK(k), valfn: ValFn::Linear, ty: Ty::U64 });
                v.push(Spec { n, presence: Presence::FirstK(k), valfn: ValFn::Lcg, ty: Ty::Str });
            }
            if n >= 65_536 {
                v.push(Spec { n, presence: Presence::Every(13_000), valfn: ValFn::Linear, ty: Ty::U64 });
            }
        }
        if n == 10_240 {
            // every 2nd row of 10240 = exactly 5120 non-null rows
            v.push(Spec { n, presence: Presence::Every(2), valfn: ValFn::Lcg, ty: Ty::I64 });
            v.push(Spec { n: 10_238, presence: Presence::Every(2), valfn: ValFn::Lcg, ty: Ty::I64 });
            v.push(Spec { n: 10_242, presence: Presence::Every(2), valfn: ValFn::Lcg, ty: Ty::I64 });
        }
    }
    v
}

fn merge_cases(thorough: bool) -> Vec<MergeCase> {
    let mut v = vec![];
    let sp = |n: u32, p: Presence, f: ValFn, ty: Ty| Spec { n, presence: p, valfn: f, ty };
    let tiny_cols: Vec<Spec> = vec![
        sp(3, Presence::All, ValFn::Linear, Ty::U64),
        sp(3, Presence::Every(2), ValFn::Lcg, Ty::I64),
        sp(3, Presence::Multi, ValFn::Lcg, Ty::Str),
        sp(3, Presence::Multi, ValFn::Linear, Ty::F64),
        sp(3, Presence::LastOnly, ValFn::Constant, Ty::Bool),
        sp(3, Presence::All, ValFn::Extremes, Ty::Ip),
        sp(3, Presence::Every(2), ValFn::TwoLevel, Ty::Bytes),
        sp(3, Presence::All, ValFn::Gcd, Ty::Date),
    ];
    // pairs of inputs with one column named "c" each (same or different type -> coercion / split), all alive subsets
    for a in &tiny_cols {
        for b in &tiny_cols {
            let (na, nb) = (3u32, 2u32);
            let mut b2 = b.clone();
            b2.n = nb;
            // stack
            v.push(MergeCase { inputs: vec![vec![a.clone()], vec![b2.clone()]], names: vec![vec!["c".into()], vec!["c".into()]], ns: vec![na, nb], order: None });
            // shuffles: every subset of alive rows in two interleavings
            let all_rows: Vec<(u32, u32)> = vec![(0, 0), (1, 0), (0, 1), (1, 1), (0, 2)];
            for mask in 0..(1u32 << all_rows.len()) {
                if !thorough && mask % 3 != 1 {
                    continue;
                }
                let rows: Vec<(u32, u32)> = all_rows.iter().enumerate().filter(|(i, _)| mask >> i & 1 == 1).map(|(_, r)| *r).collect();
                v.push(MergeCase { inputs: vec![vec![a.clone()], vec![b2.clone()]], names: vec![vec!["c".into()], vec!["c".into()]], ns: vec![na, nb], order: Some(rows.clone()) });
                if thorough {
                    let mut rev = rows.clone();
                    rev.reverse();
                    v.push(MergeCase { inputs: vec![vec![a.clone()], vec![b2.clone()]], names: vec![vec!["c".into()], vec!["c".into()]], ns: vec![na, nb], order: Some(rev) });
                }
            }
        }
    }
    // differing column sets over three inputs
    for (i, a) in tiny_cols.iter().enumerate() {
        let b = &tiny_cols[(i + 3) % tiny_cols.len()];
        v.push(MergeCase {
            inputs: vec![vec![a.clone()], vec![b.clone()], vec![a.clone(), b.clone()]],
            names: vec![vec!["x".into()], vec!["y".into()], vec!["x".into(), "y".into()]],
            ns: vec![3, 3, 3],
            order: None,
        });
        v.push(MergeCase {
            inputs: vec![vec![a.clone()], vec![b.clone()], vec![a.clone(), b.clone()]],
            names: vec![vec!["x".into()], vec!["y".into()], vec!["x".into(), "y".into()]],
            ns: vec![3, 3, 3],
            order: Some(vec![(2, 2), (0, 0), (1, 1), (2, 0), (0, 2)]),
        });
    }
    // large: stacking across the 65536-row block boundary, sparse + dense blocks, deletions by pattern
    let big = [
        sp(70_000, Presence::FirstK(5121), ValFn::Linear, Ty::U64),
        sp(70_000, Presence::Every(3), ValFn::Lcg, Ty::I64),
        sp(70_000, Presence::Multi, ValFn::TwoLevel, Ty::Str),
        sp(70_000, Presence::Every(13_000), ValFn::Linear, Ty::U64),
    ];
    for a in &big {
        let small = sp(100, Presence::All, a.valfn, a.ty);
        v.push(MergeCase { inputs: vec![vec![small.clone()], vec![a.clone()], vec![small.clone()]], names: vec![vec!["c".into()]; 3], ns: vec![100, 70_000, 100], order: None });
        let rows: Vec<(u32, u32)> = (0..70_000u32).filter(|r| r % 5 != 0).map(|r| (1, r)).chain((0..100).map(|r| (0, r))).collect();
        v.push(MergeCase { inputs: vec![vec![small.clone()], vec![a.clone()]], names: vec![vec!["c".into()]; 2], ns: vec![100, 70_000], order: Some(rows) });
    }
    v
}

pub fn replay(case: &Value) -> Vec<Violation> {
    quiet_panics();
    let mut st = Stats::default();
    let r = catch_unwind(AssertUnwindSafe(|| {
        if case["kind"] == "merge" {
            serde_json::from_value::<MergeCase>(case["case"].clone()).ok().and_then(|mc| check_merge(&mc, &mut st))
        } else if case["kind"] == "tantivy" {
            check_tantivy_family(&mut st)
        } else if case["kind"] == "legacy" {
            check_legacy_merges(&mut st)
        } else if case["kind"] == "merge_index" {
            merge_cases(case["thorough"].as_bool().unwrap_or(false)).into_iter().nth(case["index"].as_u64().unwrap_or(0) as usize).and_then(|mc| check_merge(&mc, &mut st))
        } else {
            serde_json::from_value::<Spec>(case["spec"].clone()).ok().and_then(|s| check_spec(&s, &mut st))
        }
    }));
    match r {
        Ok(None) => vec![],
        Ok(Some((r, w))) => vec![Violation::new(&r, w, case.clone())],
        Err(e) => vec![Violation::new("column_panic", panic_message(e), case.clone())],
    }
}

/// through IndexWriter -> SegmentReader: the typed fast fields of the shared query-model schema
/// all rows of all columns of a columnar, rendered per column name (typed columns of one name concatenated)
fn all_rows(r: &ColumnarReader) -> Result<BTreeMap<String, Vec<Vec<String>>>, String> {
    let n = r.num_docs();
    let mut out: BTreeMap<String, Vec<Vec<String>>> = BTreeMap::new();
    for (name, h) in r.list_columns().map_err(|e| e.to_string())? {
        let c = h.open().map_err(|e| e.to_string())?;
        let rows = read_rows(&c, n)?;
        let e = out.entry(name).or_insert_with(|| vec![vec![]; n as usize]);
        for (i, row) in rows.into_iter().enumerate() {
            e[i].extend(row.iter().map(|v| match v {
                // numeric columns may be coerced to another numeric type by a merge: compare numerically
                Cv::Int(x) => format!("{}", *x as f64),
                Cv::F(x) => format!("{x}"),
                Cv::B(b) => format!("{b:?}"),
            }));
        }
    }
    Ok(out)
}

/// legacy formats: the repository's v1 / v2 sample columnars stacked with each other and with freshly written
/// columnars in every position; every merged row equals the input row it comes from
pub fn check_legacy_merges(st: &mut Stats) -> Option<(String, String)> {
    let dir = "/repo/columnar/compat_tests_data";
    let load = |f: &str| -> Result<ColumnarReader, String> {
        let bytes = std::fs::read(format!("{dir}/{f}")).map_err(|e| format!("{f}: {e}"))?;
        ColumnarReader::open(bytes).map_err(|e| format!("{f}: {e}"))
    };
    let (v1, v2) = match (load("v1.columnar"), load("v2.columnar")) {
        (Ok(a), Ok(b)) => (a, b),
        (a, b) => return Some(("machinery".into(), format!("sample columnars unreadable: {:?} {:?}", a.err(), b.err()))),
    };
    // every column of the legacy files answers value-range lookups like a fresh column with the same rows
    for (fname, r) in [("v1", &v1), ("v2", &v2)] {
        let cols = match r.list_columns() {
            Ok(c) => c,
            Err(e) => return Some(("machinery".into(), e.to_string())),
        };
        for (name, h) in cols {
            let col = match h.open() {
                Ok(c) => c,
                Err(e) => return Some(("column_read_error".into(), format!("{fname} column {name}: {e}"))),
            };
            let rows = match read_rows(&col, r.num_docs()) {
                Ok(x) => x,
                Err(e) => return Some(("column_read_error".into(), format!("{fname} column {name}: {e}"))),
            };
            st.count("legacy_columns");
            if let Err((rule, what)) = check_column(&col, &rows, r.num_docs(), st) {
                return Some((rule, format!("legacy file {fname}.columnar column {name}: {what}")));
            }
        }
    }
    // required column types: a numeric column is coerced to the required type or the merge is refused;
    // whatever comes out holds the values that went in
    for vals in [vec![-3i64, 0, 5], vec![0, 4, 9], vec![-7, -1], vec![i64::MIN, 0, i64::MAX]] {
        for req in [tantivy_columnar::ColumnType::U64, tantivy_columnar::ColumnType::I64, tantivy_columnar::ColumnType::F64] {
            st.count("required_type_merges");
            let mut w = ColumnarWriter::default();
            for (i, v) in vals.iter().enumerate() {
                w.record_numerical(i as u32, "x", *v);
            }
            let mut buf = vec![];
            w.serialize(vals.len() as u32, None, &mut buf).unwrap();
            let rd = ColumnarReader::open(buf).unwrap();
            let refs = [&rd];
            let mut out = vec![];
            if merge_columnar(&refs, &[("x".to_string(), req)], MergeRowOrder::Stack(StackMergeOrder::stack(&refs)), &mut out).is_err() {
                st.count("required_type_refused");
                continue;
            }
            let merged = match ColumnarReader::open(out) {
                Ok(m) => m,
                Err(e) => return Some(("merge_output_unreadable".into(), e.to_string())),
            };
            let got = match all_rows(&merged) {
                Ok(g) => g,
                Err(e) => return Some(("merged_column_read_error".into(), e)),
            };
            let want: Vec<Vec<String>> = vals.iter().map(|v| vec![format!("{}", *v as f64)]).collect();
            if got.get("x") != Some(&want) {
                return Some(("merged_values_differ".into(), format!("an i64 column holding {vals:?} merged with required type {req:?}: the output holds {:?}", got.get("x"))));
            }
        }
    }
    let multi = Spec { n: 5, presence: Presence::Multi, valfn: ValFn::Linear, ty: Ty::U64 };
    let opt = Spec { n: 5, presence: Presence::Every(2), valfn: ValFn::Lcg, ty: Ty::I64 };
    let fresh = build_columnar(&[("gen_multi", &multi), ("gen_opt", &opt)], 5);
    let inputs: Vec<(&str, &ColumnarReader)> = vec![("v1", &v1), ("v2", &v2), ("fresh", &fresh)];
    let mut orders: Vec<Vec<usize>> = vec![];
    for a in 0..3 {
        orders.push(vec![a]);
        for b in 0..3 {
            orders.push(vec![a, b]);
            for c in 0..3 {
                if a != b || b != c {
                    orders.push(vec![a, b, c]);
                }
            }
        }
    }
    for order in orders {
        st.count("legacy_merges");
        let refs: Vec<&ColumnarReader> = order.iter().map(|&i| inputs[i].1).collect();
        let names: Vec<&str> = order.iter().map(|&i| inputs[i].0).collect();
        let mut out = vec![];
        if let Err(e) = merge_columnar(&refs, &[], MergeRowOrder::Stack(StackMergeOrder::stack(&refs)), &mut out) {
            return Some(("merge_error".into(), format!("stack merge of {names:?}: {e}")));
        }
        let merged = match ColumnarReader::open(out) {
            Ok(m) => m,
            Err(e) => return Some(("merge_output_unreadable".into(), format!("stack merge of {names:?}: {e}"))),
        };
        let got = match all_rows(&merged) {
            Ok(g) => g,
            Err(e) => return Some(("merged_column_read_error".into(), format!("stack merge of {names:?}: {e}"))),
        };
        let total: u32 = refs.iter().map(|r| r.num_docs()).sum();
        if merged.num_docs() != total {
            return Some(("merged_num_docs".into(), format!("stack merge of {names:?}: {} rows, expected {total}", merged.num_docs())));
        }
        let mut want: BTreeMap<String, Vec<Vec<String>>> = BTreeMap::new();
        let mut offset = 0usize;
        for r in &refs {
            let rows = match all_rows(r) {
                Ok(x) => x,
                Err(e) => return Some(("machinery".into(), e)),
            };
            for (name, rs) in rows {
                let e = want.entry(name).or_insert_with(|| vec![vec![]; total as usize]);
                for (i, row) in rs.into_iter().enumerate() {
                    e[offset + i] = row;
                }
            }
            offset += r.num_docs() as usize;
        }
        for (name, wrows) in &want {
            let empty = vec![vec![]; total as usize];
            let grows = got.get(name).unwrap_or(&empty);
            for i in 0..total as usize {
                let (mut g, mut w) = (grows[i].clone(), wrows[i].clone());
                g.sort();
                w.sort();
                if g != w {
                    return Some(("merged_values_differ".into(), format!("stack merge of {names:?}: column {name} merged row {i} holds {g:?}, the input row holds {w:?}")));
                }
            }
        }
    }
    None
}

pub fn check_tantivy_family(st: &mut Stats) -> Option<(String, String)> {
    use crate::qmodel::*;
    let texts = texts_over(&["a", "b"], 3);
    let docs: Vec<ModelDoc> = texts.iter().enumerate().map(|(i, t)| ModelDoc::from_text(i as u64 + 1, t)).collect();
    for (segs, merge) in [(vec![docs.len()], false), (vec![7, 8], false), (vec![7, 8], true)] {
        let b = build_index(&docs, &Layout { segments: segs.clone(), deleted: vec![2, 9], merge });
        for seg in b.searcher.segment_readers() {
            let ids = seg.fast_fields().u64("id").ok()?;
            for d in 0..seg.max_doc() {
                st.count("tantivy_rows");
                let id = ids.first(d)?;
                let m = docs.iter().find(|x| x.id == id)?;
                let ff = seg.fast_fields();
                let checks: Vec<(&str, Vec<String>, Vec<String>)> = vec![
                    ("num", ff.u64("num").ok()?.values_for_doc(d).map(|v| v.to_string()).collect(), m.fields.get("num").map(|v| v.iter().map(|x| if let V::U(u) = x { u.to_string() } else { String::new() }).collect()).unwrap_or_default()),
                    ("inum", ff.i64("inum").ok()?.values_for_doc(d).map(|v| v.to_string()).collect(), m.fields.get("inum").map(|v| v.iter().map(|x| if let V::I(u) = x { u.to_string() } else { String::new() }).collect()).unwrap_or_default()),
                    ("fnum", ff.f64("fnum").ok()?.values_for_doc(d).map(|v| v.to_string()).collect(), m.fields.get("fnum").map(|v| v.iter().map(|x| if let V::F(u) = x { u.to_string() } else { String::new() }).collect()).unwrap_or_default()),
                    ("flag", ff.bool("flag").ok()?.values_for_doc(d).map(|v| v.to_string()).collect(), m.fields.get("flag").map(|v| v.iter().map(|x| if let V::B(u) = x { u.to_string() } else { String::new() }).collect()).unwrap_or_default()),
                    ("date", ff.date("date").ok()?.values_for_doc(d).map(|v| v.into_timestamp_secs().to_string()).collect(), m.fields.get("date").map(|v| v.iter().map(|x| if let V::D(u) = x { u.to_string() } else { String::new() }).collect()).unwrap_or_default()),
                    ("ip", ff.ip_addr("ip").ok()?.values_for_doc(d).map(|v| u128::from(v).to_string()).collect(), m.fields.get("ip").map(|v| v.iter().map(|x| if let V::Ip(u) = x { u.to_string() } else { String::new() }).collect()).unwrap_or_default()),
                ];
                for (name, got, want) in checks {
                    if got != want {
                        return Some(("tantivy_fast_value_differs".into(), format!("segments {segs:?} merge {merge}: doc id {id} field {name}: {got:?} expected {want:?}")));
                    }
                }
                let kcol = ff.str("k").ok()??;
                let mut ks = vec![];
                for o in kcol.term_ords(d) {
                    let mut s = String::new();
                    kcol.ord_to_str(o, &mut s).ok()?;
                    ks.push(s);
                }
                let wantk: Vec<String> = m.fields.get("k").map(|v| v.iter().map(|x| if let V::S(u) = x { u.clone() } else { String::new() }).collect()).unwrap_or_default();
                if ks != wantk {
                    return Some(("tantivy_fast_value_differs".into(), format!("segments {segs:?} merge {merge}: doc id {id} field k: {ks:?} expected {wantk:?}")));
                }
            }
        }
    }
    None
}

pub fn run(ctx: &Ctx) -> Report {
    quiet_panics();
    let mut rep = Report::new("model_checking");
    let thorough = ctx.tier.is_thorough();
    enum W {
        S(Spec),
        M(usize, MergeCase),
        T,
        /// legacy-format sample columnars in stack merges
        L,
    }
    // the column family is cheap: both tiers run all of it; the tiers differ in the merge family
    let mut work: Vec<W> = specs(true).into_iter().map(W::S).collect();
    work.extend(merge_cases(thorough).into_iter().enumerate().map(|(k, m)| W::M(k, m)));
    work.push(W::T);
    work.push(W::L);
    // large first
    work.sort_by_key(|w| std::cmp::Reverse(match w {
        W::S(s) => s.n as u64,
        W::M(_, m) => m.ns.iter().map(|x| *x as u64).sum::<u64>() * 2,
        W::T => 1000,
        W::L => 900,
    }));
    let (st, done) = par_for(ctx, work.len(), |i, st| {
        st.eval();
        let (rule_what, casej) = match &work[i] {
            W::S(spec) => {
                if spec.n >= 2 {
                    st.nontrivial(&("spec", spec));
                }
                st.count("column_specs");
                if i % 401 == 0 {
                    st.sample(json!({"kind":"column","spec":spec}));
                }
                (catch_unwind(AssertUnwindSafe(|| check_spec(spec, st))), json!({"kind":"column","spec":spec}))
            }
            W::M(mk, mc) => {
                st.nontrivial(&("merge", format!("{mc:?}").len(), i));
                st.count("merges");
                if mc.order.is_some() {
                    st.count("shuffled_merges");
                }
                if i % 601 == 0 {
                    st.sample(json!({"kind":"merge","names":mc.names,"ns":mc.ns,"order_len":mc.order.as_ref().map(|o| o.len())}));
                }
                let cj = if mc.ns.iter().sum::<u32>() < 100 { json!({"kind":"merge","case":mc}) } else { json!({"kind":"merge_index","index":*mk,"thorough":thorough,"names":mc.names,"ns":mc.ns}) };
                (catch_unwind(AssertUnwindSafe(|| check_merge(mc, st))), cj)
            }
            W::L => {
                st.nontrivial(&"legacy");
                (catch_unwind(AssertUnwindSafe(|| check_legacy_merges(st))), json!({"kind":"legacy"}))
            }
            W::T => {
                st.nontrivial(&"tantivy");
                (catch_unwind(AssertUnwindSafe(|| check_tantivy_family(st))), json!({"kind":"tantivy"}))
            }
        };
        let (rule, what) = match rule_what {
            Ok(None) => return,
            Ok(Some(x)) => x,
            Err(e) => ("column_panic".to_string(), format!("{} [{}]", panic_message(e), last_panic())),
        };
        let desc = match &work[i] {
            W::S(s) => format!("column {s:?}"),
            W::M(_, m) => format!("merge of {:?} rows, columns {:?}, {}", m.ns, m.names, if m.order.is_some() { "shuffled" } else { "stacked" }),
            W::T => "tantivy fast fields".to_string(),
            W::L => "legacy-format columnars".to_string(),
        };
        st.violation(Violation::new(&rule, format!("{desc}: {what}"), casej));
    });
    rep.set("exhaustive", done == work.len());
    rep.set("work_items", work.len() as u64);
    rep.set("rule", "columns = N in {0,1,2,63,64,65,511,512,513,1025,5119,5120,5121,10240,65535,65536,65537,70000} x presence {all, none, every 2/3/64/13000-th, first half, last row, first K around 5120, multi-valued 0-3 values} x value function {constant, linear, linear+outlier, two-level, LCG, gcd-able, extremes, <=32-bit wide range} x type {u64,i64,f64,bool,date,ip,bytes,str} (all combinations up to 513 rows, a reduced set above): values_for_doc / first / num_docs / num_values / cardinality / min-max / dictionary order and every value-range lookup with bounds at values present +-1 and far beyond; merges: every pair of 8 tiny columns stacked and shuffled with every alive subset, differing column sets over three inputs, 70000-row inputs across the 65536-row block boundary; the repository's legacy-format (v1, v2) sample columnars stacked with each other and with freshly written columnars in every order of <= 3 inputs, every legacy column also answering every value-range lookup; i64 columns merged under a required u64 / i64 / f64 column type (coerced exactly or refused); plus the typed fast fields of real index segments (deleted docs, two segments, merged). Non-trivial: >= 2 rows; distinct by spec");
    for k in ["legacy_merges", "column_specs", "merges", "shuffled_merges", "range_lookups", "range_lookups_nontrivial", "tantivy_rows", "cardinality.Optional", "cardinality.Multivalued", "cardinality.Full"] {
        if st.counters.get(k).copied().unwrap_or(0) == 0 {
            rep.machinery_errors.push(format!("vacuous: {k} = 0"));
        }
    }
    rep.set("states", st.nontrivial.len() as u64);
    rep.set("transitions", st.counters.get("range_lookups").copied().unwrap_or(0) + st.evaluations);
    rep.set("traces_validated_against_impl", st.evaluations);
    rep.assume("numeric columns may be stored under a coerced numeric type (u64 values that fit are stored as i64): values are compared numerically");
    rep.assume("a value-range lookup may report a multi-valued row once or once per matching value: compared as sets");
    rep.merge_stats(&st);
    rep.violations = st.violations;
    rep.machinery_errors.extend(st.errors);
    rep
}
