//! C13 - every DocSet is one sorted sequence under any mix of advance / seek / fills / seek_danger.
//! Explicit-state search: model state = index into the reference sequence; every designated state is
//! reached by two canonical paths and every program of length <= L is replayed on a fresh real scorer.
use std::ops::Bound;
use std::panic::{catch_unwind, AssertUnwindSafe};

use serde::{Deserialize, Serialize};
use serde_json::{json, Value};
use tantivy::query::{EnableScoring, Scorer};
use tantivy::{DocId, DocSet, TERMINATED};
use tantivy_common::TinySet;

use crate::c03::structured_docs;
use crate::common::*;
use crate::qmodel::*;

#[derive(Clone, Copy, Debug, PartialEq, Eq, Serialize, Deserialize, Hash)]
pub enum Op {
    Advance,
    /// seek(doc + delta)
    SeekRel(u32),
    /// seek to the element k positions ahead in the reference sequence
    SeekElem(usize),
    /// seek to (element k ahead) - 1
    SeekBeforeElem(usize),
    SeekTerminated,
    FillBuffer,
    /// fill_bitset_block(doc + delta)
    FillBitset(u32),
    /// seek_danger loop (as an intersection drives it) towards doc + delta
    DangerRel(u32),
    DangerElem(usize),
    DangerBeforeElem(usize),
    CountIncludingDeleted,
}

/// `SeekDangerResult` is not exported by the crate (its module is private): the value is decoded from
/// its Debug rendering ("Found" / "SeekLowerBound(n)").
#[derive(Debug, Clone, Copy, PartialEq)]
enum Danger {
    Found,
    SeekLowerBound(DocId),
}

fn seek_danger(s: &mut Box<dyn Scorer>, target: DocId) -> Danger {
    let r = s.seek_danger(target);
    let d = format!("{r:?}");
    if d == "Found" {
        Danger::Found
    } else if let Some(rest) = d.strip_prefix("SeekLowerBound(") {
        Danger::SeekLowerBound(rest.trim_end_matches(')').parse().expect("SeekLowerBound payload"))
    } else {
        panic!("unknown SeekDangerResult rendering {d}");
    }
}

pub fn op_alphabet(long: bool) -> Vec<Op> {
    let mut v = vec![
        Op::Advance,
        Op::SeekRel(0),
        Op::SeekRel(1),
        Op::SeekElem(1),
        Op::SeekBeforeElem(1),
        Op::SeekElem(2),
        Op::SeekElem(130),
        Op::SeekRel(127),
        Op::SeekRel(128),
        Op::SeekRel(4096),
        Op::SeekRel(5000),
        Op::SeekTerminated,
        Op::FillBuffer,
        Op::FillBitset(0),
        Op::FillBitset(1),
        Op::DangerRel(0),
        Op::DangerRel(1),
        Op::DangerElem(1),
        Op::DangerBeforeElem(1),
        Op::DangerElem(130),
        Op::DangerRel(4097),
        Op::CountIncludingDeleted,
    ];
    if long {
        v.extend([Op::SeekRel(63), Op::SeekRel(64), Op::SeekRel(1024), Op::FillBitset(1023), Op::DangerRel(129), Op::SeekElem(64), Op::DangerRel(100_000)]);
    }
    v
}

fn t(s: &str) -> Q {
    Q::Term(s.to_string())
}

/// scorer instances: (name, query)
pub fn instances(all: bool) -> Vec<(&'static str, Q)> {
    let inc = |v: u64| Bound::Included(V::U(v));
    let must = Occ::Must;
    let should = Occ::Should;
    let not = Occ::MustNot;
    let ph = Q::Phrase(vec!["p".into(), "q".into()], 0);
    let mut v: Vec<(&'static str, Q)> = vec![
        ("term_dense", t("t1")),
        ("term_half", t("t2")),
        ("term_sparse", t("t128")),
        ("union_terms", Q::Bool(vec![(should, t("t3")), (should, t("t7"))], None)),
        ("intersection_terms", Q::Bool(vec![(must, t("t2")), (must, t("t3"))], None)),
        ("exclude", Q::Bool(vec![(must, t("t2")), (not, t("t3"))], None)),
        ("phrase", ph.clone()),
        ("phrase_prefix", Q::PhrasePrefix(vec!["p".into(), "q".into()])),
        ("range_fast", Q::Range("num".into(), inc(100), inc(8000))),
        ("union_under_intersection", Q::Bool(vec![(must, t("t2")), (must, Q::Bool(vec![(should, t("t3")), (should, t("t7"))], None))], None)),
        ("disjunction_msm2", Q::Bool(vec![(should, t("t2")), (should, t("t3")), (should, t("t7"))], Some(2))),
        ("reqopt", Q::Bool(vec![(must, t("t3")), (should, t("t7"))], None)),
    ];
    if all {
        v.extend(vec![
            ("term_one", t("one")),
            ("term_absent", t("zz")),
            ("term_very_sparse", t("t4096")),
            ("all", Q::All),
            ("empty", Q::Empty),
            ("range_termdict", Q::Range("num_idx".into(), inc(100), inc(700))),
            ("termset", Q::TermSet(vec!["t7".into(), "t128".into(), "one".into()])),
            ("multi_exclude", Q::Bool(vec![(must, t("t1")), (not, t("t3")), (not, t("t7"))], None)),
            ("exclude_phrase", Q::Bool(vec![(must, t("t2")), (not, ph.clone())], None)),
            ("exclude_union", Q::Bool(vec![(must, t("t1")), (not, Q::Bool(vec![(should, t("t3")), (should, t("t7"))], None))], None)),
            ("intersection_generic", Q::Bool(vec![(must, t("t2")), (must, Q::Range("num".into(), inc(1000), inc(6000)))], None)),
            ("intersection_three", Q::Bool(vec![(must, t("t2")), (must, t("t3")), (must, t("t7"))], None)),
            ("intersection_with_phrase", Q::Bool(vec![(must, t("t2")), (must, ph.clone())], None)),
            ("phrase_slop", Q::Phrase(vec!["q".into(), "p".into()], 2)),
            ("boost", Q::Boost(Box::new(Q::Bool(vec![(should, t("t3")), (should, t("t7"))], None)), 2.0)),
            ("const", Q::Const(Box::new(t("t7")), 3.0)),
            ("dismax", Q::DisMax(vec![t("t3"), t("t7")], 0.5)),
            ("union_of_intersections", Q::Bool(vec![(should, Q::Bool(vec![(must, t("t2")), (must, t("t3"))], None)), (should, Q::Bool(vec![(must, t("t7")), (must, t("t2"))], None))], None)),
            ("union_three_with_range", Q::Bool(vec![(should, t("t128")), (should, Q::Range("num".into(), inc(4090), inc(4100))), (should, t("one"))], None)),
            ("all_minus_term", Q::Bool(vec![(must, Q::All), (not, t("t2"))], None)),
            ("reqopt_union", Q::Bool(vec![(must, t("t2")), (should, t("t3")), (should, t("t7"))], None)),
            ("phrase_prefix_under_exclude", Q::Bool(vec![(must, t("t1")), (not, Q::PhrasePrefix(vec!["q".into(), "p".into()]))], None)),
            ("phrase_prefix_under_intersection", Q::Bool(vec![(must, t("t3")), (must, Q::PhrasePrefix(vec!["p".into(), "q".into()]))], None)),
        ]);
    }
    v
}

struct Ctxt {
    built: Built,
}

fn fresh(c: &Ctxt, q: &Q) -> Box<dyn Scorer> {
    let tq = lower(q, &c.built.fields);
    let w = tq.weight(EnableScoring::enabled_from_searcher(&c.built.searcher)).unwrap();
    w.scorer(c.built.searcher.segment_reader(0), 1.0).unwrap()
}

fn reference(c: &Ctxt, q: &Q) -> Vec<(DocId, f32)> {
    let mut s = fresh(c, q);
    let mut out = vec![];
    let mut d = s.doc();
    while d != TERMINATED {
        out.push((d, s.score()));
        let nd = s.advance();
        assert!(nd > d, "reference enumeration not increasing: {d} then {nd}");
        d = nd;
        assert!(out.len() < 200_000);
    }
    out
}

/// model state meaning: a seek_danger loop ran off the end; the docset may be left invalid and no further
/// call is legal (targets must strictly increase), so the program stops here.
const STOP: usize = usize::MAX;

fn first_ge(seq: &[(DocId, f32)], from: usize, target: DocId) -> usize {
    let mut i = from;
    while i < seq.len() && seq[i].0 < target {
        i += 1;
    }
    i
}

fn doc_at(seq: &[(DocId, f32)], i: usize) -> DocId {
    seq.get(i).map(|x| x.0).unwrap_or(TERMINATED)
}

/// Apply one op on the real scorer at model state `i`; returns the new model state or an error.
fn apply(s: &mut Box<dyn Scorer>, seq: &[(DocId, f32)], i: usize, op: Op) -> Result<usize, String> {
    let cur = doc_at(seq, i);
    let target_rel = |d: u32| -> DocId {
        if cur == TERMINATED {
            TERMINATED
        } else {
            (cur as u64 + d as u64).min(TERMINATED as u64) as DocId
        }
    };
    let elem = |k: usize| doc_at(seq, i + k);
    let expect_seek = |s: &mut Box<dyn Scorer>, target: DocId, i: usize| -> Result<usize, String> {
        let j = first_ge(seq, i, target);
        let got = s.seek(target);
        if got != doc_at(seq, j) || s.doc() != got {
            return Err(format!("seek({target}) from doc {cur} returned {got} (doc() = {}), reference says {}", s.doc(), doc_at(seq, j)));
        }
        Ok(j)
    };
    let danger = |s: &mut Box<dyn Scorer>, target: DocId, i: usize| -> Result<usize, String> {
        // drive seek_danger like an intersection does: strictly increasing candidates
        let mut cand = target;
        let mut steps = 0;
        loop {
            steps += 1;
            if steps > 100_000 {
                return Err(format!("seek_danger loop towards {target} does not terminate"));
            }
            if cand >= TERMINATED {
                let r = seek_danger(s, TERMINATED);
                return match r {
                    Danger::SeekLowerBound(lb) if lb >= TERMINATED => Ok(STOP),
                    other => Err(format!("seek_danger(TERMINATED) returned {other:?}")),
                };
            }
            let j = first_ge(seq, i, cand);
            let next_after = doc_at(seq, first_ge(seq, i, cand + 1));
            match seek_danger(s, cand) {
                Danger::Found => {
                    if doc_at(seq, j) != cand {
                        return Err(format!("seek_danger({cand}) = Found but {cand} is not in the reference sequence (next is {})", doc_at(seq, j)));
                    }
                    if s.doc() != cand {
                        return Err(format!("seek_danger({cand}) = Found but doc() = {}", s.doc()));
                    }
                    return Ok(j);
                }
                Danger::SeekLowerBound(lb) => {
                    if doc_at(seq, j) == cand {
                        return Err(format!("seek_danger({cand}) = SeekLowerBound({lb}) but {cand} is in the reference sequence"));
                    }
                    // lb in (cand .. next] U {TERMINATED}
                    let ok = (lb > cand && lb <= next_after) || lb >= TERMINATED;
                    if !ok {
                        return Err(format!("seek_danger({cand}) = SeekLowerBound({lb}), allowed ({cand}..{next_after}] or TERMINATED"));
                    }
                    if lb >= TERMINATED && next_after != TERMINATED {
                        // claims exhaustion although elements remain
                        return Err(format!("seek_danger({cand}) = SeekLowerBound(TERMINATED) but the reference has {next_after} after it"));
                    }
                    cand = lb;
                }
            }
        }
    };
    match op {
        Op::Advance => {
            let got = s.advance();
            let j = (i + 1).min(seq.len());
            if got != doc_at(seq, j) || s.doc() != got {
                return Err(format!("advance() from doc {cur} returned {got} (doc() = {}), reference says {}", s.doc(), doc_at(seq, j)));
            }
            Ok(j)
        }
        Op::SeekRel(d) => expect_seek(s, target_rel(d), i),
        Op::SeekElem(k) => expect_seek(s, elem(k), i),
        Op::SeekBeforeElem(k) => {
            let e = elem(k);
            let tgt = if e == TERMINATED { TERMINATED } else { (e - 1).max(cur.min(e)) };
            expect_seek(s, tgt.max(if cur == TERMINATED { TERMINATED } else { cur }), i)
        }
        Op::SeekTerminated => expect_seek(s, TERMINATED, i),
        Op::FillBuffer => {
            let mut buf = [0u32; 64];
            let n = s.fill_buffer(&mut buf);
            let want: Vec<DocId> = seq[i.min(seq.len())..].iter().take(64).map(|x| x.0).collect();
            if buf[..n] != want[..] {
                return Err(format!("fill_buffer from doc {cur} returned {} docs starting {:?}, reference {} docs starting {:?}", n, &buf[..n.min(4)], want.len(), &want[..want.len().min(4)]));
            }
            let j = (i + n).min(seq.len());
            if s.doc() != doc_at(seq, j) {
                return Err(format!("after fill_buffer ({n} docs) doc() = {}, reference says {}", s.doc(), doc_at(seq, j)));
            }
            Ok(j)
        }
        Op::FillBitset(d) => {
            if cur == TERMINATED {
                return Ok(i);
            }
            let min_doc = target_rel(d);
            if min_doc >= TERMINATED - 2048 {
                return Ok(i);
            }
            let mut mask = [TinySet::empty(); 16];
            let ret = s.fill_bitset_block(min_doc, &mut mask);
            let horizon = min_doc + 1024;
            let mut want = [TinySet::empty(); 16];
            let mut j = first_ge(seq, i, min_doc);
            while j < seq.len() && seq[j].0 < horizon {
                let delta = seq[j].0 - min_doc;
                want[(delta / 64) as usize].insert_mut(delta % 64);
                j += 1;
            }
            if mask != want {
                let bits = |m: &[TinySet; 16]| m.iter().map(|t| t.len()).sum::<u32>();
                return Err(format!("fill_bitset_block({min_doc}) from doc {cur}: {} bits set, reference {} bits", bits(&mask), bits(&want)));
            }
            if ret != doc_at(seq, j) {
                return Err(format!("fill_bitset_block({min_doc}) returned {ret}, reference says {}", doc_at(seq, j)));
            }
            if s.doc() != ret {
                return Err(format!("after fill_bitset_block({min_doc}) doc() = {} but it returned {ret}", s.doc()));
            }
            Ok(j)
        }
        Op::DangerRel(d) => danger(s, target_rel(d), i),
        Op::DangerElem(k) => danger(s, elem(k), i),
        Op::DangerBeforeElem(k) => {
            let e = elem(k);
            if e == TERMINATED || cur == TERMINATED {
                return danger(s, TERMINATED, i);
            }
            danger(s, (e - 1).max(cur), i)
        }
        Op::CountIncludingDeleted => {
            let got = s.count_including_deleted();
            let want = (seq.len() - i.min(seq.len())) as u32;
            if got != want {
                return Err(format!("count_including_deleted from doc {cur} = {got}, reference {want}"));
            }
            // "Calling this method consumes the DocSet": nothing is promised about the state afterwards,
            // so the program stops here.
            Ok(STOP)
        }
    }
}

fn check_valid_state(s: &mut Box<dyn Scorer>, seq: &[(DocId, f32)], i: usize) -> Result<(), String> {
    let d = s.doc();
    if d != doc_at(seq, i) {
        return Err(format!("doc() = {d}, reference says {}", doc_at(seq, i)));
    }
    if i < seq.len() {
        let sc = s.score();
        if sc.to_bits() != seq[i].1.to_bits() {
            return Err(format!("score at doc {d} = {sc}, but {} when reached by plain advance", seq[i].1));
        }
    }
    Ok(())
}

/// path kinds to reach a state: 0 = advance only, 1 = single seek from the start, 2 = two seeks (half way)
fn goto_state(s: &mut Box<dyn Scorer>, seq: &[(DocId, f32)], target: usize, path: u8) -> Result<(), String> {
    match path {
        0 => {
            for _ in 0..target {
                s.advance();
            }
        }
        1 => {
            if target > 0 {
                s.seek(doc_at(seq, target));
            }
        }
        _ => {
            if target > 0 {
                let mid = target / 2;
                if mid > 0 {
                    s.seek(doc_at(seq, mid));
                }
                s.seek(doc_at(seq, target));
            }
        }
    }
    check_valid_state(s, seq, target).map_err(|e| format!("reaching state #{target} by path {path}: {e}"))
}

pub fn run_program(c: &Ctxt2, q: &Q, seq: &[(DocId, f32)], start: usize, path: u8, prog: &[Op]) -> Result<(), String> {
    let mut s = fresh(&c.0, q);
    goto_state(&mut s, seq, start, path)?;
    let mut i = start;
    for (k, op) in prog.iter().enumerate() {
        i = apply(&mut s, seq, i, *op).map_err(|e| format!("step {k} {op:?}: {e}"))?;
        if i == STOP {
            return Ok(());
        }
        check_valid_state(&mut s, seq, i).map_err(|e| format!("after step {k} {op:?}: {e}"))?;
    }
    // once the end is reached every further call keeps reporting the end
    if i >= seq.len() {
        for _ in 0..2 {
            if s.advance() != TERMINATED || s.doc() != TERMINATED {
                return Err("advance() after the end does not report TERMINATED".to_string());
            }
        }
        if s.seek(TERMINATED) != TERMINATED {
            return Err("seek(TERMINATED) after the end does not report TERMINATED".to_string());
        }
    }
    Ok(())
}

/// narrow signature of the recorded finding: a union (>= 2 should clauses) with a child that has a real
/// danger zone (intersection / phrase), driven through seek_danger
fn union_with_compound_children(q: &Q) -> bool {
    fn compound(q: &Q) -> bool {
        match q {
            Q::Phrase(ts, _) => ts.len() > 1,
            Q::PhrasePrefix(_) => true,
            Q::Bool(cl, _) => cl.iter().filter(|c| c.0 == Occ::Must).count() >= 2 || cl.iter().any(|c| compound(&c.1)),
            Q::Boost(q, _) | Q::Const(q, _) => compound(q),
            _ => false,
        }
    }
    match q {
        Q::Bool(cl, _) => {
            let shoulds: Vec<&Q> = cl.iter().filter(|c| c.0 == Occ::Should).map(|c| &c.1).collect();
            (shoulds.len() >= 2 && shoulds.iter().any(|c| compound(c))) || cl.iter().any(|c| union_with_compound_children(&c.1))
        }
        Q::Boost(q, _) | Q::Const(q, _) => union_with_compound_children(q),
        Q::DisMax(qs, _) => qs.iter().any(|c| compound(c)) || qs.iter().any(union_with_compound_children),
        _ => false,
    }
}

fn classify(rule: &str, name: &str, q: &Q, prog: &[Op]) -> String {
    let has_danger = prog.iter().any(|o| matches!(o, Op::DangerRel(_) | Op::DangerElem(_) | Op::DangerBeforeElem(_)));
    if rule == "docset_program_diverges" && has_danger && union_with_compound_children(q) {
        return "union_seek_danger_with_compound_children".to_string();
    }
    format!("{rule}:{name}")
}

pub struct Ctxt2(Ctxt);

pub fn corpus(n: usize) -> Ctxt2 {
    let docs = structured_docs(n);
    let built = build_index(&docs, &Layout { segments: vec![n], deleted: vec![], merge: false });
    Ctxt2(Ctxt { built })
}

fn designated_states(len: usize) -> Vec<usize> {
    let mut v: Vec<usize> = vec![0, 1, 2, 31, 62, 63, 64, 65, 126, 127, 128, 129, 255, 256, 1023, 1024, 1025, 2047, 2048, 4095, 4096, 4097];
    for k in [3usize, 2, 1, 0] {
        v.push(len.saturating_sub(k));
    }
    v.push(len / 2);
    v.retain(|x| *x <= len);
    v.sort();
    v.dedup();
    v
}

pub fn replay(case: &Value) -> Vec<Violation> {
    quiet_panics();
    let n = case["n"].as_u64().unwrap_or(9000) as usize;
    let q: Q = serde_json::from_value(case["query"].clone()).unwrap();
    let prog: Vec<Op> = serde_json::from_value(case["program"].clone()).unwrap_or_default();
    let start = case["start"].as_u64().unwrap_or(0) as usize;
    let path = case["path"].as_u64().unwrap_or(0) as u8;
    let c = corpus(n);
    let r = catch_unwind(AssertUnwindSafe(|| {
        let seq = reference(&c.0, &q);
        run_program(&c, &q, &seq, start, path, &prog)
    }));
    match r {
        Ok(Ok(())) => vec![],
        Ok(Err(e)) => vec![Violation::new(case["rule_hint"].as_str().unwrap_or("docset_program_diverges"), e, case.clone())],
        Err(e) => vec![Violation::new("docset_panic", format!("panic {}", panic_message(e)), case.clone())],
    }
}

const SLOTS: u64 = 32;

fn work_items(insts: &[(&'static str, Q)]) -> Vec<(usize, u8)> {
    let mut work: Vec<(usize, u8)> = vec![];
    for (ii, _) in insts.iter().enumerate() {
        for path in 0..3u8 {
            work.push((ii, path));
        }
    }
    work
}

fn programs(ops: &[Op], l: usize) -> Vec<Vec<Op>> {
    // all sequences of length 0..=l over ops, shortest first
    let mut progs: Vec<Vec<Op>> = vec![vec![]];
    let mut frontier: Vec<Vec<Op>> = vec![vec![]];
    for _ in 0..l {
        let mut next = vec![];
        for p in &frontier {
            for o in ops {
                let mut pp = p.clone();
                pp.push(*o);
                next.push(pp);
            }
        }
        progs.extend(next.iter().cloned());
        frontier = next;
    }
    progs
}

fn program_len(thorough: bool, in_quick: bool) -> usize {
    // L per instance: quick L=2 on the quick set and L=1 on the others; thorough L=4 on the quick set, 3 on others
    match (thorough, in_quick) {
        (false, true) => 2,
        (false, false) => 1,
        (true, true) => 4,
        (true, false) => 3,
    }
}

const N_DOCS: usize = 9000;

/// Worker entry: case index = work item (instance, path) * SLOTS + ordinal of the designated start state.
/// Runs in its own process with an address-space cap: a docset that tries to allocate gigabytes or never
/// returns is attributed to exactly one (instance, path, state, program).
pub fn worker(_family: &str, start: u64, end: u64, step: u64, arg: &str) {
    quiet_panics();
    crate::iso::worker_guard(6 << 30, 20_000);
    let thorough = arg == "thorough";
    let n = N_DOCS;
    let insts = instances(true);
    let quick_names: Vec<&str> = instances(false).iter().map(|x| x.0).collect();
    let ops = op_alphabet(thorough);
    let work = work_items(&insts);
    let c = corpus(n);
    let mut refs: std::collections::HashMap<usize, Option<Vec<(DocId, f32)>>> = Default::default();
    let mut progs_by_l: std::collections::HashMap<usize, Vec<Vec<Op>>> = Default::default();
    let mut st = Stats::default();
    let mut idx = start;
    while idx < end {
        let (w, si) = ((idx / SLOTS) as usize, (idx % SLOTS) as usize);
        let this = idx;
        idx += step;
        let (ii, path) = work[w];
        let (name, q) = &insts[ii];
        crate::iso::set_current(this);
        crate::iso::DETAIL.store(u64::MAX, std::sync::atomic::Ordering::SeqCst);
        let seq = refs.entry(ii).or_insert_with(|| catch_unwind(AssertUnwindSafe(|| reference(&c.0, q))).ok());
        let Some(seq) = seq.as_ref() else {
            if si == 0 && path == 0 {
                crate::iso::emit(&json!({"t":"V","rule":"docset_panic","what":"plain advance enumeration panicked","idx":this,"prog":-1}).to_string());
            }
            continue;
        };
        let states = designated_states(seq.len());
        if si == 0 && path == 0 {
            st.count_n("reference_elements", seq.len() as u64);
        }
        if si >= states.len() {
            continue;
        }
        let s0 = states[si];
        let l = program_len(thorough, quick_names.contains(name));
        let progs = progs_by_l.entry(l).or_insert_with(|| programs(&ops, l));
        st.count("model_states");
        for (pi, p) in progs.iter().enumerate() {
            st.evaluations += 1;
            st.count_n("transitions", p.len() as u64);
            let skips = p.iter().any(|o| !matches!(o, Op::Advance | Op::SeekRel(0) | Op::DangerRel(0)));
            if skips && !seq.is_empty() {
                st.count("nontrivial");
            }
            crate::iso::DETAIL.store(pi as u64, std::sync::atomic::Ordering::SeqCst);
            crate::iso::set_current(this);
            let r = catch_unwind(AssertUnwindSafe(|| run_program(&c, q, seq, s0, path, p)));
            let (rule, what) = match r {
                Ok(Ok(())) => continue,
                Ok(Err(e)) => ("docset_program_diverges".to_string(), e),
                Err(e) => ("docset_panic".to_string(), format!("panic: {} [{}]", panic_message(e), last_panic())),
            };
            crate::iso::emit(&json!({"t":"V","rule":rule,"what":what,"idx":this,"prog":pi}).to_string());
            // one failing program per (instance, state) is enough
            break;
        }
        crate::iso::idle();
    }
    crate::iso::idle();
    crate::iso::emit(&json!({"t":"S","evals":st.evaluations,"counters":st.counters}).to_string());
    crate::iso::emit("DONE");
}

pub fn run(ctx: &Ctx) -> Report {
    quiet_panics();
    let mut rep = Report::new("model_checking");
    let thorough = ctx.tier.is_thorough();
    let n = N_DOCS;
    let insts = instances(true);
    let quick_names: Vec<&str> = instances(false).iter().map(|x| x.0).collect();
    let ops = op_alphabet(thorough);
    let work = work_items(&insts);
    let total = work.len() as u64 * SLOTS;
    let o = crate::iso::run_isolated(ctx, "C13", "progs", total, ctx.tier.name());
    let mut st = Stats::default();
    st.errors.extend(o.machinery_errors.clone());
    let c = corpus(n);
    let mut refs: std::collections::HashMap<usize, Vec<(DocId, f32)>> = Default::default();
    // describe a (case index, program index) reported by a worker
    let mut describe = |idx: u64, pi: i64, rule: &str, what: &str, st: &mut Stats| {
        let (w, si) = ((idx / SLOTS) as usize, (idx % SLOTS) as usize);
        let (ii, path) = work[w];
        let (name, q) = &insts[ii];
        if pi < 0 {
            st.violation(Violation::new(rule, format!("{name} {}: {what}", show(q)), json!({"n":n,"query":q,"program":[],"start":0,"path":0,"rule_hint":rule})));
            return;
        }
        let seq = refs.entry(ii).or_insert_with(|| catch_unwind(AssertUnwindSafe(|| reference(&c.0, q))).unwrap_or_default());
        let states = designated_states(seq.len());
        let s0 = states.get(si).copied().unwrap_or(0);
        let l = program_len(thorough, quick_names.contains(name));
        let progs = programs(&ops, l);
        let p = progs.get(pi as usize).cloned().unwrap_or_default();
        let rule = classify(rule, name, q, &p);
        st.violation(Violation::new(
            &rule,
            format!("scorer {name} = {} on {n} docs, from state #{s0} (doc {}) reached by path {path}, program {p:?}: {what}", show(q), doc_at(seq, s0)),
            json!({"n":n,"query":q,"program":p,"start":s0,"path":path,"rule_hint":rule}),
        ));
    };
    for (kind, idx) in &o.crashes {
        let pi = o.crash_detail.get(idx).copied().unwrap_or(u64::MAX);
        let pi = if pi == u64::MAX { 0 } else { pi as i64 };
        describe(*idx, pi, &format!("docset_{kind}"), &format!("the process did not return normally ({kind}: allocation failure / no return within 20 s)"), &mut st);
    }
    for l in &o.lines {
        let Ok(v) = serde_json::from_str::<Value>(l) else { continue };
        if v["t"] == "V" {
            describe(v["idx"].as_u64().unwrap_or(0), v["prog"].as_i64().unwrap_or(0), v["rule"].as_str().unwrap_or("?"), v["what"].as_str().unwrap_or(""), &mut st);
        } else if v["t"] == "S" {
            st.evaluations += v["evals"].as_u64().unwrap_or(0);
            if let Some(cn) = v["counters"].as_object() {
                for (k, x) in cn {
                    st.count_n(k, x.as_u64().unwrap_or(0));
                }
            }
        }
    }
    for (ii, (name, q)) in insts.iter().enumerate().take(6) {
        let l = program_len(thorough, quick_names.contains(name));
        let len = refs.get(&ii).map(|s| s.len()).unwrap_or_else(|| catch_unwind(AssertUnwindSafe(|| reference(&c.0, q).len())).unwrap_or(0));
        st.sample(json!({"instance":name,"query":show(q),"reference_len":len,"max_program_len":l}));
    }
    let done = if o.complete && o.completed == total { work.len() } else { 0 };
    rep.set("exhaustive", done == work.len());
    rep.set("scorer_instances", insts.len() as u64);
    rep.set("op_alphabet", ops.len() as u64);
    rep.set("rule", "for every scorer instance (obtained through Weight::scorer on a 9000-document corpus with modular term patterns) and every designated reference index (block / window boundaries 64, 128, 1024, 4096, ends), reached by advance-only, by one seek and by two seeks: every program of <= L operations over the op alphabet (advance, seeks to doc, doc+1, next element, next element - 1, far elements, beyond the union window, TERMINATED, fill_buffer, fill_bitset_block, seek_danger loops, count_including_deleted); after every step doc(), return value and score() are compared with the sequence obtained by plain advance on a fresh scorer. Non-trivial: program with at least one skipping operation; distinct by (instance, path, state, program)");
    let states = st.counters.get("model_states").copied().unwrap_or(0);
    let transitions = st.counters.get("transitions").copied().unwrap_or(0);
    rep.set("states", states.max(1));
    rep.set("transitions", transitions.max(1));
    rep.set("traces_validated_against_impl", st.evaluations);
    if st.counters.get("reference_elements").copied().unwrap_or(0) < 10_000 {
        rep.machinery_errors.push("vacuous: reference sequences are too short".into());
    }
    rep.assume("seek / seek_danger / fill_bitset_block are only issued with targets >= doc(), seek_danger candidates strictly increase (the documented contract); targets below doc() as Exclude issues them are covered through C03's queries");
    rep.assume("scores must be bit-identical however the document was reached");
    rep.merge_stats(&st);
    rep.set("distinct_nontrivial", st.counters.get("nontrivial").copied().unwrap_or(0));
    rep.assume("cases run in worker processes with a 6 GB address-space cap and a 20 s watchdog: an operation that aborts on an allocation failure or does not return is a violation attributed to its (instance, path, state, program)");
    rep.violations = st.violations;
    rep.machinery_errors.extend(st.errors);
    rep
}
