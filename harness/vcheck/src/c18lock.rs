//! C18, lock protocol of MmapDirectory: the system-call programs of "acquire (succeeds)", "acquire (lock
//! busy)" and "release" are extracted from a strace of the real MmapDirectory::acquire_lock / guard drop, and
//! an explicit-state search explores EVERY interleaving of N contenders running these programs for K rounds
//! over a model of the file-system name space and of flock (locks belong to open file descriptions of an
//! inode, not to the path). Invariant: at most one contender is inside its critical section; at the end a
//! fresh contender can acquire the lock.
use std::collections::{BTreeMap, HashSet, VecDeque};
use std::process::Command;

use serde_json::{json, Value};

use crate::common::*;

#[derive(Clone, Debug, PartialEq, Eq, Hash, serde::Serialize, serde::Deserialize)]
pub enum Sys {
    Open { create: bool, excl: bool },
    Flock { blocking: bool },
    Close,
    Unlink,
}

#[derive(Clone, Debug, serde::Serialize, serde::Deserialize)]
pub struct Programs {
    /// open .. flock of a successful acquisition (and anything after the flock)
    pub acquire_ok: Vec<Sys>,
    /// what follows the failed flock of a busy acquisition
    pub after_busy: Vec<Sys>,
    pub release: Vec<Sys>,
    pub blocking: bool,
}

fn mark(name: &str) {
    let c = std::ffi::CString::new(format!("/VERIF-MARK-{name}")).unwrap();
    unsafe {
        libc::access(c.as_ptr(), libc::F_OK);
    }
}

/// child: exercises the real lock code between marker system calls
pub fn child(dir: &str) {
    use tantivy::directory::{Directory, MmapDirectory, INDEX_WRITER_LOCK, META_LOCK};
    let d = MmapDirectory::open(dir).expect("open");
    mark("W-acquire-begin");
    let g = d.acquire_lock(&INDEX_WRITER_LOCK).expect("first acquisition");
    mark("W-acquire-end");
    mark("W-busy-begin");
    let r = d.acquire_lock(&INDEX_WRITER_LOCK);
    assert!(r.is_err(), "second acquisition must fail");
    drop(r);
    mark("W-busy-end");
    mark("W-release-begin");
    drop(g);
    mark("W-release-end");
    mark("M-acquire-begin");
    let g = d.acquire_lock(&META_LOCK).expect("meta lock");
    mark("M-acquire-end");
    mark("M-release-begin");
    drop(g);
    mark("M-release-end");
    // and again: what a second round looks like once the lock file exists
    mark("W2-acquire-begin");
    let g = d.acquire_lock(&INDEX_WRITER_LOCK).expect("re-acquisition");
    mark("W2-acquire-end");
    drop(g);
}

fn section<'a>(lines: &'a [String], name: &str) -> Vec<&'a String> {
    let b = lines.iter().position(|l| l.contains(&format!("VERIF-MARK-{name}-begin")));
    let e = lines.iter().position(|l| l.contains(&format!("VERIF-MARK-{name}-end")));
    match (b, e) {
        (Some(b), Some(e)) if e > b => lines[b + 1..e].iter().collect(),
        _ => vec![],
    }
}

fn parse_ops(lines: &[&String], lockname: &str) -> Vec<(Sys, bool)> {
    // (operation, succeeded)
    let mut v = vec![];
    for l in lines {
        if !l.contains(lockname) {
            continue;
        }
        let ok = !l.contains(" = -1");
        if l.contains("openat(") || l.contains(" open(") {
            v.push((Sys::Open { create: l.contains("O_CREAT"), excl: l.contains("O_EXCL") }, ok));
        } else if l.contains("flock(") {
            v.push((Sys::Flock { blocking: !l.contains("LOCK_NB") }, ok));
        } else if l.contains("close(") {
            v.push((Sys::Close, ok));
        } else if l.contains("unlink(") || l.contains("unlinkat(") {
            v.push((Sys::Unlink, ok));
        }
    }
    v
}

pub fn extract() -> Result<(Programs, Programs, Value), String> {
    let base = format!("{}/harness/target/lockconf-{}", verif_root(), std::process::id());
    let _ = std::fs::remove_dir_all(&base);
    let dir = format!("{base}/index");
    std::fs::create_dir_all(&dir).map_err(|e| e.to_string())?;
    let trace = format!("{base}/trace.txt");
    let exe = std::env::current_exe().map_err(|e| e.to_string())?;
    let st = Command::new("strace")
        .args(["-f", "-y", "-s", "0", "-o", &trace, "-e", "trace=openat,open,flock,fcntl,close,unlink,unlinkat,access,rename,renameat,renameat2"])
        .arg(&exe)
        .args(["lock-child", &dir])
        .output()
        .map_err(|e| e.to_string())?;
    if !st.status.success() {
        let _ = std::fs::remove_dir_all(&base);
        return Err(format!("lock child failed: {}", String::from_utf8_lossy(&st.stderr).chars().take(300).collect::<String>()));
    }
    let text = std::fs::read_to_string(&trace).unwrap_or_default();
    let _ = std::fs::remove_dir_all(&base);
    let lines: Vec<String> = text.lines().map(|s| s.to_string()).collect();
    let build = |prefix: &str, lock: &str, busy: bool| -> Result<Programs, String> {
        let acq = parse_ops(&section(&lines, &format!("{prefix}-acquire")), lock);
        let rel = parse_ops(&section(&lines, &format!("{prefix}-release")), lock);
        if acq.is_empty() || !acq.iter().any(|(o, _)| matches!(o, Sys::Flock { .. })) {
            return Err(format!("no open / flock found in the {prefix} acquisition section of the trace ({} lines)", lines.len()));
        }
        if acq.iter().any(|(_, ok)| !ok) {
            return Err(format!("{prefix}: a system call of the successful acquisition failed: {acq:?}"));
        }
        let after_busy = if busy {
            let b = parse_ops(&section(&lines, &format!("{prefix}-busy")), lock);
            let fpos = b.iter().position(|(o, ok)| matches!(o, Sys::Flock { .. }) && !ok).ok_or(format!("{prefix}: the busy acquisition shows no failing flock: {b:?}"))?;
            // the part before the failing flock must be the same program as the successful one
            let apos = acq.iter().position(|(o, _)| matches!(o, Sys::Flock { .. })).unwrap();
            if b[..fpos].iter().map(|x| &x.0).collect::<Vec<_>>() != acq[..apos].iter().map(|x| &x.0).collect::<Vec<_>>() {
                return Err(format!("{prefix}: busy and successful acquisitions start differently: {b:?} vs {acq:?}"));
            }
            b[fpos + 1..].iter().map(|x| x.0.clone()).collect()
        } else {
            vec![Sys::Close]
        };
        let blocking = acq.iter().any(|(o, _)| matches!(o, Sys::Flock { blocking: true }));
        Ok(Programs { acquire_ok: acq.into_iter().map(|x| x.0).collect(), after_busy, release: rel.into_iter().map(|x| x.0).collect(), blocking })
    };
    let w = build("W", ".tantivy-writer.lock", true)?;
    let m = build("M", ".tantivy-meta.lock", false)?;
    // the second round (lock file already there) must run the same program as the first
    let w2: Vec<Sys> = parse_ops(&section(&lines, "W2-acquire"), ".tantivy-writer.lock").into_iter().map(|x| x.0).collect();
    if w2 != w.acquire_ok {
        return Err(format!("re-acquisition runs a different program: {w2:?} vs {:?}", w.acquire_ok));
    }
    let info = json!({"writer_lock": w, "meta_lock": m, "trace_lines": lines.len()});
    Ok((w, m, info))
}

#[derive(Clone, PartialEq, Eq, Hash, Debug)]
struct Th {
    /// 0 idle (before acquire), then index into the current program
    phase: u8, // 0 = acquiring, 1 = after-busy path, 2 = in critical section, 3 = releasing, 4 = done
    pc: u8,
    fd: Option<u8>, // inode
    rounds_left: u8,
}

#[derive(Clone, PartialEq, Eq, Hash, Debug)]
struct St {
    path: Option<u8>,
    /// per inode: which thread's open file description holds the flock
    locks: Vec<Option<u8>>,
    th: Vec<Th>,
}

pub struct ModelResult {
    pub states: u64,
    pub transitions: u64,
    pub violation: Option<String>,
    pub final_states: u64,
}

/// exhaustive search over all interleavings of `n` contenders x `rounds` rounds
pub fn explore(p: &Programs, n: usize, rounds: u8) -> ModelResult {
    let init = St { path: None, locks: vec![], th: (0..n).map(|_| Th { phase: 0, pc: 0, fd: None, rounds_left: rounds }).collect() };
    let mut seen: HashSet<St> = HashSet::new();
    let mut parent: BTreeMap<u64, (u64, String)> = BTreeMap::new();
    let mut q = VecDeque::new();
    seen.insert(init.clone());
    q.push_back(init);
    let (mut transitions, mut finals) = (0u64, 0u64);
    let trace_of = |parent: &BTreeMap<u64, (u64, String)>, mut h: u64| {
        let mut steps = vec![];
        while let Some((ph, s)) = parent.get(&h) {
            steps.push(s.clone());
            h = *ph;
            if steps.len() > 200 {
                break;
            }
        }
        steps.reverse();
        steps.join(" ; ")
    };
    while let Some(s) = q.pop_front() {
        let sh = hash_of(&s);
        let mut any = false;
        for t in 0..n {
            let th = &s.th[t];
            if th.phase == 4 {
                continue;
            }
            let mut ns = s.clone();
            let label;
            match th.phase {
                2 => {
                    // leave the critical section, start releasing
                    ns.th[t].phase = 3;
                    ns.th[t].pc = 0;
                    label = format!("T{t}: leaves the critical section");
                }
                0 | 1 | 3 => {
                    let prog: &Vec<Sys> = match th.phase {
                        0 => &p.acquire_ok,
                        1 => &p.after_busy,
                        _ => &p.release,
                    };
                    if (th.pc as usize) >= prog.len() {
                        // program finished
                        match th.phase {
                            0 => {
                                ns.th[t].phase = 2;
                                label = format!("T{t}: ENTERS the critical section");
                            }
                            _ => {
                                // after-busy or release finished: next round or done
                                if th.phase == 3 || th.phase == 1 {
                                    ns.th[t].fd = ns.th[t].fd.take().and(None);
                                }
                                let left = if th.phase == 3 { th.rounds_left - 1 } else { th.rounds_left - 1 };
                                ns.th[t].rounds_left = left;
                                ns.th[t].pc = 0;
                                ns.th[t].phase = if left == 0 { 4 } else { 0 };
                                label = format!("T{t}: round over");
                            }
                        }
                    } else {
                        let op = &prog[th.pc as usize];
                        ns.th[t].pc += 1;
                        match op {
                            Sys::Open { create, .. } => {
                                match ns.path {
                                    Some(i) => ns.th[t].fd = Some(i),
                                    None if *create => {
                                        let i = ns.locks.len() as u8;
                                        ns.locks.push(None);
                                        ns.path = Some(i);
                                        ns.th[t].fd = Some(i);
                                    }
                                    None => {
                                        // open fails: the acquisition fails without a descriptor
                                        ns.th[t].phase = 1;
                                        ns.th[t].pc = p.after_busy.len() as u8;
                                    }
                                }
                                label = format!("T{t}: open -> inode {:?}", ns.th[t].fd);
                            }
                            Sys::Flock { blocking } => {
                                let Some(i) = th.fd else { continue };
                                match ns.locks[i as usize] {
                                    None => {
                                        ns.locks[i as usize] = Some(t as u8);
                                        label = format!("T{t}: flock(inode {i}) granted");
                                    }
                                    Some(_) if *blocking => continue, // not enabled: waits
                                    Some(h) => {
                                        ns.th[t].phase = 1;
                                        ns.th[t].pc = 0;
                                        label = format!("T{t}: flock(inode {i}) busy (held by T{h})");
                                    }
                                }
                            }
                            Sys::Close => {
                                if let Some(i) = th.fd {
                                    if ns.locks[i as usize] == Some(t as u8) {
                                        ns.locks[i as usize] = None;
                                    }
                                }
                                ns.th[t].fd = None;
                                label = format!("T{t}: close");
                            }
                            Sys::Unlink => {
                                ns.path = None;
                                label = format!("T{t}: unlink(lock file)");
                            }
                        }
                    }
                }
                _ => continue,
            }
            any = true;
            transitions += 1;
            let in_cs = ns.th.iter().filter(|x| x.phase == 2).count();
            let nh = hash_of(&ns);
            if !seen.contains(&ns) {
                parent.insert(nh, (sh, label.clone()));
            }
            if in_cs > 1 {
                return ModelResult { states: seen.len() as u64, transitions, violation: Some(format!("two contenders hold the lock at once: {} ; {label}", trace_of(&parent, sh))), final_states: finals };
            }
            if seen.insert(ns.clone()) {
                q.push_back(ns);
            }
        }
        if !any {
            if s.th.iter().all(|t| t.phase == 4) {
                finals += 1;
                // a fresh contender can acquire: the path is absent (created again) or its inode is unlocked
                if let Some(i) = s.path {
                    if s.locks[i as usize].is_some() {
                        return ModelResult { states: seen.len() as u64, transitions, violation: Some(format!("after every contender released, the lock is still held: {}", trace_of(&parent, sh))), final_states: finals };
                    }
                }
            } else {
                return ModelResult { states: seen.len() as u64, transitions, violation: Some(format!("deadlock: no contender can move: {}", trace_of(&parent, sh))), final_states: finals };
            }
        }
    }
    ModelResult { states: seen.len() as u64, transitions, violation: None, final_states: finals }
}

pub fn run_family(thorough: bool, st: &mut Stats) -> Value {
    let (w, m, info) = match extract() {
        Ok(x) => x,
        Err(e) => {
            st.errors.push(format!("lock protocol extraction failed: {e}"));
            return json!(null);
        }
    };
    let mut out = vec![];
    let (n, rounds) = if thorough { (4usize, 2u8) } else { (3, 2) };
    for (name, p) in [("writer lock", &w), ("meta lock", &m)] {
        let r = explore(p, n, rounds);
        st.eval();
        st.count_n("lock_model_states", r.states);
        st.count_n("lock_model_transitions", r.transitions);
        st.count_n("lock_model_final_states", r.final_states);
        if let Some(v) = &r.violation {
            st.violation(Violation::new("mmap_lock_protocol_not_exclusive", format!("{name} of MmapDirectory, programs extracted from the system-call trace {:?}: {v}", p), json!({"kind":"lock_protocol"})));
        }
        out.push(json!({"lock":name,"contenders":n,"rounds":rounds,"states":r.states,"transitions":r.transitions,"final_states":r.final_states}));
    }
    json!({"programs": info, "exploration": out})
}

pub fn replay() -> Vec<Violation> {
    let mut st = Stats::default();
    run_family(false, &mut st);
    st.violations
}
