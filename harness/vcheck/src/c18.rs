//! C18 - at most one writer per index; the lock follows the writer's lifetime.
//! Explicit-state enumeration of writer lifecycles over 2-3 Index handles of the same directory.
use std::panic::{catch_unwind, AssertUnwindSafe};

use serde::{Deserialize, Serialize};
use serde_json::{json, Value};
use tantivy::directory::{Directory, MmapDirectory, RamDirectory};
use tantivy::indexer::IndexWriterOptions;
use tantivy::schema::*;
use tantivy::{Index, IndexWriter, TantivyDocument, TantivyError};

use crate::common::*;
use crate::simdir::SimDirectory;

#[derive(Clone, Copy, Debug, PartialEq, Eq, Hash, Serialize, Deserialize)]
pub enum Act {
    New,
    NewZeroThreads,
    NewTinyBudget,
    NewHugeBudget,
    NewTooManyThreads,
    Rollback,
    Drop,
    WaitMerging,
    PrepAbort,
    /// make an indexing worker fail (a text value in the u64 field), then observe add_document failing
    Kill,
    /// commit on the writer (after a kill it returns Err)
    Commit,
}

pub const CREATE_ACTS: [Act; 5] = [Act::New, Act::NewZeroThreads, Act::NewTinyBudget, Act::NewHugeBudget, Act::NewTooManyThreads];
pub const WRITER_ACTS: [Act; 6] = [Act::Rollback, Act::Drop, Act::WaitMerging, Act::PrepAbort, Act::Kill, Act::Commit];

pub type Step = (usize, Act);

fn options(a: Act) -> Option<IndexWriterOptions> {
    let b = IndexWriterOptions::builder();
    Some(match a {
        Act::New => b.num_worker_threads(1).memory_budget_per_thread(15_000_000).build(),
        Act::NewZeroThreads => b.num_worker_threads(0).memory_budget_per_thread(15_000_000).build(),
        Act::NewTinyBudget => b.num_worker_threads(1).memory_budget_per_thread(1_000).build(),
        Act::NewHugeBudget => b.num_worker_threads(1).memory_budget_per_thread(u32::MAX as usize).build(),
        Act::NewTooManyThreads => b.num_worker_threads(1).memory_budget_per_thread(15_000_000).num_merge_threads(0).build(),
        _ => return None,
    })
}

fn schema() -> Schema {
    let mut sb = Schema::builder();
    sb.add_u64_field("n", INDEXED | FAST | STORED);
    sb.add_text_field("t", TEXT | STORED);
    sb.build()
}

pub fn make_dir(kind: &str) -> (Box<dyn Directory>, Option<std::path::PathBuf>) {
    match kind {
        "ram" => (Box::new(RamDirectory::create()), None),
        "sim" => (Box::new(SimDirectory::new()), None),
        _ => {
            let p = std::env::temp_dir().join(format!("vcheck-c18-{}-{:x}", std::process::id(), rand_id()));
            std::fs::create_dir_all(&p).unwrap();
            (Box::new(MmapDirectory::open(&p).unwrap()), Some(p))
        }
    }
}

fn rand_id() -> u64 {
    use std::sync::atomic::{AtomicU64, Ordering};
    static C: AtomicU64 = AtomicU64::new(0);
    C.fetch_add(1, Ordering::SeqCst) ^ (std::time::SystemTime::now().duration_since(std::time::UNIX_EPOCH).unwrap().as_nanos() as u64)
}

struct World {
    handles: Vec<Index>,
    writers: Vec<Option<IndexWriter>>,
    /// model: which handle holds the (single) live writer
    holder: Option<usize>,
    killed: bool,
    /// a commit failed after a worker died: the writer has no indexing worker any more
    no_workers: bool,
    committed_docs: u64,
    next_val: u64,
    tmp: Option<std::path::PathBuf>,
}

impl Drop for World {
    fn drop(&mut self) {
        self.writers.clear();
        if let Some(p) = &self.tmp {
            let _ = std::fs::remove_dir_all(p);
        }
    }
}

fn world(kind: &str, nhandles: usize) -> World {
    let (dir, tmp) = make_dir(kind);
    let index = Index::create(dir.box_clone(), schema(), tantivy::IndexSettings::default()).unwrap();
    let mut handles = vec![index.clone(), Index::open(dir.box_clone()).unwrap()];
    if nhandles > 2 {
        handles.push(index.clone());
    }
    let n = handles.len();
    World { handles, writers: (0..n).map(|_| None).collect(), holder: None, killed: false, no_workers: false, committed_docs: 0, next_val: 1, tmp }
}

fn is_lock_failure(e: &TantivyError) -> bool {
    matches!(e, TantivyError::LockFailure(..))
}

/// the live writer must be fully functional: add + commit, visible through a fresh reader
fn writer_works(w: &mut World) -> Result<(), String> {
    let h = w.holder.ok_or("no holder")?;
    let schema = w.handles[h].schema();
    let n = schema.get_field("n").unwrap();
    let mut d = TantivyDocument::default();
    d.add_u64(n, w.next_val);
    w.next_val += 1;
    let wr = w.writers[h].as_mut().ok_or("model says a writer is alive but the handle has none")?;
    wr.add_document(d).map_err(|e| format!("add_document on the live writer failed: {e:?}"))?;
    wr.commit().map_err(|e| format!("commit on the live writer failed: {e:?}"))?;
    w.committed_docs += 1;
    let cnt = w.handles[h].reader().map_err(|e| format!("{e:?}"))?.searcher().num_docs();
    if cnt != w.committed_docs {
        return Err(format!("{} documents searchable, {} committed by the live writer", cnt, w.committed_docs));
    }
    Ok(())
}

pub fn run_sequence(kind: &str, nhandles: usize, seq: &[Step], st: &mut Stats) -> Option<(String, String)> {
    let mut w = world(kind, nhandles);
    for (i, &(h, act)) in seq.iter().enumerate() {
        st.count("transitions");
        let ctx = format!("step {i} ({h}, {act:?})");
        // writers of odd handles run two indexing workers (a failing worker then leaves a surviving one, which
        // has to be released when the writer is dropped or rolled back)
        let opts = if act == Act::New && h % 2 == 1 { Some(IndexWriterOptions::builder().num_worker_threads(2).memory_budget_per_thread(15_000_000).build()) } else { options(act) };
        if let Some(opts) = opts {
            let r = catch_unwind(AssertUnwindSafe(|| w.handles[h].writer_with_options::<TantivyDocument>(opts)));
            let r = match r {
                Ok(r) => r,
                Err(e) => return Some(("writer_creation_panics".into(), format!("{ctx}: panic {}", panic_message(e)))),
            };
            let someone_alive = w.holder.is_some();
            match (r, someone_alive, act) {
                (Ok(_), true, _) => return Some(("second_writer_created".into(), format!("{ctx}: a writer was created while handle {:?} holds a live writer", w.holder))),
                (Err(e), true, _) => {
                    if !is_lock_failure(&e) {
                        return Some(("wrong_error_while_locked".into(), format!("{ctx}: expected a lock failure, got {e:?}")));
                    }
                    st.count("refused_creations");
                    // the live writer is not disturbed
                    if !w.killed && !w.no_workers {
                        if let Err(m) = writer_works(&mut w) {
                            return Some(("live_writer_disturbed".into(), format!("{ctx}: after the refused creation, {m}")));
                        }
                    }
                }
                (Ok(wr), false, Act::New) => {
                    w.writers[h] = Some(wr);
                    w.holder = Some(h);
                    w.killed = false;
                    w.no_workers = false;
                    st.count("writers_created");
                }
                (Err(e), false, Act::New) => return Some(("writer_creation_refused_while_free".into(), format!("{ctx}: no writer is alive but creation failed: {e:?}"))),
                (Ok(wr), false, _) => {
                    // an "invalid" configuration the implementation accepts is a legitimate writer
                    w.writers[h] = Some(wr);
                    w.holder = Some(h);
                    w.killed = false;
                    st.count("writers_created_with_odd_options");
                }
                (Err(e), false, _) => {
                    if is_lock_failure(&e) {
                        return Some(("writer_creation_refused_while_free".into(), format!("{ctx}: no writer is alive but creation reported a lock failure: {e:?}")));
                    }
                    st.count("failed_constructions");
                }
            }
            continue;
        }
        // writer actions: only on the holder
        if w.holder != Some(h) {
            continue;
        }
        match act {
            Act::Drop => {
                w.writers[h] = None;
                w.holder = None;
            }
            Act::WaitMerging => {
                let wr = w.writers[h].take().unwrap();
                let r = wr.wait_merging_threads();
                w.holder = None;
                if let (Err(e), false) = (&r, w.killed) {
                    return Some(("wait_merging_threads_failed".into(), format!("{ctx}: {e:?}")));
                }
            }
            Act::Rollback => {
                let r = catch_unwind(AssertUnwindSafe(|| w.writers[h].as_mut().unwrap().rollback()));
                match r {
                    Err(e) => return Some(("rollback_panics".into(), format!("{ctx}: panic {}", panic_message(e)))),
                    Ok(Ok(_)) => {
                        w.killed = false;
                        w.no_workers = false;
                        st.count("rollbacks");
                    }
                    Ok(Err(e)) => {
                        if !w.killed {
                            return Some(("rollback_failed".into(), format!("{ctx}: {e:?}")));
                        }
                        st.count("rollbacks_failed_after_kill");
                    }
                }
                // the lock is kept across rollback: checked by the next creation attempts (model: holder unchanged)
            }
            Act::PrepAbort => {
                let wr = w.writers[h].as_mut().unwrap();
                match wr.prepare_commit() {
                    Ok(pc) => {
                        if let Err(e) = pc.abort() {
                            if !w.killed {
                                return Some(("abort_failed".into(), format!("{ctx}: {e:?}")));
                            }
                        } else {
                            w.killed = false;
                        }
                    }
                    Err(e) => {
                        if !w.killed {
                            return Some(("prepare_commit_failed".into(), format!("{ctx}: {e:?}")));
                        }
                    }
                }
            }
            Act::Kill if w.killed || w.no_workers => {}
            Act::Kill => {
                let schema = w.handles[h].schema();
                let n = schema.get_field("n").unwrap();
                let wr = w.writers[h].as_mut().unwrap();
                let mut bad = TantivyDocument::default();
                bad.add_text(n, "not a number");
                let _ = wr.add_document(bad);
                // wait until the worker has died: add_document starts failing
                let t0 = std::time::Instant::now();
                let mut dead = false;
                while t0.elapsed() < std::time::Duration::from_secs(3) {
                    let mut d = TantivyDocument::default();
                    d.add_u64(n, 0);
                    if wr.add_document(d).is_err() {
                        dead = true;
                        break;
                    }
                    std::thread::sleep(std::time::Duration::from_millis(1));
                }
                if dead {
                    w.killed = true;
                    st.count("workers_killed");
                } else {
                    return Some(("machinery_kill_failed".into(), format!("{ctx}: the indexing worker did not die")));
                }
            }
            Act::Commit => {
                let wr = w.writers[h].as_mut().unwrap();
                match wr.commit() {
                    Ok(_) => {
                        if w.killed {
                            // a commit after a worker failure can return Ok while the writer has no indexing
                            // worker left (the failed prepare_commit drained them and did not re-create any):
                            // that is C11's recorded finding; until a rollback this writer is not probed here
                            w.killed = false;
                            w.no_workers = true;
                        }
                        w.committed_docs = w.handles[h].reader().ok()?.searcher().num_docs();
                    }
                    Err(_) => {
                        // after a worker failure commit reports the error; the writer keeps the lock
                        w.no_workers = true;
                    }
                }
            }
            _ => {}
        }
    }
    // closing invariant: release everything, then a new writer can always be opened, on every handle
    let n = w.handles.len();
    for h in 0..n {
        w.writers[h] = None;
    }
    w.holder = None;
    for h in 0..n {
        match w.handles[h].writer_with_num_threads::<TantivyDocument>(1, 15_000_000) {
            Ok(wr) => drop(wr),
            Err(e) => return Some(("writer_cannot_be_reopened".into(), format!("after the sequence, with every writer released, handle {h} cannot create a writer: {e:?}"))),
        }
    }
    None
}

/// all sequences of exactly `depth` steps that respect applicability under the *model*
fn enumerate(nhandles: usize, depth: usize) -> Vec<Vec<Step>> {
    let mut out = vec![];
    fn rec(cur: &mut Vec<Step>, holder: Option<usize>, nhandles: usize, depth: usize, out: &mut Vec<Vec<Step>>) {
        if cur.len() == depth {
            out.push(cur.clone());
            return;
        }
        for h in 0..nhandles {
            for a in CREATE_ACTS {
                // invalid configurations are only interesting while nobody holds the lock, valid ones always
                if a != Act::New && holder.is_some() {
                    continue;
                }
                cur.push((h, a));
                let nh = if holder.is_none() && a == Act::New { Some(h) } else { holder };
                rec(cur, nh, nhandles, depth, out);
                cur.pop();
            }
            if holder == Some(h) {
                for a in WRITER_ACTS {
                    cur.push((h, a));
                    let nh = if matches!(a, Act::Drop | Act::WaitMerging) { None } else { holder };
                    rec(cur, nh, nhandles, depth, out);
                    cur.pop();
                }
            }
        }
    }
    rec(&mut vec![], None, nhandles, depth, &mut out);
    out
}

/// racing creations on real threads (auxiliary: a sampled race, not part of the exhaustive claim)
pub fn race(kind: &str, rounds: usize, st: &mut Stats) -> Option<(String, String)> {
    for round in 0..rounds {
        let (dir, tmp) = make_dir(kind);
        let index = Index::create(dir.box_clone(), schema(), tantivy::IndexSettings::default()).ok()?;
        let handles: Vec<Index> = (0..4).map(|i| if i % 2 == 0 { index.clone() } else { Index::open(dir.box_clone()).unwrap() }).collect();
        let barrier = std::sync::Arc::new(std::sync::Barrier::new(handles.len()));
        let results: Vec<bool> = std::thread::scope(|s| {
            let hs: Vec<_> = handles
                .iter()
                .map(|h| {
                    let b = barrier.clone();
                    s.spawn(move || {
                        b.wait();
                        let r = h.writer_with_num_threads::<TantivyDocument>(1, 15_000_000);
                        // keep the writer alive until everybody has tried
                        b.wait();
                        r.is_ok()
                    })
                })
                .collect();
            hs.into_iter().map(|h| h.join().unwrap()).collect()
        });
        st.count("race_rounds");
        let winners = results.iter().filter(|x| **x).count();
        if let Some(p) = tmp {
            let _ = std::fs::remove_dir_all(p);
        }
        if winners != 1 {
            return Some(("concurrent_creation_not_exclusive".into(), format!("round {round} on {kind}: {winners} of {} concurrent creation attempts obtained a writer", results.len())));
        }
    }
    None
}

pub fn replay(case: &Value) -> Vec<Violation> {
    quiet_panics();
    let mut st = Stats::default();
    let kind = case["dir"].as_str().unwrap_or("ram").to_string();
    if case.get("point").is_some() {
        return crate::preempt_family::replay(case);
    }
    if case["kind"] == "lock_protocol" {
        return crate::c18lock::replay().into_iter().map(|v| Violation::new(&v.rule, v.what, case.clone())).collect();
    }
    let r = if case["kind"] == "race" {
        catch_unwind(AssertUnwindSafe(|| race(&kind, 3000, &mut st)))
    } else {
        let seq: Vec<Step> = serde_json::from_value(case["sequence"].clone()).unwrap_or_default();
        let nh = case["handles"].as_u64().unwrap_or(2) as usize;
        catch_unwind(AssertUnwindSafe(|| run_sequence(&kind, nh, &seq, &mut st)))
    };
    match r {
        Ok(None) => vec![],
        Ok(Some((r, w))) => vec![Violation::new(&r, w, case.clone())],
        Err(e) => vec![Violation::new("lifecycle_panic", panic_message(e), case.clone())],
    }
}

fn work_list(thorough: bool) -> Vec<(String, usize, Vec<Step>)> {
    let mut work: Vec<(String, usize, Vec<Step>)> = vec![];
    let depth = if thorough { 5 } else { 4 };
    for kind in ["ram", "sim", "mmap"] {
        let d = if kind == "mmap" { depth - 1 } else { depth };
        for seq in enumerate(2, d) {
            work.push((kind.to_string(), 2, seq));
        }
    }
    if thorough {
        for seq in enumerate(3, 4) {
            work.push(("ram".to_string(), 3, seq));
        }
    }
    work
}

/// worker process: vcheck worker C18 seq start end step <tier>
pub fn worker(_family: &str, start: u64, end: u64, step: u64, arg: &str) {
    quiet_panics();
    crate::iso::worker_guard(8 << 30, 60_000);
    let work = work_list(arg == "thorough");
    let mut st = Stats::default();
    let mut idx = start;
    while idx < end.min(work.len() as u64) {
        let (kind, nh, seq) = &work[idx as usize];
        crate::iso::set_current(idx);
        st.eval();
        if seq.iter().filter(|s| s.1 == Act::New).count() >= 2 {
            st.count("nontrivial");
        }
        let r = catch_unwind(AssertUnwindSafe(|| run_sequence(kind, *nh, seq, &mut st)));
        crate::iso::idle();
        let v = match r {
            Ok(None) => None,
            Ok(Some(x)) => Some(x),
            Err(e) => Some(("lifecycle_panic".to_string(), format!("{} [{}]", panic_message(e), last_panic()))),
        };
        if let Some((rule, what)) = v {
            crate::iso::emit(&json!({"t":"V","rule":rule,"what":what,"idx":idx}).to_string());
        }
        idx += step;
    }
    crate::iso::emit(&json!({"t":"S","evals":st.evaluations,"counters":st.counters}).to_string());
    crate::iso::emit("DONE");
}

pub fn run(ctx: &Ctx) -> Report {
    quiet_panics();
    let mut rep = Report::new("model_checking");
    let thorough = ctx.tier.is_thorough();
    let work = work_list(thorough);
    let mut st = Stats::default();
    let o = crate::iso::run_isolated(ctx, "C18", "seq", work.len() as u64, ctx.tier.name());
    st.errors.extend(o.machinery_errors);
    for (kind, idx) in o.crashes {
        let (dk, nh, seq) = &work[idx as usize];
        st.violation(Violation::new(&format!("lifecycle_{kind}"), format!("{dk} directory, {nh} handles, sequence {seq:?}: the worker process did not return ({kind})"), json!({"dir":dk,"handles":nh,"sequence":seq})));
    }
    for l in o.lines {
        let Ok(v) = serde_json::from_str::<Value>(&l) else { continue };
        if v["t"] == "V" {
            let (dk, nh, seq) = &work[v["idx"].as_u64().unwrap_or(0) as usize];
            st.violation(Violation::new(v["rule"].as_str().unwrap_or("?"), format!("{dk} directory, {nh} handles, sequence {seq:?}: {}", v["what"].as_str().unwrap_or("")), json!({"dir":dk,"handles":nh,"sequence":seq})));
        } else if v["t"] == "S" {
            st.evaluations += v["evals"].as_u64().unwrap_or(0);
            if let Some(c) = v["counters"].as_object() {
                for (k, x) in c {
                    st.count_n(k, x.as_u64().unwrap_or(0));
                }
            }
        }
    }
    for i in [0, work.len() / 2, work.len() - 1] {
        st.sample(json!({"dir":work[i].0,"handles":work[i].1,"sequence":work[i].2}));
    }
    let done = o.completed as usize;
    // auxiliary race (sampled)
    for kind in ["ram", "mmap", "sim"] {
        let rounds = if thorough { 3000 } else { 300 };
        match catch_unwind(AssertUnwindSafe(|| race(kind, rounds, &mut st))) {
            Ok(None) => {}
            Ok(Some((r, w))) => st.violation(Violation::new(&r, w, json!({"kind":"race","dir":kind}))),
            Err(e) => st.violation(Violation::new("lifecycle_panic", format!("race: {}", panic_message(e)), json!({"kind":"race","dir":kind}))),
        }
    }
    // the lock during wait_merging_threads: a second writer attempted at every storage operation of the merge
    let p = crate::preempt_family::run_family(ctx, "C18");
    rep.set("preemption_scenarios", Value::Array(p.info));
    let pcomplete = p.complete;
    st.merge(p.st);
    // MmapDirectory's flock protocol: programs extracted from the system-call trace, all interleavings explored
    let lock_info = crate::c18lock::run_family(thorough, &mut st);
    rep.set("mmap_lock_protocol", lock_info);
    rep.set("exhaustive", o.complete && done == work.len() && pcomplete);
    rep.set("sequences", work.len() as u64);
    rep.set("rule", "every sequence of exactly 4 (thorough 5) lifecycle steps over 2 handles (a clone and a separately opened Index of the same directory; thorough also 3 handles) x {create with valid options, with 0 threads / 1 kB budget / 4 GiB budget / 0 merge threads, rollback, drop, wait_merging_threads, prepare+abort, kill an indexing worker, commit} restricted to applicable steps, on RamDirectory, SimDirectory and MmapDirectory (one step less): creation succeeds iff no writer is alive on any handle, a refused creation is a lock failure and leaves the live writer able to add + commit, and after releasing everything every handle can create a writer. While wait_merging_threads() is blocked on a merge, a second writer is attempted on another Index handle in front of every storage operation and hook point of the merge thread: always refused with a lock error, and the lock is free afterwards. Concurrent attempts on MmapDirectory: the system-call programs of a successful acquisition, a busy acquisition and a release of the writer lock and of the meta lock are extracted from a strace of the real code, and an explicit-state search explores every interleaving of 3 (thorough 4) contenders x 2 rounds of these programs over a model of the name space and of flock (a lock belongs to an open file description of an inode, not to the path): never two holders, no deadlock, the lock is free at the end. Auxiliary (sampled, not part of the exhaustive claim): 4 threads racing to create a writer, 300 (3000) rounds per directory kind. Non-trivial: sequence with >= 2 valid creation attempts; sequences are distinct by construction");
    for k in ["writers_created", "refused_creations", "failed_constructions", "rollbacks", "workers_killed", "race_rounds", "lock_model_states", "lock_model_final_states"] {
        if st.counters.get(k).copied().unwrap_or(0) == 0 {
            rep.machinery_errors.push(format!("vacuous: {k} = 0"));
        }
    }
    let nontrivial = st.counters.get("nontrivial").copied().unwrap_or(0);
    rep.set("states", nontrivial.max(1));
    rep.set("transitions", st.counters.get("transitions").copied().unwrap_or(1));
    rep.set("traces_validated_against_impl", st.evaluations);
    rep.assume("cross-process exclusion is exercised in-process with separately opened Index instances (separate inventories, same lock file / flock)");
    rep.merge_stats(&st);
    rep.set("distinct_nontrivial", nontrivial);
    rep.violations = st.violations;
    rep.machinery_errors.extend(st.errors);
    rep
}
