//! Runs the preemption scenarios of scen.rs in worker processes for a property (C05 or C10) and keeps the
//! violations whose rule belongs to that property.
use std::panic::{catch_unwind, AssertUnwindSafe};

use serde_json::{json, Value};

use crate::common::*;
use crate::scen::*;

pub const C10_RULES: &[&str] = &[
    "needed_file_missing_when_opened",
    "needed_file_missing_at_quiescence",
    "orphan_files_at_quiescence",
    "managed_list_differs_at_quiescence",
    "call_fails_needed_file_missing",
    "reload_fails_file_missing",
    "forced_collection_fails",
    "forced_collection_panics",
    "final_index_unreadable",
];
pub const C05_RULES: &[&str] = &[
    "reload_fails",
    "reload_fails_file_missing",
    "reload_not_a_commit",
    "reload_moved_back",
    "reload_not_the_last_commit",
    "held_searcher_changed",
    "held_searcher_fails",
    "searcher_inconsistent",
    "reader_creation_fails",
    "reader_panics",
    "final_content_differs",
    "final_index_unreadable",
    "commit_identity_differs",
    "content_differs_after_merge",
    "index_unreadable_after_merge",
];
pub const C18_RULES: &[&str] = &["second_writer_during_wait_merging_threads", "refused_creation_not_a_lock_error", "lock_not_released"];
pub const C02_ONLY_RULES: &[&str] = &["commit_not_a_sequential_order_of_concurrent_calls"];
pub const C04_RULES: &[&str] = &["content_differs_after_merge", "index_unreadable_after_merge", "final_content_differs", "final_index_unreadable", "reload_moved_back", "commit_identity_differs"];
/// reported for both: the harness cannot tell whose they are
pub const SHARED_RULES: &[&str] = &["call_fails", "writer_action_panics", "scenario_panics"];

pub fn belongs(prop: &str, rule: &str) -> bool {
    let own = match prop {
        "C10" => C10_RULES,
        "C04" | "C02" | "C11" => C04_RULES,
        "C18" => C18_RULES,
        _ => C05_RULES,
    };
    own.contains(&rule) || SHARED_RULES.contains(&rule) || (prop == "C02" && C02_ONLY_RULES.contains(&rule))
}

fn relevant(prop: &str, k: &Kind) -> bool {
    match (prop, k) {
        ("C04" | "C02", Kind::MergeVsOps { .. } | Kind::MergeVsRestart { .. } | Kind::OverlappingMerges { .. } | Kind::CommitVsMergeEnd) => true,
        ("C18", Kind::WaitMergingVsNewWriter) => true,
        ("C18", _) | (_, Kind::WaitMergingVsNewWriter) => false,
        ("C02", Kind::Producers { .. }) => true,
        (_, Kind::Producers { .. }) => false,
        ("C11" | "C04", Kind::MergeVsOpsFault { .. }) => true,
        (_, Kind::MergeVsOpsFault { .. }) => false,
        ("C11", _) => false,
        ("C04" | "C02", _) => false,
        ("C05", Kind::GcVsWriters { .. } | Kind::GcVsSortedWriters { .. } | Kind::MergeVsOps { .. }) => false,
        ("C10", Kind::OverlappingMerges { .. } | Kind::CommitVsMergeEnd) => false,
        _ => true,
    }
}

fn work_file(prop: &str) -> String {
    let d = format!("{}/harness/target/preempt", verif_root());
    let _ = std::fs::create_dir_all(&d);
    format!("{d}/{prop}-work.json")
}

#[derive(serde::Serialize, serde::Deserialize, Clone)]
pub struct Item {
    pub kind: Kind,
    pub point: Option<Point>,
}

fn run_item(it: &Item) -> (Vec<(String, String)>, Option<crate::presched::Outcome>, Vec<String>) {
    match catch_unwind(AssertUnwindSafe(|| run(&it.kind, it.point.as_ref()))) {
        Ok(r) => (r.violations, r.outcome, r.notes),
        Err(e) => (vec![("scenario_panics".to_string(), format!("{} [{}]", panic_message(e), last_panic()))], None, vec![]),
    }
}

pub fn worker(prop: &str, start: u64, end: u64, step: u64, arg: &str) {
    quiet_panics();
    crate::presched::install_handler();
    crate::iso::worker_guard(8 << 30, 30_000);
    let items: Vec<Item> = serde_json::from_str(&std::fs::read_to_string(arg).unwrap()).unwrap();
    let mut st = Stats::default();
    let mut idx = start;
    while idx < end.min(items.len() as u64) {
        let it = &items[idx as usize];
        crate::iso::set_current(idx);
        st.eval();
        let (viol, outcome, _notes) = run_item(it);
        crate::iso::idle();
        match &outcome {
            Some(o) if o.fired => {
                st.count("preemptions_fired");
                if o.blocked_on_lock {
                    st.count("action_blocked_on_directory_lock");
                } else if o.timed_out {
                    st.count("action_blocked_in_memory_timeout");
                } else {
                    st.count("action_ran_to_completion_inside");
                }
            }
            Some(_) => st.count("point_not_reached"),
            None => st.count("baseline_runs"),
        }
        for (rule, what) in viol {
            if rule == "machinery" {
                crate::iso::emit(&json!({"t":"E","what":what,"idx":idx}).to_string());
            } else if belongs(prop, &rule) {
                crate::iso::emit(&json!({"t":"V","rule":rule,"what":what,"idx":idx,"at":outcome.as_ref().map(|o| o.at_op.clone())}).to_string());
            } else {
                st.count(&format!("other_property_rule.{rule}"));
            }
        }
        idx += step;
    }
    crate::iso::emit(&json!({"t":"S","evals":st.evaluations,"counters":st.counters}).to_string());
    crate::iso::emit("DONE");
}

pub struct PreemptOutcome {
    pub st: Stats,
    pub complete: bool,
    pub info: Vec<Value>,
}

pub fn run_family(ctx: &Ctx, prop: &str) -> PreemptOutcome {
    quiet_panics();
    crate::presched::install_handler();
    let thorough = ctx.tier.is_thorough();
    let mut st = Stats::default();
    let mut items: Vec<Item> = vec![];
    let mut info = vec![];
    for k in scenarios(thorough).into_iter().filter(|k| relevant(prop, k)) {
        // recording run (no preemption): its own verdict counts, its ranges give the points
        let r = match catch_unwind(AssertUnwindSafe(|| run(&k, None))) {
            Ok(r) => r,
            Err(e) => {
                st.errors.push(format!("recording run of {k:?} panicked: {}", panic_message(e)));
                continue;
            }
        };
        for (rule, what) in &r.violations {
            if rule == "machinery" {
                st.errors.push(what.clone());
            } else if belongs(prop, rule) {
                st.violation(Violation::new(rule, format!("scenario {k:?} without preemption: {what}"), json!({"prop":prop,"kind":k,"point":Value::Null})));
            }
        }
        let pts = points(&k, &r.ranges);
        info.push(json!({"scenario":k,"threads":r.ranges.iter().map(|(t,(a,b))| (t.clone(), b-a)).collect::<std::collections::BTreeMap<_,_>>(),"preemption_points":pts.len()}));
        for p in pts {
            items.push(Item { kind: k.clone(), point: Some(p) });
        }
    }
    let path = work_file(prop);
    std::fs::write(&path, serde_json::to_string(&items).unwrap()).unwrap();
    let o = crate::iso::run_isolated(ctx, prop, "preempt", items.len() as u64, &path);
    st.errors.extend(o.machinery_errors);
    for (kind, idx) in o.crashes {
        let it = &items[idx as usize];
        st.violation(Violation::new(&format!("scenario_{kind}"), format!("scenario {:?} preempted at {:?}: the process did not return ({kind})", it.kind, it.point), json!({"prop":prop,"kind":it.kind,"point":it.point})));
    }
    for l in o.lines {
        let Ok(v) = serde_json::from_str::<Value>(&l) else { continue };
        if v["t"] == "V" {
            let it = &items[v["idx"].as_u64().unwrap_or(0) as usize];
            st.violation(Violation::new(v["rule"].as_str().unwrap_or("?"), format!("scenario {:?} preempted at {} ({:?}): {}", it.kind, v["at"], it.point, v["what"].as_str().unwrap_or("")), json!({"prop":prop,"kind":it.kind,"point":it.point})));
        } else if v["t"] == "E" {
            st.errors.push(v["what"].as_str().unwrap_or("").to_string());
        } else if v["t"] == "S" {
            st.evaluations += v["evals"].as_u64().unwrap_or(0);
            if let Some(c) = v["counters"].as_object() {
                for (k, x) in c {
                    st.count_n(k, x.as_u64().unwrap_or(0));
                }
            }
        }
    }
    let _ = std::fs::remove_file(&path);
    info.push(json!({"items":items.len(),"completed":o.completed}));
    PreemptOutcome { st, complete: o.complete, info }
}

/// replay of one (scenario, point): timing can matter after the preemption, so a replay gets a few attempts
pub fn replay(case: &Value) -> Vec<Violation> {
    quiet_panics();
    crate::presched::install_handler();
    let prop = case["prop"].as_str().unwrap_or("C10").to_string();
    let Ok(kind) = serde_json::from_value::<Kind>(case["kind"].clone()) else { return vec![] };
    let point: Option<Point> = serde_json::from_value(case["point"].clone()).ok().flatten();
    let it = Item { kind, point };
    for _ in 0..5 {
        let (viol, _, _) = run_item(&it);
        let v: Vec<Violation> = viol.into_iter().filter(|(r, _)| belongs(&prop, r)).map(|(r, w)| Violation::new(&r, w, case.clone())).collect();
        if !v.is_empty() {
            return v;
        }
    }
    vec![]
}
