//! C11 - an I/O error never corrupts the index nor is silently swallowed (E-FAULT on SimDirectory).
use std::collections::BTreeSet;
use std::panic::{catch_unwind, AssertUnwindSafe};
use std::sync::atomic::{AtomicBool, Ordering};
use std::sync::Arc;

use serde::{Deserialize, Serialize};
use serde_json::{json, Value};
use tantivy::Index;

use crate::common::*;
use crate::simdir::{io_fault, FaultFn, LogEntry, Op, OpDesc, SimDirectory};
use crate::wl::*;

#[derive(Clone, Debug, Serialize, Deserialize, PartialEq)]
pub struct Case {
    pub workload: usize,
    pub cfg: WlConfig,
    /// the targeted operation of the fault-free run: logical thread + index among that thread's operations
    pub tid: String,
    pub thread_index: usize,
    pub kind: String,
    pub permanent: bool,
    pub policy: Policy,
    /// reads through file handles are storage operations in this case (they can be the target)
    #[serde(default)]
    pub reads: bool,
}

pub fn configs() -> Vec<WlConfig> {
    vec![
        WlConfig { workers: 1, dedicated_compressor: false },
        WlConfig { workers: 1, dedicated_compressor: true },
        WlConfig { workers: 2, dedicated_compressor: false },
        WlConfig { workers: 2, dedicated_compressor: true },
    ]
}

/// runs the workload without faults and returns the storage log
pub fn fault_free_log(workload: usize, cfg: &WlConfig, reads: bool) -> Vec<LogEntry> {
    let sim = SimDirectory::new();
    sim.set_read_points(reads);
    let mut d = Driver::new(sim.clone(), cfg);
    d.create_index().unwrap();
    d.open_writer().unwrap();
    for s in &workloads()[workload].1 {
        d.step(*s);
    }
    d.writer = None;
    sim.log()
}

/// (tid, thread_index, kind) of every storage operation of the log
pub fn targets(log: &[LogEntry]) -> Vec<(String, usize, String)> {
    let mut per: std::collections::BTreeMap<String, usize> = Default::default();
    let mut out = vec![];
    for e in log {
        if matches!(e.op, Op::Marker(_)) {
            continue;
        }
        let c = per.entry(e.tid.clone()).or_insert(0);
        out.push((e.tid.clone(), *c, e.op.kind().to_string()));
        *c += 1;
    }
    out
}

fn directory_exact(sim: &SimDirectory) -> Result<(), String> {
    let index = Index::open(sim.clone()).map_err(|e| format!("{e:?}"))?;
    let mut want: BTreeSet<String> = ["meta.json".to_string(), ".managed.json".to_string()].into_iter().collect();
    let files: BTreeSet<String> = sim.file_names().into_iter().collect();
    for m in index.searchable_segment_metas().map_err(|e| format!("{e:?}"))? {
        for f in m.list_files() {
            let f = f.to_string_lossy().to_string();
            if files.contains(&f) {
                want.insert(f);
            }
        }
    }
    let extra: Vec<&String> = files.difference(&want).collect();
    if !extra.is_empty() {
        let listed: Vec<String> = String::from_utf8(sim.read_file(".managed.json").unwrap_or_default()).ok().and_then(|t| serde_json::from_str::<Vec<String>>(&t).ok()).unwrap_or_default();
        let unlisted: Vec<&&String> = extra.iter().filter(|f| !listed.contains(**f)).collect();
        return Err(format!("files left behind after the final collection: {extra:?} (of which not in the persisted managed list: {unlisted:?})"));
    }
    let managed: BTreeSet<String> = index.directory().list_managed_files().into_iter().map(|p| p.to_string_lossy().to_string()).collect();
    let want_managed: BTreeSet<String> = want.iter().filter(|f| !f.starts_with('.')).cloned().collect();
    if managed != want_managed {
        return Err(format!("managed list {:?} differs from the files that exist {:?}", managed, want_managed));
    }
    Ok(())
}

pub fn run_case(c: &Case, st: &mut Stats) -> Option<(String, String)> {
    let sim = SimDirectory::new();
    sim.set_read_points(c.reads);
    let fired = Arc::new(AtomicBool::new(false));
    let (tid, tix, permanent) = (c.tid.clone(), c.thread_index, c.permanent);
    let f2 = fired.clone();
    let fault: FaultFn = Arc::new(move |d: &OpDesc| {
        if f2.load(Ordering::SeqCst) {
            return if permanent { Some(io_fault("permanent")) } else { None };
        }
        if d.tid == tid && d.thread_index == tix {
            f2.store(true, Ordering::SeqCst);
            return Some(io_fault("transient"));
        }
        None
    });
    let mut d = Driver::new(sim.clone(), &c.cfg);
    sim.set_fault(Some(fault.clone()));
    // admissible storage states after a failure: last ok commit or a failed commit's complete state
    let mut attempted_since_ok: Vec<BTreeSet<u64>> = vec![];
    let with_faults_off = |sim: &SimDirectory, f: &mut dyn FnMut() -> Option<(String, String)>| -> Option<(String, String)> {
        sim.set_fault(None);
        let r = f();
        sim.set_fault(Some(fault.clone()));
        r
    };
    let steps = workloads()[c.workload].1.clone();
    let r = catch_unwind(AssertUnwindSafe(|| -> Option<(String, String)> {
        if let Err(e) = d.create_index() {
            // index creation failed: nothing else can be asked for except that the error was reported
            st.count("create_index_failed");
            let _ = e;
            return None;
        }
        if d.open_writer().is_err() {
            st.count("open_writer_failed");
            return None;
        }
        let mut handled_error = false;
        let mut i = 0;
        while i < steps.len() {
            let s = steps[i];
            let had_writer = d.writer.is_some();
            let ok = d.step(s);
            if s == Step::Reload && ok {
                // a reload that returned Ok hands out a searcher that works (every file was opened): it shows a
                // whole commit and its queries do not fail
                st.count("reloads_ok");
                if let Some(r) = d.reader.as_ref() {
                    // (faults off: a read that fails while searching is reported by the search, which is fine)
                    sim.set_fault(None);
                    let fp = crate::scen::fingerprint(&r.searcher());
                    sim.set_fault(Some(fault.clone()));
                    match fp {
                        Ok(ids) if d.model.history.contains(&ids) || attempted_since_ok.contains(&ids) => {}
                        Ok(ids) => return Some(("reload_ok_not_a_commit".to_string(), format!("step {i} Reload returned Ok but its searcher shows {ids:?}; commits: {:?}", d.model.history))),
                        Err(e) => return Some(("reload_ok_searcher_unusable".to_string(), format!("step {i} Reload returned Ok but its searcher cannot be queried: {e}"))),
                    }
                }
            }
            if matches!(s, Step::Commit | Step::CommitPayload) && had_writer {
                if ok {
                    attempted_since_ok.clear();
                    st.count("commits_ok");
                    let committed = d.model.committed.clone();
                    let after_error = handled_error;
                    let v = with_faults_off(&sim, &mut || {
                        match read_ids(&sim) {
                            Ok(ids) if ids == committed => {}
                            Ok(ids) => {
                                let rule = if after_error && c.policy == Policy::GoOn { "commit_ok_incomplete_same_writer_after_error" } else { "commit_ok_incomplete" };
                                return Some((rule.to_string(), format!("step {i} {s:?} returned Ok but a fresh open shows {ids:?}, the acknowledged operations give {committed:?}")));
                            }
                            Err(e) => return Some(("commit_ok_unreadable".to_string(), format!("step {i} {s:?} returned Ok but the index cannot be read: {e}"))),
                        }
                        match Index::open(sim.clone()).and_then(|ix| ix.validate_checksum()) {
                            Ok(bad) if bad.is_empty() => None,
                            Ok(bad) => Some(("commit_ok_checksum".to_string(), format!("step {i} {s:?} returned Ok but validate_checksum reports {bad:?}"))),
                            Err(e) => Some(("commit_ok_unreadable".to_string(), format!("validate_checksum: {e:?}"))),
                        }
                    });
                    if v.is_some() {
                        return v;
                    }
                } else if let Some(a) = d.attempted.take() {
                    attempted_since_ok.push(a);
                }
            }
            if ok && handled_error {
                // once an error has been reported, the storage must stay in an admissible state after every
                // later call as well (e.g. a collection must not remove files the stored meta.json still needs)
                let committed = d.model.committed.clone();
                let admissible = attempted_since_ok.clone();
                let v = with_faults_off(&sim, &mut || match read_ids(&sim) {
                    Ok(ids) if ids == committed || admissible.contains(&ids) => None,
                    Ok(ids) => Some(("storage_state_mixed_after_error".to_string(), format!("after step {i} {s:?} (which followed a reported error) a fresh open shows {ids:?}; last ok commit {committed:?}, failed commits {admissible:?}"))),
                    Err(e) => Some(("storage_unreadable_after_error".to_string(), format!("after step {i} {s:?} (which followed a reported error): {e}"))),
                });
                if v.is_some() {
                    return v;
                }
            }
            if !ok {
                st.count("api_errors");
                // whatever failed, the storage holds the last ok commit or a failed commit's complete state
                let committed = d.model.committed.clone();
                let admissible = attempted_since_ok.clone();
                let mut on_storage: Option<BTreeSet<u64>> = None;
                let v = with_faults_off(&sim, &mut || match read_ids(&sim) {
                    Ok(ids) if ids == committed || admissible.contains(&ids) => {
                        on_storage = Some(ids);
                        None
                    }
                    Ok(ids) => Some(("storage_state_mixed_after_error".to_string(), format!("after the failed step {i} {s:?} a fresh open shows {ids:?}; last ok commit {committed:?}, failed commits {admissible:?}"))),
                    Err(e) => Some(("storage_unreadable_after_error".to_string(), format!("after the failed step {i} {s:?}: {e}"))),
                });
                if v.is_some() {
                    return v;
                }
                if !handled_error {
                    handled_error = true;
                    match c.policy {
                        Policy::Rollback => {
                            if d.writer.is_some() && !d.step(Step::Rollback) {
                                // rollback failed too: fall back to a new writer
                                d.step(Step::NewWriter);
                            }
                        }
                        Policy::NewWriter => {
                            d.step(Step::NewWriter);
                        }
                        Policy::GoOn => {}
                    }
                    // A commit can report an error after its commit point (the directory sync that makes the
                    // replaced meta.json durable failed): the storage then holds that commit's complete state,
                    // which is admissible, and a writer rolled back / opened afterwards starts from it. The
                    // reference continues from what the storage holds, as the writer does.
                    if c.policy != Policy::GoOn {
                        if let Some(ids) = on_storage {
                            if ids != d.model.committed {
                                st.count("failed_commit_had_taken_effect");
                                d.model.committed = ids.clone();
                                d.model.working = ids;
                            }
                        }
                    }
                }
            }
            i += 1;
        }
        // recovery: faults off, writer dropped, a new writer must work
        sim.set_fault(None);
        d.writer = None;
        d.reader = None;
        let before = match read_ids(&sim) {
            Ok(ids) => ids,
            Err(e) => return Some(("storage_unreadable_at_end".into(), e)),
        };
        if !(before == d.model.committed || attempted_since_ok.contains(&before)) {
            return Some(("storage_state_mixed_at_end".into(), format!("at the end a fresh open shows {before:?}; last ok commit {:?}, failed commits {attempted_since_ok:?}", d.model.committed)));
        }
        let index = match Index::open(sim.clone()) {
            Ok(i) => i,
            Err(e) => return Some(("storage_unreadable_at_end".into(), format!("{e:?}"))),
        };
        let mut w: tantivy::IndexWriter = match index.writer_with_options(writer_options(&c.cfg)) {
            Ok(w) => w,
            Err(e) => return Some(("new_writer_fails_after_errors".into(), format!("{e:?}"))),
        };
        w.set_merge_policy(Box::new(tantivy::merge_policy::NoMergePolicy));
        if let Err(e) = w.add_document(make_doc(&schema(), 100)) {
            return Some(("new_writer_fails_after_errors".into(), format!("add: {e:?}")));
        }
        if let Err(e) = w.commit() {
            return Some(("new_writer_fails_after_errors".into(), format!("commit: {e:?}")));
        }
        if let Err(e) = w.garbage_collect_files().wait() {
            return Some(("new_writer_fails_after_errors".into(), format!("garbage_collect_files: {e:?}")));
        }
        // threads of the failed writer (a worker unwinding, a merge ending) may still hold segment objects for a
        // moment, which protects their files from this collection: the directory is judged at quiescence
        for _ in 0..60 {
            if directory_exact(&sim).is_ok() {
                break;
            }
            std::thread::sleep(std::time::Duration::from_millis(50));
            let _ = w.garbage_collect_files().wait();
        }
        drop(w);
        let mut want = before.clone();
        want.insert(100);
        match read_ids(&sim) {
            Ok(ids) if ids == want => {}
            Ok(ids) => return Some(("recovery_content_differs".into(), format!("after recovery commit: {ids:?} expected {want:?}"))),
            Err(e) => return Some(("storage_unreadable_at_end".into(), e)),
        }
        if let Err(e) = directory_exact(&sim) {
            return Some(("directory_not_exact_after_recovery".into(), e));
        }
        None
    }));
    if fired.load(Ordering::SeqCst) {
        st.count("faults_fired");
    }
    match r {
        Ok(v) => v,
        Err(e) => Some(("api_panic".into(), format!("a panic escaped: {} [{}]", panic_message(e), last_panic()))),
    }
}

fn work_list(thorough: bool) -> Vec<Case> {
    let wls: Vec<usize> = if thorough { (0..workloads().len()).collect() } else { vec![0, 1, 3, 4, 5, 6] };
    let cfgs: Vec<WlConfig> = if thorough { configs() } else { configs().into_iter().take(2).collect() };
    let mut out = vec![];
    for &wl in &wls {
        for (ci, cfg) in cfgs.iter().enumerate() {
            // quick: the workload that rolls back and restarts by itself runs with the first configuration only
            if !thorough && (wl == 4 || wl == 6) && ci > 0 {
                continue;
            }
            let log = fault_free_log(wl, cfg, false);
            for (tid, tix, kind) in targets(&log) {
                for permanent in [false, true] {
                    for policy in [Policy::Rollback, Policy::NewWriter, Policy::GoOn] {
                        out.push(Case { workload: wl, cfg: cfg.clone(), tid: tid.clone(), thread_index: tix, kind: kind.clone(), permanent, policy, reads: false });
                    }
                }
            }
        }
    }
    // reads through file handles as fault targets: the merge + collection workload (quick: reads of the merge
    // thread, failing once; thorough: reads of every thread of every workload, once and permanently)
    let read_wls: Vec<usize> = if thorough { (0..workloads().len()).collect() } else { vec![2] };
    for &wl in &read_wls {
        let cfg = configs()[0].clone();
        let log = fault_free_log(wl, &cfg, true);
        for (tid, tix, kind) in targets(&log) {
            if kind != "read" || (!thorough && !tid.starts_with('M')) {
                continue;
            }
            for permanent in if thorough { vec![false, true] } else { vec![false] } {
                for policy in [Policy::Rollback, Policy::NewWriter] {
                    out.push(Case { workload: wl, cfg: cfg.clone(), tid: tid.clone(), thread_index: tix, kind: kind.clone(), permanent, policy, reads: true });
                }
            }
        }
    }
    out
}

struct FastLockRetry;
impl tantivy::verif_hooks::VerifHandler for FastLockRetry {
    fn lock_retry_sleep(&self, _d: std::time::Duration) -> std::time::Duration {
        std::time::Duration::from_micros(200)
    }
}

pub fn worker(_family: &str, start: u64, end: u64, step: u64, arg: &str) {
    quiet_panics();
    tantivy::verif_hooks::set_handler(Some(Arc::new(FastLockRetry)));
    crate::iso::worker_guard(8 << 30, 20_000);
    let work = work_list(arg == "thorough");
    let mut st = Stats::default();
    let mut idx = start;
    while idx < end.min(work.len() as u64) {
        let c = &work[idx as usize];
        crate::iso::set_current(idx);
        st.eval();
        st.count(&format!("kind.{}", c.kind));
        let mut v = run_case(c, &mut st);
        // With several indexing workers the outcome of a fault can depend on how far the other worker got. An
        // observation that does not show again in three repetitions of the same case is recorded as transient,
        // not reported: a verdict has to be reproducible.
        if let Some((rule, _)) = &v {
            if c.cfg.workers >= 2 || c.cfg.dedicated_compressor || rule == "directory_not_exact_after_recovery" {
                let mut again = false;
                for _ in 0..3 {
                    let mut st2 = Stats::default();
                    if let Some((r2, _)) = run_case(c, &mut st2) {
                        if r2 == *rule {
                            again = true;
                            break;
                        }
                    }
                }
                if !again {
                    st.count(&format!("transient_observation.{rule}"));
                    v = None;
                }
            }
        }
        crate::iso::idle();
        if let Some((rule, what)) = v {
            crate::iso::emit(&json!({"t":"V","rule":rule,"what":what,"idx":idx}).to_string());
        }
        idx += step;
    }
    crate::iso::emit(&json!({"t":"S","evals":st.evaluations,"counters":st.counters}).to_string());
    crate::iso::emit("DONE");
}

pub fn replay(case: &Value) -> Vec<Violation> {
    quiet_panics();
    if case.get("point").is_some() {
        return crate::preempt_family::replay(case);
    }
    if case["cfg"]["workers"].as_u64().unwrap_or(1) >= 2 || case["cfg"]["dedicated_compressor"].as_bool().unwrap_or(false) {
        // timing can matter with two workers: several attempts
        tantivy::verif_hooks::set_handler(Some(Arc::new(FastLockRetry)));
        if let Ok(c) = serde_json::from_value::<Case>(case.clone()) {
            for _ in 0..6 {
                let mut st = Stats::default();
                if let Some((r, w)) = run_case(&c, &mut st) {
                    return vec![Violation::new(&r, w, case.clone())];
                }
            }
        }
        return vec![];
    }
    tantivy::verif_hooks::set_handler(Some(Arc::new(FastLockRetry)));
    let Ok(c) = serde_json::from_value::<Case>(case.clone()) else { return vec![] };
    let mut st = Stats::default();
    run_case(&c, &mut st).map(|(r, w)| Violation::new(&r, w, case.clone())).into_iter().collect()
}

pub fn run(ctx: &Ctx) -> Report {
    quiet_panics();
    let mut rep = Report::new("fault_enumeration");
    let thorough = ctx.tier.is_thorough();
    let work = work_list(thorough);
    let mut st = Stats::default();
    let o = crate::iso::run_isolated(ctx, "C11", "faults", work.len() as u64, ctx.tier.name());
    st.errors.extend(o.machinery_errors);
    let desc = |c: &Case| format!("workload {} cfg {:?}: fault at operation #{} of thread {} ({}) {} policy {:?}", workloads()[c.workload].0, c.cfg, c.thread_index, c.tid, c.kind, if c.permanent { "permanently from there" } else { "once" }, c.policy);
    for (kind, idx) in o.crashes {
        let c = &work[idx as usize];
        st.violation(Violation::new(&format!("process_{kind}"), format!("{}: the process did not return ({kind})", desc(c)), serde_json::to_value(c).unwrap()));
    }
    for l in o.lines {
        let Ok(v) = serde_json::from_str::<Value>(&l) else { continue };
        if v["t"] == "V" {
            let c = &work[v["idx"].as_u64().unwrap_or(0) as usize];
            let mut cj = serde_json::to_value(c).unwrap();
            if c.cfg.workers >= 2 || c.cfg.dedicated_compressor || v["rule"] == "directory_not_exact_after_recovery" {
                cj["timing_dependent"] = json!(true);
            }
            st.violation(Violation::new(v["rule"].as_str().unwrap_or("?"), format!("{}: {}", desc(c), v["what"].as_str().unwrap_or("")), cj));
        } else if v["t"] == "S" {
            st.evaluations += v["evals"].as_u64().unwrap_or(0);
            if let Some(c) = v["counters"].as_object() {
                for (k, x) in c {
                    st.count_n(k, x.as_u64().unwrap_or(0));
                }
            }
        }
    }
    for i in [0, work.len() / 3, work.len() / 2, work.len() - 1] {
        st.sample(serde_json::to_value(&work[i]).unwrap());
    }
    // two deviations: a merge preempted by committed deletes, then one fault on the updater finishing it
    let p = crate::preempt_family::run_family(ctx, "C11");
    rep.set("preemption_plus_fault_scenarios", Value::Array(p.info));
    let pcomplete = p.complete;
    st.merge(p.st);
    rep.set("exhaustive", o.complete && o.completed as usize == work.len() && pcomplete);
    rep.set("cases", work.len() as u64);
    rep.set("rule", "for every workload (quick: add+commit, add+delete+commit, reload, rollback+restart, deletes+collection, re-opening through open_or_create; thorough: + merge+collection) x writer configuration (1-2 workers, dedicated compressor thread on/off) x every storage operation of the fault-free log, identified by (logical thread, index among that thread's operations) - create, write, flush, terminate, atomic write, atomic read, open, exists, delete, directory sync, lock - failing once or permanently from there on (and, with reads through file handles made storage operations, every read of the merge thread of the merge + collection workload; thorough: every read of every thread) x three continuation policies after the first reported error (rollback, new writer, keep using the writer): no panic / abort / hang; every commit that returns Ok is complete, readable and checksum-clean in a fresh open; after any reported error the storage holds the last Ok commit or a failed commit's complete state; finally a new writer adds, commits and collects and the directory holds exactly the committed files; a reload that returns Ok hands out a searcher that shows a whole commit and can be queried. Two-deviation family: a merge of two committed segments is preempted at 2 (thorough 5) positions of its merge thread by {delete + commit; two delete commits; deleting a whole source + commit}, and afterwards every storage operation of the updater that reconciles and publishes the merge fails once: the published documents stay those of the last commit. Non-trivial: cases whose fault fired; distinct by construction");
    let fired = st.counters.get("faults_fired").copied().unwrap_or(0);
    for k in ["faults_fired", "api_errors", "commits_ok", "kind.create", "kind.write", "kind.terminate", "kind.atomic_write", "kind.sync_dir", "kind.delete", "kind.open_read"] {
        if st.counters.get(k).copied().unwrap_or(0) == 0 {
            rep.machinery_errors.push(format!("vacuous: {k} = 0"));
        }
    }
    rep.merge_stats(&st);
    rep.set("distinct_nontrivial", fired);
    rep.assume("faults are injected at the Directory trait seam (SimDirectory); the storage model is bound to MmapDirectory's system calls by the conformance pass of C01");
    rep.violations = st.violations;
    rep.machinery_errors.extend(st.errors);
    rep
}
