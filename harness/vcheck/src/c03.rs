//! C03 - queries match exactly the documents their logical meaning prescribes.
use std::collections::BTreeSet;
use std::ops::Bound;
use std::panic::{catch_unwind, AssertUnwindSafe};

use serde_json::{json, Value};
use tantivy::collector::{Count, DocSetCollector, FilterCollector, MultiCollector, TopDocs};
use tantivy::query::Query;

use crate::common::*;
use crate::qmodel::*;

fn t(s: &str) -> Q {
    Q::Term(s.to_string())
}
fn ph(ts: &[&str], slop: u32) -> Q {
    Q::Phrase(ts.iter().map(|s| s.to_string()).collect(), slop)
}

pub fn leaves() -> Vec<Q> {
    let inc = |v: V| Bound::Included(v);
    let exc = |v: V| Bound::Excluded(v);
    vec![
        t("a"),
        t("b"),
        t("c"),
        ph(&["a", "b"], 0),
        ph(&["a", "b"], 1),
        ph(&["b", "a"], 2),
        ph(&["a", "a"], 0),
        ph(&["a", "a"], 1),
        ph(&["b", "b"], 1),
        ph(&["a", "b"], 2),
        ph(&["a", "b", "a"], 0),
        Q::PhrasePrefix(vec!["a".into(), "b".into()]),
        Q::PhrasePrefix(vec!["b".into(), "a".into()]),
        Q::Range("num".into(), inc(V::U(1)), inc(V::U(2))),
        Q::Range("num".into(), exc(V::U(0)), Bound::Unbounded),
        Q::Range("num_idx".into(), exc(V::U(1)), Bound::Unbounded),
        Q::Range("num_idx".into(), inc(V::U(0)), exc(V::U(2))),
        Q::Range("inum".into(), inc(V::I(-1)), inc(V::I(0))),
        Q::Range("fnum".into(), exc(V::F(0.5)), inc(V::F(1.5))),
        Q::Range("date".into(), inc(V::D(BASE_DATE + 3600)), Bound::Unbounded),
        Q::Range("ip".into(), inc(V::Ip(0)), inc(V::Ip(1))),
        Q::Range("ip".into(), exc(V::Ip(1)), Bound::Unbounded),
        Q::Range("k".into(), inc(V::S("a".into())), inc(V::S("a".into()))),
        Q::Range("k_idx".into(), Bound::Unbounded, exc(V::S("b".into()))),
        Q::Range("body".into(), inc(V::S("a".into())), exc(V::S("b".into()))),
        Q::Range("body".into(), exc(V::S("a".into())), Bound::Unbounded),
        Q::TermSet(vec!["a".into(), "c".into()]),
        Q::TermSet(vec!["b".into()]),
        Q::Exists("num".into()),
        Q::Exists("k".into()),
        // multi-valued fast field with documents holding no value: ranges covering every value present
        Q::Range("mnum".into(), inc(V::U(0)), Bound::Unbounded),
        Q::Range("mnum".into(), inc(V::U(0)), inc(V::U(2))),
        Q::Range("mnum".into(), inc(V::U(1)), inc(V::U(1))),
        Q::Exists("mnum".into()),
        Q::All,
        Q::Empty,
        Q::Fuzzy { term: "a".into(), dist: 1, transpose: true, prefix: false },
        Q::Fuzzy { term: "ab".into(), dist: 1, transpose: false, prefix: false },
        Q::Fuzzy { term: "c".into(), dist: 0, transpose: true, prefix: true },
        Q::Regex("a|b".into()),
        Q::Regex("b.*".into()),
        Q::TermV("flag".into(), V::B(true)),
        Q::TermV("num".into(), V::U(1)),
        Q::TermV("k".into(), V::S("a".into())),
        Q::TermV("inum".into(), V::I(-1)),
    ]
}

const OCCS: [Occ; 3] = [Occ::Must, Occ::Should, Occ::MustNot];

pub fn query_set(thorough: bool) -> Vec<Q> {
    let l = leaves();
    let mut qs: Vec<Q> = l.clone();
    let inc = |v: V| Bound::Included(v);
    let r1: Vec<Q> = vec![t("a"), t("b"), t("c"), ph(&["a", "b"], 0), Q::Range("num".into(), inc(V::U(1)), inc(V::U(1))), Q::All];
    let r3: Vec<Q> = if thorough { vec![t("a"), t("b"), ph(&["a", "b"], 0), Q::All, t("c")] } else { vec![t("a"), t("b"), Q::All] };
    let msms1 = [None, Some(0), Some(1), Some(2)];
    // 1 clause
    for q in &l {
        for o in OCCS {
            for m in msms1 {
                qs.push(Q::Bool(vec![(o, q.clone())], m));
            }
        }
    }
    // 2 clauses
    for a in &r1 {
        for b in &r1 {
            for oa in OCCS {
                for ob in OCCS {
                    for m in msms1 {
                        qs.push(Q::Bool(vec![(oa, a.clone()), (ob, b.clone())], m));
                    }
                }
            }
        }
    }
    // 3 clauses
    for a in &r3 {
        for b in &r3 {
            for c in &r3 {
                for oa in OCCS {
                    for ob in OCCS {
                        for oc in OCCS {
                            for m in [None, Some(0), Some(1), Some(2), Some(3)] {
                                qs.push(Q::Bool(vec![(oa, a.clone()), (ob, b.clone()), (oc, c.clone())], m));
                            }
                        }
                    }
                }
            }
        }
    }
    // every leaf as a non-leading / leading / excluded member next to a plain clause (so that stateful scorers -
    // phrases with slop, phrase prefixes, ranges, term sets, fuzzy, regex - are driven by seeks, not only advanced)
    for q in &l {
        for x in [t("a"), t("b"), Q::All] {
            qs.push(Q::Bool(vec![(Occ::Must, q.clone()), (Occ::Must, x.clone())], None));
            qs.push(Q::Bool(vec![(Occ::Must, x.clone()), (Occ::Must, q.clone())], None));
            qs.push(Q::Bool(vec![(Occ::Must, x.clone()), (Occ::MustNot, q.clone())], None));
            qs.push(Q::Bool(vec![(Occ::Must, x.clone()), (Occ::Should, q.clone())], None));
        }
    }
    // wrappers
    for q in &l {
        qs.push(Q::Boost(Box::new(q.clone()), 2.0));
        qs.push(Q::Const(Box::new(q.clone()), 1.5));
    }
    for a in &r1 {
        for b in &r1 {
            qs.push(Q::DisMax(vec![a.clone(), b.clone()], 0.3));
        }
    }
    // depth 2
    let inner: Vec<Q> = vec![
        Q::Bool(vec![(Occ::Must, t("a")), (Occ::Must, t("b"))], None),
        Q::Bool(vec![(Occ::Should, t("a")), (Occ::Should, t("b"))], None),
        Q::Bool(vec![(Occ::Must, t("a")), (Occ::MustNot, t("b"))], None),
        Q::Bool(vec![(Occ::Should, t("a")), (Occ::Should, t("b"))], Some(2)),
        Q::Bool(vec![(Occ::MustNot, t("a"))], None),
        Q::Bool(vec![(Occ::Must, Q::All), (Occ::MustNot, t("a"))], None),
        Q::Bool(vec![(Occ::Should, t("a")), (Occ::Should, t("b")), (Occ::Should, t("c"))], Some(2)),
        Q::Bool(vec![(Occ::Must, ph(&["a", "b"], 0)), (Occ::Should, t("b"))], None),
        Q::Const(Box::new(t("a")), 1.0),
        Q::DisMax(vec![t("a"), t("b")], 0.0),
        Q::Bool(vec![(Occ::Should, t("c"))], Some(0)),
        Q::Boost(Box::new(Q::Bool(vec![(Occ::Should, t("a")), (Occ::MustNot, ph(&["a", "b"], 1))], None)), 0.5),
    ];
    let outer_leaf: Vec<Q> = vec![t("a"), t("b"), Q::All];
    for i in &inner {
        for lf in &outer_leaf {
            for oa in OCCS {
                for ob in OCCS {
                    for m in [None, Some(1), Some(2)] {
                        qs.push(Q::Bool(vec![(oa, i.clone()), (ob, lf.clone())], m));
                    }
                }
            }
        }
    }
    for i in &inner {
        for j in &inner {
            for oa in OCCS {
                for ob in OCCS {
                    qs.push(Q::Bool(vec![(oa, i.clone()), (ob, j.clone())], None));
                    if thorough {
                        qs.push(Q::Bool(vec![(oa, i.clone()), (ob, j.clone())], Some(2)));
                    }
                }
            }
        }
    }
    qs
}

/// structural shape counters (which complex_scorer path a boolean query takes)
fn shape_counters(q: &Q, st: &mut Stats) {
    if let Q::Bool(cl, msm) = q {
        let ns = cl.iter().filter(|c| c.0 == Occ::Should).count();
        let nm = cl.iter().filter(|c| c.0 == Occ::Must).count();
        let nn = cl.iter().filter(|c| c.0 == Occ::MustNot).count();
        if let Some(m) = msm {
            if *m > ns {
                st.count("shape.msm_gt_should");
            } else if *m == ns && ns > 1 {
                st.count("shape.should_promoted_to_must");
            } else if *m > 1 {
                st.count("shape.disjunction_msm");
            }
        }
        if nn > 1 {
            st.count("shape.multi_exclude");
        }
        if nm >= 2 && cl.iter().all(|c| matches!(c.1, Q::Term(_))) {
            st.count("shape.term_intersection");
        }
        if ns >= 2 && nm == 0 && cl.iter().all(|c| matches!(c.1, Q::Term(_))) {
            st.count("shape.term_union");
        }
        if cl.iter().any(|c| c.0 == Occ::MustNot && matches!(c.1, Q::All)) {
            st.count("shape.exclude_all");
        }
        if nm > 0 && ns > 0 && msm.unwrap_or(0) == 0 {
            st.count("shape.required_optional");
        }
    }
}

fn panic_rule(msg: &str) -> String {
    let id: String = msg.chars().take(40).map(|c| if c.is_alphanumeric() { c } else { '_' }).collect();
    format!("search_panic:{id}")
}

/// Run one query through all collectors and compare with the model. Returns (rule, what).
pub fn check_query(b: &Built, q: &Q, extra_collectors: bool) -> Option<(String, String)> {
    let yes: BTreeSet<u64> = b.alive.iter().filter(|d| eval(q, d) == Tri::Yes).map(|d| d.id).collect();
    let maybe: BTreeSet<u64> = b.alive.iter().filter(|d| eval(q, d) == Tri::Maybe).map(|d| d.id).collect();
    let tq: Box<dyn Query> = lower(q, &b.fields);
    let n = b.alive.len();
    let r = catch_unwind(AssertUnwindSafe(|| -> Result<Option<(String, String)>, String> {
        let docs = b.searcher.search(&tq, &DocSetCollector).map_err(|e| format!("{e:?}"))?;
        let got = ids_of(&b.searcher, docs);
        let got_set: BTreeSet<u64> = got.iter().copied().collect();
        if got_set.len() != got.len() {
            return Ok(Some(("duplicate_docs".into(), format!("DocSetCollector returned duplicates {got:?}"))));
        }
        let missing: Vec<u64> = yes.difference(&got_set).copied().collect();
        let extra: Vec<u64> = got_set.iter().filter(|i| !yes.contains(i) && !maybe.contains(i)).copied().collect();
        if !missing.is_empty() || !extra.is_empty() {
            return Ok(Some((
                "docset_differs_from_model".into(),
                format!("DocSetCollector ids {got:?}, model {:?} (+optional {:?})", yes, maybe),
            )));
        }
        let cnt = b.searcher.search(&tq, &Count).map_err(|e| format!("{e:?}"))?;
        if cnt != got.len() {
            return Ok(Some(("count_collector_differs".into(), format!("Count = {cnt}, DocSetCollector = {}", got.len()))));
        }
        let qc = tq.count(&b.searcher).map_err(|e| format!("{e:?}"))?;
        if qc != got.len() {
            return Ok(Some(("query_count_differs".into(), format!("Query::count = {qc}, DocSetCollector = {}", got.len()))));
        }
        let top = b.searcher.search(&tq, &TopDocs::with_limit(n + 1).order_by_score()).map_err(|e| format!("{e:?}"))?;
        let top_ids = ids_of(&b.searcher, top.iter().map(|x| x.1));
        if top_ids != got {
            return Ok(Some(("topdocs_differs".into(), format!("TopDocs ids {top_ids:?}, DocSetCollector {got:?}"))));
        }
        // a bounded TopDocs (pruning scorers: block-max WAND over unions and intersections) returns the
        // head of the full ranking: same length, documents of the matching set, the same scores position
        // by position (ties may be broken either way, so ids are only compared as members)
        for k in [1usize, 3] {
            if got.len() <= k {
                continue;
            }
            let topk = b.searcher.search(&tq, &TopDocs::with_limit(k).order_by_score()).map_err(|e| format!("{e:?}"))?;
            if std::env::var("VERIF_DEBUG").is_ok() {
                eprintln!("k={k} topk={:?} full={:?}", topk, &top[..k.min(top.len())+2]);
            }
            if topk.len() != k {
                return Ok(Some(("topk_differs".into(), format!("TopDocs({k}) returned {} hits of {} matches", topk.len(), got.len()))));
            }
            for (i, (sc, addr)) in topk.iter().enumerate() {
                let want = top[i].0;
                if (sc - want).abs() > 1e-5 * want.abs().max(1.0) {
                    let id = ids_of(&b.searcher, std::iter::once(*addr));
                    return Ok(Some(("topk_differs".into(), format!("TopDocs({k}) hit #{i} is doc id {id:?} with score {sc}, the full ranking has score {want} at that position"))));
                }
            }
            let ids = ids_of(&b.searcher, topk.iter().map(|x| x.1));
            if ids.iter().any(|i| !got_set.contains(i)) {
                return Ok(Some(("topk_differs".into(), format!("TopDocs({k}) ids {ids:?} are not all in the matching set"))));
            }
        }
        if extra_collectors {
            let mut mc = MultiCollector::new();
            let hc = mc.add_collector(Count);
            let hd = mc.add_collector(DocSetCollector);
            let mut fruits = b.searcher.search(&tq, &mc).map_err(|e| format!("{e:?}"))?;
            let c2 = hc.extract(&mut fruits);
            let d2 = ids_of(&b.searcher, hd.extract(&mut fruits));
            if c2 != got.len() || d2 != got {
                return Ok(Some(("multicollector_differs".into(), format!("MultiCollector count {c2} ids {d2:?}, DocSetCollector {got:?}"))));
            }
            // FilterCollector keeping even ids
            let fc = FilterCollector::new("id".to_string(), |v: u64| v % 2 == 0, DocSetCollector);
            let d3 = ids_of(&b.searcher, b.searcher.search(&tq, &fc).map_err(|e| format!("{e:?}"))?);
            let want3: Vec<u64> = got.iter().copied().filter(|v| v % 2 == 0).collect();
            if d3 != want3 {
                return Ok(Some(("filtercollector_differs".into(), format!("FilterCollector(even id) ids {d3:?}, want {want3:?}"))));
            }
        }
        Ok(None)
    }));
    match r {
        Ok(Ok(x)) => x,
        Ok(Err(e)) => Some(("search_error".into(), format!("search failed: {}", e.chars().take(160).collect::<String>()))),
        Err(e) => {
            let m = panic_message(e);
            Some((panic_rule(&m), format!("search panicked: {m} [{}]", last_panic())))
        }
    }
}

/// narrow signatures of the recorded findings (decided on the query alone)
fn classify(rule: &str, q: &Q) -> String {
    // a boolean query with exactly one clause whose minimum_number_should_match exceeds its number of
    // should clauses: Weight::count short-cuts the single clause without looking at msm
    fn has_single_clause_msm(q: &Q) -> bool {
        match q {
            Q::Bool(cl, msm) => {
                let ns = cl.iter().filter(|c| c.0 == Occ::Should).count();
                (cl.len() == 1 && msm.map(|m| m > ns).unwrap_or(false)) || cl.iter().any(|c| has_single_clause_msm(&c.1))
            }
            Q::Boost(q, _) | Q::Const(q, _) => has_single_clause_msm(q),
            Q::DisMax(qs, _) => qs.iter().any(has_single_clause_msm),
            _ => false,
        }
    }
    fn has_excluded_phrase(q: &Q) -> bool {
        match q {
            Q::Bool(cl, _) => cl.iter().any(|c| {
                (c.0 == Occ::MustNot && contains_phrase(&c.1)) || has_excluded_phrase(&c.1)
            }),
            Q::Boost(q, _) | Q::Const(q, _) => has_excluded_phrase(q),
            Q::DisMax(qs, _) => qs.iter().any(has_excluded_phrase),
            _ => false,
        }
    }
    fn contains_phrase(q: &Q) -> bool {
        match q {
            Q::Phrase(ts, _) => ts.len() > 1,
            Q::PhrasePrefix(_) => true,
            Q::Bool(cl, _) => cl.iter().any(|c| contains_phrase(&c.1)),
            Q::Boost(q, _) | Q::Const(q, _) => contains_phrase(q),
            Q::DisMax(qs, _) => qs.iter().any(contains_phrase),
            _ => false,
        }
    }
    if (rule == "query_count_differs" || rule == "count_collector_differs") && has_single_clause_msm(q) {
        return format!("{rule}_single_clause_msm");
    }
    if rule.starts_with("search_panic:target") && has_excluded_phrase(q) {
        return "search_panic_excluded_phrase_seek_danger".to_string();
    }
    rule.to_string()
}

#[derive(Clone, Debug)]
pub struct TinyCase {
    pub texts: Vec<String>,
    pub layout: Layout,
}

fn tiny_docs(texts: &[String]) -> Vec<ModelDoc> {
    texts.iter().enumerate().map(|(i, t)| ModelDoc::from_text(i as u64 + 1, t)).collect()
}

pub fn structured_docs(n: usize) -> Vec<ModelDoc> {
    (0..n)
        .map(|i| {
            let mut toks = vec!["t1".to_string()];
            for p in [2usize, 3, 7, 128, 4096] {
                if i % p == 0 {
                    toks.push(format!("t{p}"));
                }
            }
            if i == n / 2 {
                toks.push("one".to_string());
            }
            if i < 128 {
                toks.push("h128".to_string());
            }
            if i < 129 {
                toks.push("h129".to_string());
            }
            if i % 3 == 0 && i % 2 == 0 {
                // phrase "p q" in every 6th doc, "q p" in every 10th
                toks.push("p".to_string());
                toks.push("q".to_string());
            } else if i % 10 == 1 {
                toks.push("q".to_string());
                toks.push("p".to_string());
            }
            // term-frequency outliers (appended, so that the phrase positions above stay put): a few rare
            // documents repeat one of their terms, so that the best documents of a conjunction stand out
            // through one clause only and block-max bounds differ from block to block
            for (term, present, modulus, rem, times) in [("t7", i % 7 == 0, 11usize, 5usize, 6usize), ("t3", i % 3 == 0, 13, 6, 8), ("h129", i < 129, 16, 9, 10), ("t2", i % 2 == 0, 19, 4, 5)] {
                if present && i % modulus == rem {
                    for _ in 0..times {
                        toks.push(term.to_string());
                    }
                }
            }
            let mut d = ModelDoc::from_text(i as u64, "");
            d.tokens = toks;
            d.fields.insert("num".into(), vec![V::U(i as u64)]);
            d.fields.insert("num_idx".into(), vec![V::U(i as u64)]);
            if i % 4 != 3 {
                d.fields.insert("inum".into(), vec![V::I(i as i64 - 100)]);
            }
            d
        })
        .collect()
}

pub fn structured_queries(n: usize) -> Vec<Q> {
    let terms = ["t1", "t2", "t3", "t7", "t128", "t4096", "one", "h128", "h129", "zz"];
    let mut qs: Vec<Q> = terms.iter().map(|s| t(s)).collect();
    qs.push(ph(&["p", "q"], 0));
    qs.push(ph(&["p", "q"], 2));
    qs.push(Q::All);
    let inc = |v: u64| Bound::Included(V::U(v));
    let exc = |v: u64| Bound::Excluded(V::U(v));
    let nn = n as u64;
    for (lo, hi) in [(0u64, 0u64), (0, 127), (127, 128), (128, 1024), (1023, 1025), (100, 4097), (nn.saturating_sub(1), nn + 5), (nn, nn + 1)] {
        qs.push(Q::Range("num".into(), inc(lo), inc(hi)));
        qs.push(Q::Range("num_idx".into(), exc(lo), exc(hi.max(lo + 1))));
    }
    qs.push(Q::Range("inum".into(), Bound::Included(V::I(-100)), Bound::Excluded(V::I(29))));
    qs.push(Q::Exists("inum".into()));
    let base: Vec<Q> = qs.clone();
    let r: Vec<Q> = vec![t("t1"), t("t2"), t("t3"), t("t7"), t("t128"), t("h129"), t("zz"), ph(&["p", "q"], 0), Q::Range("num".into(), inc(100), inc(4200))];
    for a in &r {
        for b in &r {
            for oa in OCCS {
                for ob in OCCS {
                    for m in [None, Some(1), Some(2)] {
                        qs.push(Q::Bool(vec![(oa, a.clone()), (ob, b.clone())], m));
                    }
                }
            }
        }
    }
    let r3: Vec<Q> = vec![t("t2"), t("t3"), t("t7"), t("t128")];
    for a in &r3 {
        for b in &r3 {
            for c in &r3 {
                for oa in OCCS {
                    for ob in OCCS {
                        for oc in OCCS {
                            for m in [None, Some(2)] {
                                qs.push(Q::Bool(vec![(oa, a.clone()), (ob, b.clone()), (oc, c.clone())], m));
                            }
                        }
                    }
                }
            }
        }
    }
    // 4 and 5 clauses: every 4- and 5-subset of eight terms (dense and sparse mixed), in both orders, as a pure
    // conjunction, with the last clause optional, and with the last clause excluded (intersections with two
    // and more secondary docsets: dense counting, block-max pruning over suffix bounds)
    let r6 = ["t1", "t2", "t3", "t7", "t128", "h129", "p", "q"];
    for mask in 0u32..(1 << r6.len()) {
        let k = mask.count_ones();
        if k != 4 && k != 5 {
            continue;
        }
        let sel: Vec<&str> = r6.iter().enumerate().filter(|(i, _)| mask >> i & 1 == 1).map(|(_, s)| *s).collect();
        for rev in [false, true] {
            let mut sel = sel.clone();
            if rev {
                sel.reverse();
            }
            for last in OCCS {
                let cl: Vec<(Occ, Q)> = sel.iter().enumerate().map(|(i, s)| (if i + 1 == sel.len() { last } else { Occ::Must }, t(s))).collect();
                qs.push(Q::Bool(cl, None));
            }
        }
    }
    for q in base.iter().take(12) {
        qs.push(Q::Bool(vec![(Occ::Must, Q::All), (Occ::MustNot, q.clone())], None));
        qs.push(Q::Const(Box::new(q.clone()), 2.0));
    }
    qs
}

fn structured_layout(n: usize, nseg: usize, del_mode: usize) -> Layout {
    let mut segs = vec![];
    let mut left = n;
    for s in 0..nseg {
        let sz = if s + 1 == nseg { left } else { n / nseg };
        segs.push(sz);
        left -= sz;
    }
    let deleted: Vec<usize> = match del_mode {
        1 => (0..n).filter(|i| i % 5 == 0).collect(),
        2 => (0..segs[0]).collect(), // one whole segment
        _ => vec![],
    };
    Layout { segments: segs.into_iter().filter(|s| *s > 0).collect(), deleted, merge: false }
}

pub fn replay(case: &Value) -> Vec<Violation> {
    quiet_panics();
    let q: Q = match serde_json::from_value(case["query"].clone()) {
        Ok(q) => q,
        Err(_) => return vec![],
    };
    let (docs, layout) = if case["kind"] == "tiny" {
        let texts: Vec<String> = serde_json::from_value(case["texts"].clone()).unwrap_or_default();
        let layout: Layout = serde_json::from_value(case["layout"].clone()).unwrap();
        (tiny_docs(&texts), layout)
    } else {
        let n = case["n"].as_u64().unwrap_or(0) as usize;
        (structured_docs(n), structured_layout(n, case["nseg"].as_u64().unwrap_or(1) as usize, case["del_mode"].as_u64().unwrap_or(0) as usize))
    };
    let b = build_index(&docs, &layout);
    match check_query(&b, &q, true) {
        Some((rule, what)) => vec![Violation::new(&classify(&rule, &q), format!("{}: {what}", show(&q)), case.clone())],
        None => vec![],
    }
}

pub fn run(ctx: &Ctx) -> Report {
    quiet_panics();
    let mut rep = Report::new("model_checking");
    let thorough = ctx.tier.is_thorough();
    let texts = texts_over(&["a", "b"], 3);
    let maxdocs = if thorough { 3 } else { 2 };
    let qs = query_set(thorough);
    // tiny cases
    let mut cases: Vec<TinyCase> = vec![];
    for nd in 0..=maxdocs {
        for ms in multisets(texts.len(), nd) {
            let tx: Vec<String> = ms.iter().map(|&i| texts[i].clone()).collect();
            let comps = if nd == 0 { vec![vec![]] } else { compositions(nd) };
            for segs in comps {
                for delmask in 0..(1u32 << nd) {
                    let deleted: Vec<usize> = (0..nd).filter(|i| delmask >> i & 1 == 1).collect();
                    cases.push(TinyCase { texts: tx.clone(), layout: Layout { segments: segs.clone(), deleted: deleted.clone(), merge: false } });
                    if segs.len() > 1 {
                        cases.push(TinyCase { texts: tx.clone(), layout: Layout { segments: segs.clone(), deleted, merge: true } });
                    }
                }
            }
        }
    }
    let nq = qs.len();
    // structured family
    let ns: Vec<usize> = if thorough { vec![127, 128, 129, 1023, 1024, 1025, 4095, 4096, 4097, 5000] } else { vec![129, 1025, 4097] };
    let mut scases = vec![];
    for &n in &ns {
        for nseg in 1..=(if thorough { 3 } else { 2 }) {
            for del in 0..3 {
                scases.push((n, nseg, del));
            }
        }
    }
    let (mut st, done2) = par_for(ctx, scases.len(), |i, st| {
        let (n, nseg, del) = scases[i];
        let docs = structured_docs(n);
        let layout = structured_layout(n, nseg, del);
        let b = build_index(&docs, &layout);
        st.count("structured_indexes");
        let sq = structured_queries(n);
        for (qi, q) in sq.iter().enumerate() {
            st.eval();
            st.count("structured_queries");
            let m = b.alive.iter().filter(|d| eval(q, d) != Tri::No).count();
            if m > 0 && m < b.alive.len() {
                st.nontrivial(&("s", i, qi));
            }
            if let Some((rule, what)) = check_query(&b, q, qi % 8 == 0) {
                let rule = classify(&rule, q);
                let what: String = what.chars().take(300).collect();
                st.violation(Violation::new(
                    &rule,
                    format!("structured n={n} segments={nseg} delete_mode={del} query {}: {what}", show(q)),
                    json!({"kind":"structured","n":n,"nseg":nseg,"del_mode":del,"query":q}),
                ));
            }
        }
        st.sample(json!({"kind":"structured","n":n,"nseg":nseg,"del_mode":del,"queries":sq.len()}));
    });
    let (st_tiny, done) = par_for(ctx, cases.len(), |i, st| {
        let c = &cases[i];
        let docs = tiny_docs(&c.texts);
        let b = build_index(&docs, &c.layout);
        st.count("indexes");
        for (qi, q) in qs.iter().enumerate() {
            st.eval();
            if i == 0 {
                shape_counters(q, st);
            }
            let m = b.alive.iter().filter(|d| eval(q, d) != Tri::No).count();
            if m > 0 && m < b.alive.len() {
                st.nontrivial(&(i, qi));
            }
            if let Some((rule, what)) = check_query(&b, q, (qi + i) % 8 == 0) {
                let rule = classify(&rule, q);
                st.violation(Violation::new(
                    &rule,
                    format!("docs {:?} segments {:?} deleted {:?} merge {} query {}: {what}", c.texts, c.layout.segments, c.layout.deleted, c.layout.merge, show(q)),
                    json!({"kind":"tiny","texts":c.texts,"layout":c.layout,"query":q}),
                ));
            }
        }
        if i % 211 == 0 {
            st.sample(json!({"kind":"tiny","texts":c.texts,"layout":c.layout,"query":qs[(i * 7) % nq]}));
        }
    });
    st.merge(st_tiny);
    rep.set("exhaustive", done == cases.len() && done2 == scases.len());
    rep.set("tiny_indexes", cases.len() as u64);
    rep.set("tiny_indexes_completed", done as u64);
    rep.set("queries_per_tiny_index", nq as u64);
    rep.set("structured_indexes", scases.len() as u64);
    rep.set("rule", "tiny: every multiset of <= 2 (thorough 3) documents over texts of <= 3 tokens over {a,b} x every contiguous segmentation x every delete subset (x merged) x the query set (38 leaves; booleans of 1-3 clauses x occurs x minimum_should_match; boost / const / dis-max wrappers; depth-2 nestings); structured: N in {127..5000} documents with modular term patterns x 1-3 segments x 3 delete modes x ~2700 queries; each through DocSetCollector, Count, Query::count, TopDocs (and Multi / Filter collectors on 1/8). Non-trivial: query matches some but not all alive documents; distinct by (index, query)");
    for k in ["shape.msm_gt_should", "shape.should_promoted_to_must", "shape.disjunction_msm", "shape.multi_exclude", "shape.term_intersection", "shape.term_union", "shape.exclude_all", "shape.required_optional", "structured_queries"] {
        if st.counters.get(k).copied().unwrap_or(0) == 0 {
            rep.machinery_errors.push(format!("vacuous: {k} never generated"));
        }
    }
    rep.set("states", st.nontrivial.len() as u64);
    rep.set("transitions", st.evaluations);
    rep.set("traces_validated_against_impl", st.evaluations);
    rep.assume("phrase queries with slop are compared as a sandwich: in-order alignments within the slop must match, any alignment within the slop may match");
    rep.assume("the harness builds with debug assertions (like the repository's test profile): a debug_assert tripped by a legal query is a panic of that search");
    rep.merge_stats(&st);
    rep.violations = st.violations;
    rep.machinery_errors.extend(st.errors);
    rep
}
