//! SimDirectory: harness-side implementation of `tantivy::Directory` serving as operation log, fault
//! injector, scheduling gate and durability model (see DESIGN.md 2.3).
use std::collections::BTreeMap;
use std::io::{self, Write};
use std::path::{Path, PathBuf};
use std::sync::{Arc, Mutex};

use tantivy::directory::error::{DeleteError, LockError, OpenReadError, OpenWriteError};
use tantivy::directory::{
    AntiCallToken, Directory, DirectoryLock, FileHandle, Lock, OwnedBytes, TerminatingWrite, WatchCallback,
    WatchCallbackList, WatchHandle, WritePtr,
};

#[derive(Clone, Debug, PartialEq, Eq, serde::Serialize, serde::Deserialize)]
pub enum Op {
    Create { path: String, ino: usize },
    Write { path: String, ino: usize, data: Vec<u8> },
    Flush { path: String, ino: usize },
    Terminate { path: String, ino: usize },
    AtomicWrite { path: String, ino: usize, data: Vec<u8> },
    AtomicRead { path: String },
    OpenRead { path: String },
    Exists { path: String },
    Delete { path: String },
    SyncDir,
    /// a read through a file handle (only when read points are enabled)
    Read { path: String },
    Marker(String),
}

impl Op {
    pub fn kind(&self) -> &'static str {
        match self {
            Op::Create { .. } => "create",
            Op::Write { .. } => "write",
            Op::Flush { .. } => "flush",
            Op::Terminate { .. } => "terminate",
            Op::AtomicWrite { .. } => "atomic_write",
            Op::AtomicRead { .. } => "atomic_read",
            Op::OpenRead { .. } => "open_read",
            Op::Exists { .. } => "exists",
            Op::Delete { .. } => "delete",
            Op::SyncDir => "sync_dir",
            Op::Read { .. } => "read",
            Op::Marker(_) => "marker",
        }
    }
    pub fn path(&self) -> Option<&str> {
        match self {
            Op::Create { path, .. }
            | Op::Write { path, .. }
            | Op::Flush { path, .. }
            | Op::Terminate { path, .. }
            | Op::AtomicWrite { path, .. }
            | Op::AtomicRead { path }
            | Op::OpenRead { path }
            | Op::Exists { path }
            | Op::Read { path }
            | Op::Delete { path } => Some(path),
            _ => None,
        }
    }
    pub fn short(&self) -> String {
        match self {
            Op::Write { path, data, .. } => format!("write({path},{}B)", data.len()),
            Op::AtomicWrite { path, data, .. } => format!("atomic_write({path},{}B)", data.len()),
            Op::Marker(m) => format!("#{m}"),
            Op::SyncDir => "sync_dir".to_string(),
            o => format!("{}({})", o.kind(), o.path().unwrap_or("")),
        }
    }
}

#[derive(Clone, Debug, serde::Serialize, serde::Deserialize)]
pub struct LogEntry {
    pub tid: String,
    pub op: Op,
    /// false when the operation returned an error (injected or natural); such an operation had no effect
    pub ok: bool,
}

/// Description handed to the fault / gate hooks before an operation is executed.
#[derive(Clone, Debug)]
pub struct OpDesc {
    pub tid: String,
    pub kind: &'static str,
    pub path: String,
    /// index of this operation among all operations (markers excluded)
    pub global_index: usize,
    /// index of this operation among the operations of its thread
    pub thread_index: usize,
}

pub type FaultFn = Arc<dyn Fn(&OpDesc) -> Option<io::Error> + Send + Sync>;
pub type GateFn = Arc<dyn Fn(&OpDesc) + Send + Sync>;

#[derive(Clone, Copy, PartialEq, Eq, Debug)]
pub enum ShortWrite {
    Full,
    OneByte,
    Half,
}

struct Inode {
    data: Vec<u8>,
}

struct Fs {
    visible: BTreeMap<String, usize>,
    inodes: Vec<Inode>,
}

struct Control {
    fault: Option<FaultFn>,
    gate: Option<GateFn>,
    short_write: ShortWrite,
    op_count: usize,
    per_thread: BTreeMap<String, usize>,
    log_enabled: bool,
    /// reads through file handles are storage operations too (fault / gate points, logged)
    read_points: bool,
}

struct Inner {
    /// advisory locks currently held (flock-like: they die with their guard, no storage operation involved)
    locks: Mutex<std::collections::BTreeSet<String>>,
    fs: Mutex<Fs>,
    log: Mutex<Vec<LogEntry>>,
    ctl: Mutex<Control>,
    watch: WatchCallbackList,
}

#[derive(Clone)]
pub struct SimDirectory {
    inner: Arc<Inner>,
}

impl std::fmt::Debug for SimDirectory {
    fn fmt(&self, f: &mut std::fmt::Formatter<'_>) -> std::fmt::Result {
        write!(f, "SimDirectory")
    }
}

thread_local! {
    static LOGICAL_TID: std::cell::RefCell<Option<String>> = const { std::cell::RefCell::new(None) };
}

/// Name the current thread for the logs (driver threads call this; tantivy's own threads are named by
/// their OS thread name).
pub fn set_logical_tid(name: &str) {
    LOGICAL_TID.with(|t| *t.borrow_mut() = Some(name.to_string()));
}

pub fn current_tid() -> String {
    if let Some(n) = LOGICAL_TID.with(|t| t.borrow().clone()) {
        return n;
    }
    let t = std::thread::current();
    let name = t.name().unwrap_or("?");
    // canonical role names
    if name.starts_with("thrd-tantivy-index") {
        format!("W{}", &name["thrd-tantivy-index".len()..])
    } else if name.starts_with("segment_updater") {
        "U".to_string()
    } else if name.starts_with("merge_thread") {
        format!("M{}", name.trim_start_matches("merge_thread_"))
    } else if name.starts_with("docstore-compressor") {
        "D".to_string()
    } else {
        name.to_string()
    }
}

fn pstr(p: &Path) -> String {
    p.to_string_lossy().to_string()
}

impl Default for SimDirectory {
    fn default() -> Self {
        Self::new()
    }
}

impl SimDirectory {
    /// identity of the shared state (stable while any clone is alive)
    pub fn instance_id(&self) -> usize {
        Arc::as_ptr(&self.inner) as usize
    }

    pub fn new() -> SimDirectory {
        SimDirectory {
            inner: Arc::new(Inner {
                locks: Mutex::new(Default::default()),
                fs: Mutex::new(Fs {
                    visible: BTreeMap::new(),
                    inodes: vec![],
                }),
                log: Mutex::new(vec![]),
                ctl: Mutex::new(Control {
                    fault: None,
                    gate: None,
                    short_write: ShortWrite::Full,
                    op_count: 0,
                    per_thread: BTreeMap::new(),
                    log_enabled: true,
            read_points: false,
                }),
                watch: WatchCallbackList::default(),
            }),
        }
    }

    /// A directory pre-populated with `files` (a crash image): everything in it is durable.
    pub fn from_image(files: &BTreeMap<String, Vec<u8>>) -> SimDirectory {
        let d = SimDirectory::new();
        {
            let mut fs = d.inner.fs.lock().unwrap();
            for (p, data) in files {
                let ino = fs.inodes.len();
                fs.inodes.push(Inode { data: data.clone() });
                fs.visible.insert(p.clone(), ino);
            }
        }
        d
    }

    pub fn set_fault(&self, f: Option<FaultFn>) {
        self.inner.ctl.lock().unwrap().fault = f;
    }
    pub fn set_gate(&self, g: Option<GateFn>) {
        self.inner.ctl.lock().unwrap().gate = g;
    }
    pub fn set_short_write(&self, s: ShortWrite) {
        self.inner.ctl.lock().unwrap().short_write = s;
    }
    /// makes every read through a file handle a storage operation (off by default: reads are served from memory)
    pub fn set_read_points(&self, on: bool) {
        self.inner.ctl.lock().unwrap().read_points = on;
    }
    pub fn set_log_enabled(&self, on: bool) {
        self.inner.ctl.lock().unwrap().log_enabled = on;
    }
    pub fn marker(&self, m: &str) {
        self.push_log(Op::Marker(m.to_string()), true);
    }
    pub fn log(&self) -> Vec<LogEntry> {
        self.inner.log.lock().unwrap().clone()
    }
    pub fn log_len(&self) -> usize {
        self.inner.log.lock().unwrap().len()
    }
    /// number of storage operations issued so far by each logical thread
    pub fn thread_op_counts(&self) -> BTreeMap<String, usize> {
        self.inner.ctl.lock().unwrap().per_thread.clone()
    }
    pub fn op_count(&self) -> usize {
        self.inner.ctl.lock().unwrap().op_count
    }
    /// currently visible files and their content
    pub fn snapshot(&self) -> BTreeMap<String, Vec<u8>> {
        let fs = self.inner.fs.lock().unwrap();
        fs.visible
            .iter()
            .map(|(p, &i)| (p.clone(), fs.inodes[i].data.clone()))
            .collect()
    }
    pub fn lock_is_held(&self, path: &str) -> bool {
        self.inner.locks.lock().unwrap().contains(path)
    }
    pub fn file_names(&self) -> Vec<String> {
        self.inner.fs.lock().unwrap().visible.keys().cloned().collect()
    }
    pub fn read_file(&self, path: &str) -> Option<Vec<u8>> {
        let fs = self.inner.fs.lock().unwrap();
        fs.visible.get(path).map(|&i| fs.inodes[i].data.clone())
    }
    /// Overwrite a file's bytes in place (damage injection for C20); not logged.
    pub fn overwrite_file(&self, path: &str, data: Vec<u8>) {
        let mut fs = self.inner.fs.lock().unwrap();
        if let Some(&i) = fs.visible.get(path) {
            fs.inodes[i].data = data;
        } else {
            let ino = fs.inodes.len();
            fs.inodes.push(Inode { data });
            fs.visible.insert(path.to_string(), ino);
        }
    }

    fn push_log(&self, op: Op, ok: bool) {
        if !self.inner.ctl.lock().unwrap().log_enabled {
            return;
        }
        self.inner.log.lock().unwrap().push(LogEntry {
            tid: current_tid(),
            op,
            ok,
        });
    }

    /// Called before every operation: gate (scheduling point), then fault decision.
    fn before(&self, kind: &'static str, path: &str) -> Result<(), io::Error> {
        let tid = current_tid();
        let (desc, gate, fault) = {
            let mut c = self.inner.ctl.lock().unwrap();
            let gi = c.op_count;
            c.op_count += 1;
            let ti = {
                let e = c.per_thread.entry(tid.clone()).or_insert(0);
                let v = *e;
                *e += 1;
                v
            };
            (
                OpDesc {
                    tid,
                    kind,
                    path: path.to_string(),
                    global_index: gi,
                    thread_index: ti,
                },
                c.gate.clone(),
                c.fault.clone(),
            )
        };
        if let Some(g) = gate {
            g(&desc);
        }
        if let Some(f) = fault {
            if let Some(e) = f(&desc) {
                return Err(e);
            }
        }
        Ok(())
    }
}

/// file handle whose reads can be gated / fault-injected
struct SimFile {
    dir: SimDirectory,
    path: String,
    data: OwnedBytes,
}

impl std::fmt::Debug for SimFile {
    fn fmt(&self, f: &mut std::fmt::Formatter) -> std::fmt::Result {
        write!(f, "SimFile({}, {} bytes)", self.path, self.data.len())
    }
}

impl tantivy::HasLen for SimFile {
    fn len(&self) -> usize {
        self.data.len()
    }
}

impl FileHandle for SimFile {
    fn read_bytes(&self, range: std::ops::Range<usize>) -> io::Result<OwnedBytes> {
        let r = self.dir.before("read", &self.path);
        self.dir.push_log(Op::Read { path: self.path.clone() }, r.is_ok());
        r?;
        Ok(self.data.slice(range))
    }
}

struct SimWriter {
    dir: SimDirectory,
    path: String,
    ino: usize,
    terminated: bool,
}

impl Write for SimWriter {
    fn write(&mut self, buf: &[u8]) -> io::Result<usize> {
        if buf.is_empty() {
            return Ok(0);
        }
        if let Err(e) = self.dir.before("write", &self.path) {
            self.dir.push_log(
                Op::Write {
                    path: self.path.clone(),
                    ino: self.ino,
                    data: vec![],
                },
                false,
            );
            return Err(e);
        }
        let sw = self.dir.inner.ctl.lock().unwrap().short_write;
        let n = match sw {
            ShortWrite::Full => buf.len(),
            ShortWrite::OneByte => 1,
            ShortWrite::Half => buf.len().div_ceil(2),
        };
        {
            let mut fs = self.dir.inner.fs.lock().unwrap();
            fs.inodes[self.ino].data.extend_from_slice(&buf[..n]);
        }
        self.dir.push_log(
            Op::Write {
                path: self.path.clone(),
                ino: self.ino,
                data: buf[..n].to_vec(),
            },
            true,
        );
        Ok(n)
    }

    fn flush(&mut self) -> io::Result<()> {
        let r = self.dir.before("flush", &self.path);
        self.dir.push_log(
            Op::Flush {
                path: self.path.clone(),
                ino: self.ino,
            },
            r.is_ok(),
        );
        r
    }
}

impl TerminatingWrite for SimWriter {
    fn terminate_ref(&mut self, _: AntiCallToken) -> io::Result<()> {
        let r = self.dir.before("terminate", &self.path);
        self.dir.push_log(
            Op::Terminate {
                path: self.path.clone(),
                ino: self.ino,
            },
            r.is_ok(),
        );
        if r.is_ok() {
            self.terminated = true;
        }
        r
    }
}

impl Directory for SimDirectory {
    fn get_file_handle(&self, path: &Path) -> Result<Arc<dyn FileHandle>, OpenReadError> {
        let p = pstr(path);
        if let Err(e) = self.before("open_read", &p) {
            self.push_log(Op::OpenRead { path: p }, false);
            return Err(OpenReadError::wrap_io_error(e, path.to_path_buf()));
        }
        let data = {
            let fs = self.inner.fs.lock().unwrap();
            fs.visible.get(&p).map(|&i| fs.inodes[i].data.clone())
        };
        self.push_log(Op::OpenRead { path: p }, data.is_some());
        let read_points = self.inner.ctl.lock().unwrap().read_points;
        match data {
            Some(d) if read_points => Ok(Arc::new(SimFile { dir: self.clone(), path: pstr(path), data: OwnedBytes::new(d) })),
            Some(d) => Ok(Arc::new(OwnedBytes::new(d))),
            None => Err(OpenReadError::FileDoesNotExist(path.to_path_buf())),
        }
    }

    fn delete(&self, path: &Path) -> Result<(), DeleteError> {
        let p = pstr(path);
        if let Err(e) = self.before("delete", &p) {
            self.push_log(Op::Delete { path: p }, false);
            return Err(DeleteError::IoError {
                io_error: Arc::new(e),
                filepath: path.to_path_buf(),
            });
        }
        let existed = self.inner.fs.lock().unwrap().visible.remove(&p).is_some();
        self.push_log(Op::Delete { path: p }, existed);
        if existed {
            Ok(())
        } else {
            Err(DeleteError::FileDoesNotExist(path.to_path_buf()))
        }
    }

    fn exists(&self, path: &Path) -> Result<bool, OpenReadError> {
        let p = pstr(path);
        if let Err(e) = self.before("exists", &p) {
            self.push_log(Op::Exists { path: p }, false);
            return Err(OpenReadError::wrap_io_error(e, path.to_path_buf()));
        }
        let r = self.inner.fs.lock().unwrap().visible.contains_key(&p);
        self.push_log(Op::Exists { path: p }, true);
        Ok(r)
    }

    fn open_write(&self, path: &Path) -> Result<WritePtr, OpenWriteError> {
        let p = pstr(path);
        if let Err(e) = self.before("create", &p) {
            self.push_log(Op::Create { path: p, ino: usize::MAX }, false);
            return Err(OpenWriteError::wrap_io_error(e, path.to_path_buf()));
        }
        let ino = {
            let mut fs = self.inner.fs.lock().unwrap();
            if fs.visible.contains_key(&p) {
                None
            } else {
                let ino = fs.inodes.len();
                fs.inodes.push(Inode { data: vec![] });
                fs.visible.insert(p.clone(), ino);
                Some(ino)
            }
        };
        match ino {
            None => {
                self.push_log(Op::Create { path: p, ino: usize::MAX }, false);
                Err(OpenWriteError::FileAlreadyExists(path.to_path_buf()))
            }
            Some(ino) => {
                self.push_log(Op::Create { path: p.clone(), ino }, true);
                let w = SimWriter {
                    dir: self.clone(),
                    path: p,
                    ino,
                    terminated: false,
                };
                Ok(io::BufWriter::new(Box::new(w)))
            }
        }
    }

    fn atomic_read(&self, path: &Path) -> Result<Vec<u8>, OpenReadError> {
        let p = pstr(path);
        if let Err(e) = self.before("atomic_read", &p) {
            self.push_log(Op::AtomicRead { path: p }, false);
            return Err(OpenReadError::wrap_io_error(e, path.to_path_buf()));
        }
        let data = {
            let fs = self.inner.fs.lock().unwrap();
            fs.visible.get(&p).map(|&i| fs.inodes[i].data.clone())
        };
        self.push_log(Op::AtomicRead { path: p }, data.is_some());
        data.ok_or_else(|| OpenReadError::FileDoesNotExist(path.to_path_buf()))
    }

    fn atomic_write(&self, path: &Path, data: &[u8]) -> io::Result<()> {
        let p = pstr(path);
        if let Err(e) = self.before("atomic_write", &p) {
            self.push_log(
                Op::AtomicWrite {
                    path: p,
                    ino: usize::MAX,
                    data: vec![],
                },
                false,
            );
            return Err(e);
        }
        let ino = {
            let mut fs = self.inner.fs.lock().unwrap();
            let ino = fs.inodes.len();
            fs.inodes.push(Inode { data: data.to_vec() });
            fs.visible.insert(p.clone(), ino);
            ino
        };
        self.push_log(
            Op::AtomicWrite {
                path: p.clone(),
                ino,
                data: data.to_vec(),
            },
            true,
        );
        if p == "meta.json" {
            drop(self.inner.watch.broadcast());
        }
        Ok(())
    }

    /// Locks are modelled like MmapDirectory's flock: held in memory by a guard, released when the guard is
    /// dropped (a crash or a failing storage cannot leave a stale lock). Acquisition is a storage operation
    /// ("lock") that can be gated and fault-injected; a blocking lock retries while it is busy.
    fn acquire_lock(&self, lock: &Lock) -> Result<DirectoryLock, LockError> {
        let p = pstr(&lock.filepath);
        let mut retries = if lock.is_blocking { 100 } else { 0 };
        loop {
            if let Err(e) = self.before("lock", &p) {
                return Err(LockError::IoError(Arc::new(e)));
            }
            let got = self.inner.locks.lock().unwrap().insert(p.clone());
            if got {
                return Ok(DirectoryLock::from(Box::new(SimLockGuard { dir: self.clone(), path: p })));
            }
            if retries == 0 {
                return Err(LockError::LockBusy);
            }
            retries -= 1;
            let d = tantivy::verif_hooks::lock_retry_sleep(std::time::Duration::from_millis(100));
            std::thread::sleep(d);
        }
    }

    fn sync_directory(&self) -> io::Result<()> {
        let r = self.before("sync_dir", "");
        self.push_log(Op::SyncDir, r.is_ok());
        r
    }

    fn watch(&self, watch_callback: WatchCallback) -> tantivy::Result<WatchHandle> {
        Ok(self.inner.watch.subscribe(watch_callback))
    }
}

struct SimLockGuard {
    dir: SimDirectory,
    path: String,
}

impl Drop for SimLockGuard {
    fn drop(&mut self) {
        self.dir.inner.locks.lock().unwrap().remove(&self.path);
    }
}

pub fn io_fault(msg: &str) -> io::Error {
    io::Error::other(format!("injected fault: {msg}"))
}

#[allow(dead_code)]
pub fn pathbuf(s: &str) -> PathBuf {
    PathBuf::from(s)
}
