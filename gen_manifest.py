#!/usr/bin/env python3
"""Generates MANIFEST.json from the table below (single source of truth for the interface)."""
import json, subprocess

HOOK_COMMITS = ['1c66e29b6', 'c5cd21b88', 'bb9f2e86a', 'cd646c92e']

# id -> dict(claimed, level, technique, text, note, design_ref, engine, reason)
P = {}
def prop(id, **kw): P[id] = kw

prop("C19", claimed=True, level="model_checking", engine="E-SEQ",
     technique="bounded-exhaustive enumeration of all texts <= L over a 17-symbol unicode alphabet x all tokenizers x all filter chains <= 2, and snippet parameters, on the real analyzers / SnippetGenerator",
     text="Every text of length <= 4 (quick; 5 thorough) over an alphabet with one member per UTF-8 / case-mapping hazard is run through every built-in tokenizer and filter chain and through SnippetGenerator with every small max_num_chars; offsets, boundaries, positions, slice equality, fragment length, highlight and HTML invariants are checked on every one.",
     note="Alphabet and length bound; stemmer and stop-word filters instantiated for English / a fixed word list; texts outside the alphabet are not covered except three designated long texts.",
     design_ref="3/C19")

prop("C16", claimed=True, level="model_checking", engine="E-SEQ (isolated workers)",
     technique="bounded-exhaustive enumeration of all strings <= L over a 31-symbol grammar alphabet and all sequences <= M of grammar tokens through the real strict / lenient parsers in watchdog-isolated sub-processes",
     text="Every string of <= 4 symbols (quick; 5 thorough) and every sequence of <= 3 grammar tokens (4 thorough) plus designated long / deeply nested inputs is parsed by parse_query, parse_query_lenient and QueryParser::{parse_query, parse_query_lenient}; no panic / abort / hang, lenient always yields a query, and whenever strict succeeds lenient yields the same AST without errors (QueryParser level: no errors and the same documents on a 12-document corpus).",
     note="Alphabet, length bounds; hang = no progress for 0.6 s (30 s for long inputs) or 2 GiB address-space exhaustion; QueryParser agreement is checked through the document sets on a fixed corpus. Recorded defects of the pinned tree are narrow signatures in known_findings.json.",
     design_ref="3/C16")

prop("C20", claimed=True, level="model_checking", engine="E-SEQ",
     technique="exhaustive damage enumeration (every bit of every segment file body, every truncation length, short extensions, footer versions) and every short-write pattern through the real footer proxy / validate_checksum",
     text="For every segment file of 12 (thorough 24) small indexes covering all component kinds, every single-bit flip and three substitutions of every body byte, every truncation length and extensions of 1..9 bytes are applied one at a time and Index::validate_checksum must report exactly that file (or fail naming it) and nothing on the intact index; every sequence of <= 3 (4) writes of boundary sizes through the managed directory over an underlying writer that accepts full, 1-byte or half writes must read back exactly and validate; 7 footer versions per file must be refused exactly outside the supported range.",
     note="Index family and write-size alphabet are bounded; multi-byte random damage is not enumerated (CRC32 gives no guarantee there).",
     design_ref="3/C20")

prop("C15", claimed=True, level="model_checking", engine="E-SEQ",
     technique="bounded-exhaustive enumeration of all key subsets x block lengths x all lookups / ranges / automata / merges / insertion orders on the real sstable Dictionary and fst TermDictionary against a BTreeMap",
     text="Every subset of a 9-key (thorough 12-key) universe with 00/ff edges, empty key and shared prefixes, with block lengths forcing a block per key, is built and every get / ordinal conversion / successor search / range (all bound kinds incl. empty and inverted, limits) / prefix / automaton query is compared with a BTreeMap; structured sets up to 40000 keys cross block-index and layer boundaries; all pairs / triples of subsets are merged (sstable merge and TermMerger ordinal maps); every insertion sequence of <= 3 keys must be rejected iff not strictly increasing.",
     note="Key universe and sizes are bounded; `limit` is checked per its documentation (a prefix of the unlimited answer with at least `limit` entries); automata are black boxes run by brute force; columnar's dictionary is exercised through C08.",
     design_ref="3/C15")

prop("C03", claimed=True, level="model_checking", engine="E-SEQ",
     technique="bounded-exhaustive enumeration of corpora x segmentations x delete sets x query trees on the real index, compared with a naive query evaluator and across collectors",
     text="Every multiset of <= 2 (thorough 3) documents over all texts of <= 3 tokens, every contiguous segmentation, every delete subset (and the merged index), is searched with ~12000 query trees (38 leaf kinds incl. phrase / slop, phrase-prefix, typed ranges on fast and indexed-only fields, term-set, exists, fuzzy, regex; booleans of 1-3 clauses x all occurs x minimum_should_match; boost / const / dis-max; depth-2 nestings); structured corpora of 127..5000 documents put terms in all / none / one / 128 / 129 / >4096 documents. DocSetCollector, Count, Query::count, TopDocs (+ Multi / Filter collectors) must all equal the naive evaluation.",
     note="Bounded alphabet / sizes; phrase slop is a sandwich oracle (in-order alignments must match, any alignment may); regex / fuzzy dialects restricted to a common subset; JSON and facet fields are covered in C07 / C16.",
     design_ref="3/C03")

prop("C13", claimed=True, level="model_checking", engine="E-SEQ (explicit-state)",
     technique="explicit-state search over (reference index) states: every program of <= L DocSet calls replayed on a fresh real scorer from every designated state reached by three canonical paths, compared step by step with the plain-advance sequence",
     text="35 scorer instances obtained through Weight::scorer (term, all, empty, bitset / term-set, fast-field range, unions, intersections, exclusions, required-optional, minimum-should-match disjunction, phrase, phrase-prefix, boost / const / dis-max and nestings putting each under an intersection, union and exclusion) on a 9000-document corpus; from ~28 designated positions (64 / 128 / 1024 / 4096 boundaries, ends) reached by advance-only, one seek and two seeks, every program of <= 2 (thorough 3) operations over 22 (29) operations incl. seek_danger loops, fill_buffer, fill_bitset_block and count; doc(), return values, lower bounds and bit-identical scores are checked after every step.",
     note="Program length, designated states and the corpus are bounded; seek_danger is only issued with targets >= doc() and strictly increasing candidates (targets below doc(), as Exclude issues them, are covered by C03); SeekDangerResult is decoded from its Debug rendering because the crate does not export it.",
     design_ref="3/C13")

prop("C06", claimed=True, level="model_checking", engine="E-SEQ",
     technique="bounded-exhaustive enumeration of segment shapes x key assignments x (limit, offset) windows, and of structured pruning corpora x queries x K, against the exhaustive ranking of a non-pruning collector on the same searcher",
     text="Tie family: every shape of <= 3 segments x <= 3 documents (thorough 4 x 5), every assignment of keys over {0,1} / {0,1,2} (custom keys through tweak_score; relevance ties; u64 / i64 / f64 / date / string fast fields with missing values, both orders), single- and multi-threaded: every limit 1..5 x offset 0..5 window equals the slice of the complete list ordered by (key, ascending address). Pruning family: 450-document corpora (periodic tf / length patterns, a hot document at every block-boundary position, tf 300, flat corpora, 1-2 segments, avgdl-shifting segment) x 12 queries (term; unions / intersections of 2-4 terms; required-optional; generic; msm; boosted) x K in {1,2,3,10,500}; plus the 4x4x4 (tf, length) alphabet family around a block boundary.",
     note="Corpus families and K are bounded; multi-clause scores compared within 4 ulp per clause; the placement of documents without a sort value must only be consistent.",
     design_ref="3/C06")

prop("C12", claimed=True, level="model_checking", engine="E-SEQ",
     technique="bounded-exhaustive enumeration of corpora x segmentations x delete sets x scoring queries, each score compared with an independent BM25 evaluation from the searcher statistics, with explain(), across collectors / K and across segmentations",
     text="Every multiset of <= 2 (thorough 3) documents over texts of <= 3 tokens, every contiguous segmentation and delete subset, 30 scoring queries (term, phrase, boolean should / must / must-not, boosts, const-score, dis-max with tie breakers 0 / 0.3 / 1, nested required-optional): every collected score equals the documented BM25 formula over N = sum max_doc, summed document frequencies, avgdl and the quantised field length; explain().value() and TopDocs for several K agree (bit-identical for one scoring clause); without deletes single-clause scores are bit-identical across all segmentations. Field-length family: a document at / around every quantisation bucket boundary up to 3000 (thorough 2^20) tokens, also spread over three segments and merged.",
     note="The formula is evaluated in f32 in the documented operation order and compared with relative tolerance 6e-6; phrase-prefix and sloppy phrases have no closed-form model and are only checked for explain / collector / segmentation consistency.",
     design_ref="3/C12")

prop("C07", claimed=True, level="model_checking", engine="E-SEQ",
     technique="bounded-exhaustive enumeration of document collections x schema options, canonical dump of every segment (term dictionary, postings, frequencies, positions, norms) compared with a model computed with the index's own analyzer; every posting list re-read block-wise and by seeks",
     text="Family A: every multiset of <= 2 (thorough 3) documents over token sequences of <= 3 over {a,b,c} and every two-valued document x {basic, freqs, positions} x fieldnorms on/off x {default, raw, whitespace, ngram(1,2)}, single segment and merged; family B: posting-list lengths {1,127,128,129,255,256,257,384,5000,40000} x doc-id gaps {1,2,255,256,65535} x term-frequency patterns {1,2,127,128,129,300}, terms of length 0 / 1 / 255 / 256 / 65530 / 65531 and a 300-byte shared-prefix family; family C: u64 / i64 / f64 / date / bool / bytes / ip / facet / two JSON fields sharing paths (nested objects, arrays, mixed types) in 1-3 segments and merged.",
     note="Bounded families; tokenizers are black boxes (C19 checks them); typed and JSON term bytes are built with the public Term constructors; segment order after a merge is not demanded here (C04).",
     design_ref="3/C07")

prop("C08", claimed=True, level="model_checking", engine="E-SEQ",
     technique="bounded-exhaustive enumeration of column contents (size x presence pattern x value function x type) and of merge orders on the real columnar writer / reader / merger, compared with a Vec<Vec<value>> model",
     text="Columns of N in {0..70000} rows at every block / threshold boundary (64, 512, 5120 non-null rows per 65536-row block, 65536) x presence {all, none, every p-th, first half, last row, first K around 5120, multi-valued} x 8 value functions (constant .. extremes, <= 32-bit wide ranges) x 8 types: every row's values, first, counts, cardinality, min / max, dictionary order and every value-range lookup with bounds at present values +-1 and far beyond the column's range; merges: every pair of 8 tiny columns stacked and shuffled with alive subsets (type coercion, differing column sets, three inputs) and 70000-row inputs across the 65536-row boundary; typed fast fields of real segments (deletes, two segments, merged).",
     note="Bounded families; numeric columns are compared numerically (the writer may store u64 values as i64); -0.0 / +0.0 membership in a range is left open; JSON sub-path columns are exercised through C14 / C02 dumps.",
     design_ref="3/C08")

prop("C09", claimed=True, level="model_checking", engine="E-SEQ",
     technique="bounded-exhaustive enumeration of document sequences x store configurations x access orders x merges on the real doc store, compared value by value with the documents that were added",
     text="Every sequence of <= 2 (thorough 3) documents from a 20-document alphabet (empty, each value type, several values per field, deep / edge-case JSON, unicode, 40 kB text, stored + non-stored fields, lengths at the vint prefix boundaries) under none / lz4 / zstd x block size 1 / 64 / 16384 x dedicated compression thread; patterned stores of 7..513 documents crossing the 8-way skip-index layers, with deletes; merges of two segments for every pair of compressors (stacking vs re-compression, both source orders, delete patterns incl. a whole source and all documents); 2 MiB values around 2^21. Every live document through Searcher::doc, StoreReader::get with cache sizes 0 / 1 / 10 in forward, reverse, repeated and interleaved orders, and store iteration in doc-id order; non-stored fields never returned.",
     note="Alphabet and sizes are bounded; values are compared as (field, OwnedValue) lists in insertion order.",
     design_ref="3/C09")

prop("C14", claimed=True, level="model_checking", engine="E-SEQ",
     technique="bounded-exhaustive enumeration of corpora x aggregation requests x filtering queries x partitions: direct evaluation of the request over model documents, and differential comparison of every segmentation / every merge order and grouping of separately searched indexes (with serialisation round trip) against the single-segment result",
     text="Every multiset of <= 3 (thorough 4) documents over an 8-document alphabet (negative, fractional and bucket-boundary values, missing fields, a multi-valued document with a duplicate) x ~200 requests (count / sum / min / max / avg / stats with and without missing, extended stats, cardinality, percentiles, terms with order / size / min_doc_count / missing, range, histogram with interval / offset / bounds, date histogram, filter, composite, top_hits, depth-2 nestings incl. terms x histogram) x 3 filtering queries: the result equals a direct evaluation (metrics, terms, range, histogram and nestings) and is identical for every contiguous split into <= 3 segments and for every split into <= 3 separate indexes merged in every order and two groupings, with and without a postcard round trip.",
     note="Exact for counts, keys and bucket order (ties between equal ordering values may permute), 1e-9 relative for float sums, 3% for percentiles; terms requested in the documented exact regime (segment_size >= cardinality) or ordered by key; zones the documentation leaves open (min_doc_count 0 under a filter, several values of one document in one bucket, ordering by sub-aggregation, fractional bounds on integer columns, overlapping ranges) are compared for partition invariance only or avoided.",
     design_ref="3/C14")

prop("C02", claimed=True, level="model_checking", engine="E-SEQ (isolated workers) + E-SCHED + E-LOOM (planned parts noted in DESIGN.md)",
     technique="bounded-exhaustive enumeration of operation histories on the real IndexWriter (in worker sub-processes, under four writer configurations incl. a hook-forced segment cut), every observing step compared with a reference model",
     text="Every history of exactly 4 (thorough 5) operations over a 15-operation alphabet (adds, delete by term / id / query, operation batch, delete-all, commit, prepare + payload, abort, rollback, explicit merge, drop + reopen, wait_merging_threads) from the initial and three non-initial states, under 1 / 2 indexing workers with and without a segment cut after every 1 / 2 documents: after every commit / rollback / abort / merge / reopen a fresh searcher holds exactly the documents of the reference model (ids, keys, stored and fast fields, postings consistent), opstamps increase within a transaction, the commit opstamp exceeds them and equals meta.json's and the payload is stored.",
     note="Depth and alphabet are bounded; merges are explicit and awaited in this part (policy-driven / concurrent behaviour belongs to the scheduler scenarios); delete_all_documents and commit_opstamp() deviations of the pinned tree are recorded known findings.",
     design_ref="3/C02")

prop("C04", claimed=True, level="translation_validation", engine="E-SEQ (translation validation of every merge) + history engine",
     technique="every enumerated merge is validated as a translation: the canonical dump of the merged segment must equal the concatenation, in source order, of the live documents of the source dumps; plus bounded-exhaustive histories under a merge-everything policy against the reference model",
     text="Every merge of 1-3 source segments of 1-3 documents (all field types, positions, multi-valued fast fields, stored fields, JSON) x every delete subset (incl. a whole source and everything -> empty result) x source orders x doc-store stacking vs re-compression x compressor change, through IndexWriter::merge, merge_indices and merge_filtered_segments, and structured 40 / 130 / 200-document sources crossing the 128-document block: stored fields, fast values, field norms and every term's documents, frequencies and positions of the output equal those of the sources' live documents in source order; no stale term, no deletes left. History family: every history of 3 (thorough 4) operations with a policy that merges whenever two segments exist (uncommitted and committed merges between all operations) and with explicit merges, checked against the reference model after every observing step.",
     note="Bounded families; the dump relies on the public readers (validated against models by C07 / C08 / C09); interleavings of the merge thread other than the canonical 'merge finishes before the next operation' schedule belong to the scheduler scenarios (DESIGN.md).",
     design_ref="3/C04")

prop("C17", claimed=True, level="model_checking", engine="E-SEQ (history engine under IndexSettings::sort_by_field)",
     technique="bounded-exhaustive enumeration of operation histories and of two-segment sort-value assignments under every sort field type and direction, with a per-segment order invariant and the reference-model content oracle",
     text="History family: every history of 3 (thorough 4) operations over {adds, deletes by key / id, batch, commit, rollback, merge} from the empty index and from one / two committed multi-document segments, sorted by i64 and string fields (thorough: u64, i64, f64, date, string, bytes) ascending and descending: after every observing step the content equals the reference model, every segment's documents (live and deleted) are in sort order with missing values first / last, and sort values, stored fields and postings stay attached to their document. Merge family: every pair of segments whose documents take sort values from {missing, v1 < v2 < v3} in every insertion order (<= 2 documents each; thorough 3) x every delete subset x type x direction, merged (stacking of disjoint ranges, k-way merge of overlapping ranges, live nulls), plus three-segment shapes.",
     note="Depth, segment sizes and the value alphabet are bounded; sort values include negatives / pre-1970 dates, duplicates and missing values.",
     design_ref="3/C17")

prop("C18", claimed=True, level="model_checking", engine="E-SEQ (explicit-state lifecycles in isolated workers)",
     technique="explicit enumeration of all applicable writer-lifecycle sequences up to a depth over several Index handles of one directory, replayed on fresh real objects against a one-variable model (who holds the writer)",
     text="Every sequence of exactly 4 (thorough 5) lifecycle steps over a clone and a separately opened Index of the same directory (thorough also 3 handles): create with valid options, with 0 threads / 1 kB / 4 GiB budget / 0 merge threads (failed constructions), rollback, drop, wait_merging_threads, prepare + abort, kill an indexing worker, commit; on RamDirectory, SimDirectory and MmapDirectory. Creation succeeds iff no writer is alive on any handle; a refused creation is a lock failure and leaves the live writer able to add and commit; the lock survives rollback (also of a killed writer) and after releasing everything every handle can create a writer.",
     note="Concurrent creation attempts are only exercised by an auxiliary sampled race of 4 real threads (labelled as such in the evidence): atomicity inside a directory's open_write has no scheduling point the harness could control. Cross-process locking is exercised in-process with separate Index instances.",
     design_ref="3/C18")

prop("C11", claimed=True, level="fault_enumeration", engine="E-FAULT (SimDirectory, isolated workers)",
     technique="exhaustive fault enumeration: every storage operation of each workload's fault-free log fails once and permanently, under every continuation policy, on the real writer / reader over the simulated directory",
     text="For each workload (quick: add + commit, add + delete + commit; thorough: + merge + GC, reader reloads, rollback + writer restart) x writer configuration (1-2 workers, dedicated doc-store compressor thread on / off), every storage operation of the fault-free log - create, write, flush, terminate, atomic write, atomic read, open, exists, delete, directory sync, lock acquisition, on the indexing workers, the compressor thread, the segment updater, merge threads and the caller - is made to fail once and permanently from there on, and after the first reported error the driver continues with rollback, with a new writer, or with the same writer: no panic, abort or hang; every commit returning Ok is complete, readable and checksum-clean in a fresh open; after an error the storage holds the last Ok commit or a failed commit's complete state; finally a new writer adds, commits and collects and the directory holds exactly the committed files; a reload that returns Ok hands out a searcher that shows a whole commit and can be queried. Two-deviation family (E-PREEMPT + fault): a merge of two committed segments is preempted at 2 (thorough 5) positions of its merge thread by delete commits, then every storage operation of the updater reconciling and publishing the merge fails once: the published documents stay those of the last commit.",
     note="Single faults (once / permanent), plus one family with a preemption and a fault; an error reported by a commit after its commit point (failed directory sync after meta.json was replaced) leaves that commit's complete state on storage, which is admissible, and the reference continues from what the storage holds; faults are injected at the Directory trait seam of SimDirectory, whose durability / lock model is bound to MmapDirectory by C01's conformance pass; targets are identified by (logical thread, per-thread operation index) of the fault-free run.",
     design_ref="3/C11")

prop("C01", claimed=True, level="fault_enumeration", engine="E-CRASH (SimDirectory operation logs, isolated workers)",
     technique="exhaustive crash-point x crash-image enumeration: every prefix of the storage-operation log of each history (9 designed histories and every step sequence up to a length over a 7-step alphabet), every persistence outcome within a deviation bound of the two extremes plus every issue-order prefix and every subset of pending directory operations, each recovered with the real Index::open / searcher / writer",
     text="Histories run on the real IndexWriter over SimDirectory, which logs every create / write / flush / terminate / atomic write / delete / directory sync with its thread. For EVERY log prefix after index creation, crash images are enumerated from the durability model (data durable after terminate; atomic-write content durable, its rename pending; creations, renames, unlinks pending until the next directory sync): both extremes, all images within 2 deviations of them (per entry: any prefix of its pending operations; per un-synced inode: nothing / half / all but one byte / everything), every issue-order prefix of the pending operations, all 2^n subsets when n <= 8 (thorough 12) entries are pending. Each image must re-open, expose exactly the last returned commit or the commit in flight, validate the checksum of every referenced file, read no unreferenced file, and (once per canonical image) accept a new writer, two delete-only commits re-using the interrupted commit's opstamps, an add, a commit and a collection, after which a fresh open shows exactly the expected documents. Generated histories: all sequences of <= 3 (thorough 4) steps over {add, delete oldest, commit, rollback, merge all, collect, restart writer} closed by a commit, deviation bound 1.",
     note="The durability model is an assumption about the file system, bound to MmapDirectory by the conformance pass (strace of the same workloads: fdatasync before close for every terminate, fdatasync before rename for every atomic write, fsync of the directory for every sync_directory). Images are deduplicated by a canonical form (contents of meta.json and of the files it references; for the continuation also .managed.json and names of unreferenced delete files) whose soundness rests on recovery reading nothing else, which is asserted on every recovery. One writer configuration per designed history (1-2 workers, compressor thread on / off); crash points are operation boundaries, a torn single write is covered by the half / all-but-one content outcomes.",
     design_ref="3/C01")

prop("C10", claimed=True, level="model_checking", engine="E-PREEMPT + E-SEQ + E-CRASH (SimDirectory, isolated workers)",
     technique="exhaustive single-preemption exploration at storage-operation granularity (a collection / reader / writer restart forced in front of every storage operation of every thread of each scenario, on the real writer and reader over the simulated directory), bounded-exhaustive operation histories with a directory-exactness oracle, and crash-image enumeration followed by commit + collection",
     text="(1) For every storage operation issued by the indexing workers, the compressor thread, merge threads and the caller while adds, deletes, commits and a merge run (one worker; segment cut after every document or not; thorough: compressor thread, two workers), the writer's real garbage collection is forced in front of that operation; for every storage operation of a reader reload (own and second Index handle) each of five writer-side actions (commit; merge + collect; emptying commit + collect; commit + merge + collect + drop writer; rollback + payload commit + collect) is forced; for every storage operation of a merge thread the writer is dropped and a new writer commits; for every storage operation of the writer side a new reader loads the index. No call and no open of a segment file may fail for a missing file, and after a closing commit + collection the directory must hold exactly the committed files plus meta.json / .managed.json with a matching managed list. (2) Every history of depth 3 (thorough 4-5) over the 15-operation C02 alphabet (adds, deletes, batches, delete-all, commits, prepared / aborted commits, rollbacks, merges, writer restarts) under cut-after-every-document and the eager merge policy, on SimDirectory: after every commit, awaited merges and a collection, directory exact and every committed file readable. (3) Every crash image of the C01 family (smaller bounds), recovered, followed by delete-only commits, an add, a commit and a collection: directory exact.",
     note="One preemption per run, at the Directory seam; after the forced action threads run freely (the verdict must hold for any continuation). The collection cannot preempt the updater thread, on which it runs by construction. 48 of ~960 points park inside an in-memory critical section (the action waits 300 ms and proceeds afterwards); these are counted. Recorded finding: orphans after a crash when directory operations are persisted out of issue order.",
     design_ref="3/C10")

prop("C05", claimed=True, level="model_checking", engine="E-PREEMPT + E-SEQ (SimDirectory / RamDirectory, isolated workers)",
     technique="exhaustive single-preemption exploration at storage-operation granularity of reader reloads against writer-side actions (and of merge threads against a writer restart, of the writer side against a loading reader), plus bounded-exhaustive operation histories with a long-lived reader reloaded after every operation and held searchers re-read at the end",
     text="(1) A reader reload - on the writer's Index and on a second Index opened on the same directory - is preempted in front of each of its storage operations (meta.json read, meta-lock acquisition, every segment-file open) by each of five writer-side actions (commit; merge + collect; emptying commit + collect; commit + merge + collect + writer drop; rollback + payload commit + collect); every storage operation of a merge thread is preempted by writer drop + new writer + commit; every storage operation of the writer side by a new reader loading. The reload must succeed and show exactly one commit, not older than what the reader showed before; a further reload shows the last commit; the searcher held since before the action answers identically (ids, stored documents, fast field, term-query count, top-docs) after the collection deleted its files; the published state never moves back after a stale merge ends. (2) Every history of depth 3 (thorough 4-5) over the 15-operation C02 alphabet with one long-lived reader reloaded after EVERY operation: equal to a fresh open after a commit, unchanged after any other operation (no uncommitted work, no moving back), and one searcher held per published state re-read after the writer is gone and files are collected.",
     note="One preemption per run at the Directory seam; the swap of the current searcher is a single arc-swap store and is not interleaved further. File bytes are served by SimDirectory / RamDirectory, which keep deleted data alive for open handles as MmapDirectory's mappings do.",
     design_ref="3/C05")

ALL = ["C%02d" % i for i in range(1, 21)]
REASON_TODO = "check not built yet in this revision of /verif (design in DESIGN.md section 3); will be claimed when its engine lands"

def main():
    checks, na = [], []
    for id in ALL:
        p = P.get(id)
        if p and p.get("claimed"):
            checks.append({
                "property_id": id,
                "quick_cmd": f"bin/check {id} quick",
                "thorough_cmd": f"bin/check {id} thorough",
                "evidence_file": f"/verif/evidence/{id}.json",
                "replay_cmd_template": "bin/check replay {path}",
                "engine": p["engine"],
                "level_claimed": {"category": p["level"], "text": p["text"], "design_ref": p["design_ref"]},
                "level_note": p["note"],
                "technique": p["technique"],
            })
        else:
            na.append({"property_id": id, "reason": (p or {}).get("reason", REASON_TODO)})
    m = {
        "version": 1,
        "setup_cmd": "cd /verif/harness && CARGO_NET_OFFLINE=true cargo build --release --offline",
        "hooks": {
            "guard": "cargo feature verif-hooks",
            "enable": "the harness depends on tantivy = { path = \"/repo\", features = [\"verif-hooks\"] }",
            "baseline_off_cmd": "cd /repo && cargo nextest run --workspace --no-fail-fast --test-threads 8 --offline",
            "source_commits": HOOK_COMMITS,
            "add_only": True,
        },
        "engines": [
            {"name": "E-SEQ", "path": "harness/vcheck", "serves_properties": [i for i in ALL if "E-SEQ" in P.get(i, {}).get("engine", "")],
             "kind_free_text": "bounded-exhaustive enumeration of inputs / histories / programs on the real code against boring reference models (explicit-state search where the subject has state: DocSet programs, writer lifecycles, operation histories)"},
            {"name": "E-FAULT", "path": "harness/vcheck/src/c11.rs, simdir.rs, wl.rs", "serves_properties": ["C11"],
             "kind_free_text": "exhaustive single-fault enumeration over the storage-operation log of each workload on SimDirectory (a harness-side tantivy::Directory)"},
            {"name": "E-CRASH", "path": "harness/vcheck/src/c01.rs, crash.rs", "serves_properties": ["C01", "C10"],
             "kind_free_text": "crash-point x crash-image enumeration from SimDirectory logs under an explicit durability model; every image recovered with the real code"},
            {"name": "E-CONF", "path": "harness/vcheck/src/c01conf.rs", "serves_properties": ["C01", "C11", "C10", "C05"],
             "kind_free_text": "conformance of the simulated directory with MmapDirectory: strace of the same workloads on the real directory, projected onto the model's events and compared; fsync obligations checked on the trace"},
            {"name": "E-PREEMPT", "path": "harness/vcheck/src/presched.rs, scen.rs, preempt_family.rs", "serves_properties": ["C05", "C10"],
             "kind_free_text": "exhaustive single-preemption exploration at storage-operation granularity: a scenario is re-run once per (thread, k-th storage operation) with the scenario's action forced in front of that operation through SimDirectory's gate"},
        ],
        "checks": checks,
        "not_applicable": na,
        "notes": "All checks: bin/check <id> <tier>; rebuilds harness/vcheck against /repo's working tree first. exit 2 = machinery error. Known findings: known_findings.json.",
    }
    json.dump(m, open("/verif/MANIFEST.json", "w"), indent=1)
    try:
        import jsonschema
        jsonschema.validate(m, json.load(open("/root/.vp/MANIFEST.schema.json")))
        print("MANIFEST.json valid;", len(checks), "checks,", len(na), "not_applicable")
    except ImportError:
        print("jsonschema not importable; manifest written unvalidated")

if __name__ == "__main__":
    main()
